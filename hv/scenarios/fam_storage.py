"""Storage engines: several client entities issue overlapping put / get / delete / scan (string keys) against
an LSMTree (tiny memtable so flushes and compactions happen; size-tiered / leveled / FIFO compaction; optional
WriteAheadLog with every sync policy), a BTree of small order (splits), a stand-alone Memtable that is flushed
into SSTables, a stand-alone WriteAheadLog (append / truncate / crash / recover) and a TransactionManager
(each isolation level, conflicting multi-key transactions with think time) on top of the LSM tree or the BTree.
Optional power-loss window (LSMTree.crash / recover_from_crash) and periodic CompactionTrigger events.
Every component method is a generator that the clients `yield from` under the engine.

Widened configuration space (all new keys are read with `cfg.get`, old corpus cfgs keep building):
  * `bank`: besides the primary instances, one extra LSMTree per *other* compaction strategy (each with a WAL of a
    rotated sync policy), one extra WriteAheadLog per other sync policy, one extra TransactionManager per other
    isolation level (one on its own BTree, one on its own default-constructed LSMTree); every l_* / w_app / txn
    operation of a client is forwarded (same instant) to a Runner entity per extra instance, so one run exercises
    every strategy / policy / level on the same operation stream;
  * `disk`: a DiskIO entity with an HDD / SSD / NVMe profile (all profile parameters drawn) passed as `disk=` to
    LSMTree, BTree and WriteAheadLog and driven directly by the d_rd / d_wr client operations (HDD draws its seek
    jitter from the module-level `random`, which `seed_all` seeds — no seed is passed);
  * `mem_lock`: an RWLock passed as `rwlock=` to the stand-alone Memtable, taken around m_put (write) / m_get (read);
  * stand-alone SSTable probes with drawn `index_interval` / `bloom_fp_rate` / `level` / `sequence`;
  * durations (`*_ms`) come from `dur_ms` (lossy values, sub-ms decimals, zero where the constructor accepts it,
    latencies longer than inter-arrival times, sync interval longer than the run, crash / recover instants above
    1 s that lose a nanosecond);
  * sizes exceed the library's internal constants: SSTable `index_interval = 16` and the LSM page formula
    `max(1, key_count // 16)` (memtables of 15 / 16 / 17 / 35 entries over key spaces up to 150), SyncOnBatch
    batch of 1 and above the number of writes between flushes, `max_levels` 1 and the default 7;
  * load regimes: light, sustained overload (arrival rate far above what the latencies serve), same-instant bursts.

Known library exception (not a C07/C03 violation): LSMTree.crash() while a flush is in flight makes the resumed
flush raise `ValueError: list.remove(x)`.  The crash is therefore postponed while a flush is in flight unless
`crash_mid_flush` is set (rare)."""
from __future__ import annotations

import random

from hv.scenarios.base import T, dur_ms, seed_all, stats_of, sub_seed

NAME = "storage"
MODEL = "C14"
COMPONENTS = ["LSMTree", "SizeTieredCompaction", "LeveledCompaction", "FIFOCompaction", "WriteAheadLog",
              "SyncEveryWrite", "SyncPeriodic", "SyncOnBatch", "BTree", "Memtable", "SSTable",
              "TransactionManager", "StorageTransaction", "IsolationLevel", "DiskIO", "HDD", "SSD", "NVMe",
              "RWLock", "Source"]

COMPACTIONS = ["size", "leveled", "fifo"]
SYNCS = ["every", "periodic", "batch"]
ISOLATIONS = ["READ_COMMITTED", "SNAPSHOT_ISOLATION", "SERIALIZABLE"]
# client operations: lsm put/get/delete/scan, btree put/get/delete/scan, memtable put/get, wal append, txn
OPS = ["l_put", "l_get", "l_del", "l_scan", "b_put", "b_get", "b_del", "b_scan", "m_put", "m_get", "w_app", "txn"]
# added operations (weights in cfg["w2"]): disk read / write through DiskIO, WAL append_sync
OPS2 = ["d_rd", "d_wr", "w_sync"]
INDEX_INTERVAL = 16      # SSTable default index_interval; LSMTree charges max(1, key_count // 16) pages per flush


def _gen_disk(rng):
    kind = rng.choice(["hdd", "ssd", "nvme"])
    if kind == "hdd":
        return {"kind": kind, "seek_ms": dur_ms(rng, 0.1, 12, zero=True), "rot_ms": dur_ms(rng, 0.1, 6, zero=True),
                "mbps": rng.choice([1, 50, 150, 400]), "qd_penalty": rng.choice([0, 0.1, 0.3, 1.0])}
    if kind == "ssd":
        return {"kind": kind, "read_ms": dur_ms(rng, 0.01, 2, zero=True), "write_ms": dur_ms(rng, 0.01, 4, zero=True),
                "mbps": rng.choice([5, 100, 550, 2000]), "qd_factor": rng.choice([0, 0.15, 0.5, 2.0])}
    return {"kind": kind, "read_ms": dur_ms(rng, 0.01, 1, zero=True), "write_ms": dur_ms(rng, 0.01, 2, zero=True),
            "mbps": rng.choice([10, 500, 3500, 7000]), "native_qd": rng.choice([1, 2, 4, 32]),
            "overflow": rng.choice([0, 0.05, 0.5])}


def gen_cfg(rng):
    # load regime
    regime = rng.choices(["light", "overload", "long"], weights=[62, 26, 12])[0]
    bank = rng.random() < 0.7
    if regime == "long":
        end = rng.choice([8.0, 10.0, 12.0])
        n_clients = rng.randint(2, 4)
        rates = [8, 15, 25]
    elif regime == "overload":
        end = rng.choice([2.0, 3.0])
        n_clients = rng.randint(2, 3)
        rates = [120, 200, 350]
    else:
        end = rng.choice([2.0, 3.0, 4.0])
        n_clients = rng.randint(3, 6)
        rates = [20, 40, 60, 100]
    if bank:
        rates = [max(5, r * 2 // 3) for r in rates]
    n_keys = rng.choice([6, 12, 24, 40]) if rng.random() < 0.55 else rng.choice([15, 16, 17, 33, 48, 100, 150])

    def mem_size():
        # around / above the SSTable index interval (16) and the LSM page formula key_count // 16
        # (a flush / compaction output of >= 32 keys costs more than one page)
        if n_keys > 33 and rng.random() < 0.3:
            s = rng.choice([31, 32, 33, 35, 47])
        else:
            s = rng.choice([2, 3, 4, 6, 8]) if rng.random() < 0.6 else rng.choice([15, 16, 17, 26, 35])
        return max(1, min(s, n_keys - 1))

    disk = _gen_disk(rng) if rng.random() < 0.5 else None
    bursts = []
    if rng.random() < 0.4:
        for _ in range(rng.randint(1, 3)):
            bursts.append([dur_ms(rng, 50, min(2600, end * 1000 - 600)), rng.choice([5, 20, 60]),
                           rng.randrange(n_clients)])
    return {
        "end": end,
        "regime": regime,
        "bank": bank,
        "sync_rot": rng.randrange(3),
        "n_keys": n_keys,
        "n_clients": n_clients,
        "clients": [{"rate": rng.choice(rates), "poisson": rng.random() < 0.5} for _ in range(n_clients)],
        "bursts": bursts,
        "w": [rng.randint(2, 8), rng.randint(2, 8), rng.randint(0, 4), rng.randint(0, 3),
              rng.randint(1, 6), rng.randint(1, 6), rng.randint(0, 3), rng.randint(0, 3),
              rng.randint(0, 4), rng.randint(0, 3), rng.randint(0, 3), rng.randint(1, 6)],
        "w2": [rng.randint(0, 3) if disk else 0, rng.randint(0, 3) if disk else 0, rng.randint(0, 2)],
        # lsm
        "memtable": mem_size(),
        "memtable2": mem_size(),
        "compaction": rng.choice(COMPACTIONS),
        "min_sst": rng.choice([1, 2, 2, 3, 4, 5]),
        "l0_max": rng.randint(1, 4),
        "ratio": rng.choice([1, 2, 3, 10]),
        "base_keys": rng.choice([1, 4, 8, 16, 1000]),
        "fifo_max": rng.choice([1, 2, 3, 5, 100]),
        "max_levels": rng.choice([1, 2, 3, 4, 7]),
        "sst_read_ms": dur_ms(rng, 0.05, 8, zero=True),
        "sst_write_ms": dur_ms(rng, 0.1, 40, zero=True),
        "lsm_wal": rng.random() < 0.75,
        "sync": rng.choice(SYNCS),
        # shorter than a write, around the inter-arrival time, longer than the whole run
        "sync_interval_ms": dur_ms(rng, 0.5, 1500) if rng.random() < 0.85 else dur_ms(rng, 2000, 15000),
        "sync_batch": rng.choice([1, 2, 3, 6, 20, 64]),
        "wal_write_ms": dur_ms(rng, 0.02, 5, zero=True),
        "wal_sync_ms": dur_ms(rng, 0.1, 30, zero=True),
        # period of the CompactionTrigger source (None: none); `trigger_rate` is the old whole-Hz key
        "trigger_rate": 0,
        "trigger_ms": dur_ms(rng, 15, 1300) if rng.random() < 0.5 else None,
        "crash": [dur_ms(rng, 300, min(2600, end * 1000 - 500)), dur_ms(rng, 0.5, 400, zero=True)]
        if rng.random() < 0.3 else None,
        "crash_mid_flush": rng.random() < 0.1,
        # disk
        "disk": disk,
        "disk_sizes": [rng.choice([1, 512, 4096]), rng.choice([4096, 65536, 1048576])],
        # btree
        "order": rng.choice([3, 3, 4, 5, 6, 16, 128]),
        "page_read_ms": dur_ms(rng, 0.05, 4, zero=True),
        "page_write_ms": dur_ms(rng, 0.05, 12, zero=True),
        # stand-alone memtable / wal
        "mem_size": mem_size(),
        "mem_lat_ms": dur_ms(rng, 0.01, 4, zero=True),
        "mem_read_ms": dur_ms(rng, 0.005, 6, zero=True),
        "mem_lock": rng.choice([None, None, 0, 1, 2]),    # None: no RWLock; 0: unlimited readers; n: max_readers
        "sync2": rng.choice(SYNCS),
        "wal2_truncate_every": rng.choice([0, 1, 7, 15]),
        "wal2_crash_ms": rng.choice([None, dur_ms(rng, 200, min(2600, end * 1000 - 300))]),
        # stand-alone SSTable probes
        "sst_probe": {"period_ms": dur_ms(rng, 40, 1400), "index_interval": rng.choice([1, 2, 15, 16, 17, 64]),
                      "fp_rate": rng.choice([0.001, 0.01, 0.25, 0.5, 0.99]), "n": rng.choice([0, 1, 15, 16, 17, 40])}
        if rng.random() < 0.6 else None,
        # transactions
        "tx_store": rng.choice(["lsm", "btree"]),
        "isolation": rng.choice(ISOLATIONS),
        "deadlock_detection": rng.random() < 0.5,
        "tx_override": rng.random() < 0.3,
        "tx_sync_pct": rng.choice([0, 0, 30, 100]),
        "tx_keys": rng.randint(1, 4),
        "tx_hot": rng.randint(1, 5),
        "tx_think_ms": dur_ms(rng, 0.1, 150, zero=True) if rng.random() < 0.8 else 0,
        "tx_abort_pct": rng.choice([0, 10, 30, 100]),
    }


def _sync_policy(kind, cfg):
    from happysimulator.components.storage import SyncEveryWrite, SyncOnBatch, SyncPeriodic

    if kind == "every":
        return SyncEveryWrite()
    if kind == "periodic":
        return SyncPeriodic(interval_s=cfg["sync_interval_ms"] / 1000.0)
    return SyncOnBatch(batch_size=cfg["sync_batch"])


def _compaction(cfg, kind=None):
    from happysimulator.components.storage import FIFOCompaction, LeveledCompaction, SizeTieredCompaction

    c = kind or cfg["compaction"]
    if c == "size":
        return SizeTieredCompaction(min_sstables=cfg["min_sst"])
    if c == "leveled":
        return LeveledCompaction(level_0_max=cfg["l0_max"], size_ratio=cfg["ratio"], base_size_keys=cfg["base_keys"])
    return FIFOCompaction(max_total_sstables=cfg["fifo_max"])


def _disk(d):
    from happysimulator.components.infrastructure.disk_io import HDD, SSD, NVMe, DiskIO

    if d is None:
        return None
    if d["kind"] == "hdd":
        prof = HDD(seek_time_s=d["seek_ms"] / 1000.0, rotational_latency_s=d["rot_ms"] / 1000.0,
                   transfer_rate_mbps=float(d["mbps"]), queue_depth_penalty=d["qd_penalty"])
    elif d["kind"] == "ssd":
        prof = SSD(base_read_latency_s=d["read_ms"] / 1000.0, base_write_latency_s=d["write_ms"] / 1000.0,
                   transfer_rate_mbps=float(d["mbps"]), queue_depth_factor=d["qd_factor"])
    else:
        prof = NVMe(base_read_latency_s=d["read_ms"] / 1000.0, base_write_latency_s=d["write_ms"] / 1000.0,
                    transfer_rate_mbps=float(d["mbps"]), native_queue_depth=d["native_qd"],
                    overflow_penalty=d["overflow"])
    return DiskIO("disk", profile=prof)


def build(cfg, seed):
    from happysimulator.components.storage import (
        BTree,
        IsolationLevel,
        LSMTree,
        Memtable,
        SSTable,
        StorageTransaction,
        TransactionManager,
        WriteAheadLog,
    )
    from happysimulator.components.sync import RWLock
    from happysimulator.core.entity import Entity
    from happysimulator.core.event import Event
    from happysimulator.core.simulation import Simulation
    from happysimulator.core.temporal import Instant
    from happysimulator.load.source import Source

    seed_all(seed)
    end = cfg["end"]
    stop = end - 0.5
    nk = cfg["n_keys"]
    bank = cfg.get("bank", False)
    LEVELS = {"READ_COMMITTED": IsolationLevel.READ_COMMITTED,
              "SNAPSHOT_ISOLATION": IsolationLevel.SNAPSHOT_ISOLATION,
              "SERIALIZABLE": IsolationLevel.SERIALIZABLE}
    weights = list(cfg["w"]) + list(cfg.get("w2", [0] * len(OPS2)))
    all_ops = OPS + OPS2

    def key(i):
        return f"user-{i % nk}"

    disk = _disk(cfg.get("disk"))
    wal_w, wal_s = cfg["wal_write_ms"] / 1000.0, cfg["wal_sync_ms"] / 1000.0
    sst_r, sst_w = cfg["sst_read_ms"] / 1000.0, cfg["sst_write_ms"] / 1000.0

    wal = None
    if cfg["lsm_wal"]:
        wal = WriteAheadLog("wal", sync_policy=_sync_policy(cfg["sync"], cfg), disk=disk,
                            write_latency=wal_w, sync_latency=wal_s)
    lsm = LSMTree("db", memtable_size=cfg["memtable"], compaction_strategy=_compaction(cfg), wal=wal, disk=disk,
                  sstable_read_latency=sst_r, sstable_write_latency=sst_w, max_levels=cfg["max_levels"])
    btree = BTree("idx", order=cfg["order"], disk=disk, page_read_latency=cfg["page_read_ms"] / 1000.0,
                  page_write_latency=cfg["page_write_ms"] / 1000.0)
    ml = cfg.get("mem_lock")
    mem_lock = None if ml is None else RWLock("mem-lock", max_readers=ml or None)
    mem_read = cfg["mem_read_ms"] / 1000.0 if "mem_read_ms" in cfg else cfg["mem_lat_ms"] / 2000.0
    mem = Memtable("mem", size_threshold=cfg["mem_size"], write_latency=cfg["mem_lat_ms"] / 1000.0,
                   read_latency=mem_read, rwlock=mem_lock)
    wal2 = WriteAheadLog("wal2", sync_policy=_sync_policy(cfg["sync2"], cfg), write_latency=wal_w, sync_latency=wal_s)
    txm = TransactionManager("txm", store=lsm if cfg["tx_store"] == "lsm" else btree,
                             isolation=LEVELS[cfg["isolation"]],
                             deadlock_detection=cfg.get("deadlock_detection", True))

    # ---- bank of the other variants (own instances, fed by the same client operations)
    x_lsms, x_wals, x_txms, x_entities = [], [], [], []
    if bank:
        rot = cfg.get("sync_rot", 0)
        for j, c in enumerate(k for k in COMPACTIONS if k != cfg["compaction"]):
            sk = SYNCS[(j + rot) % 3]
            w = WriteAheadLog(f"wal-{c}", sync_policy=_sync_policy(sk, cfg), disk=disk if j else None,
                              write_latency=wal_w, sync_latency=wal_s)
            t = LSMTree(f"db-{c}", memtable_size=cfg.get("memtable2", cfg["memtable"]),
                        compaction_strategy=_compaction(cfg, c), wal=w, sstable_read_latency=sst_r,
                        sstable_write_latency=sst_w, max_levels=cfg["max_levels"])
            x_lsms.append(t)
            x_entities += [w, t]
        for sk in (s for s in SYNCS if s != cfg["sync2"]):
            w = WriteAheadLog(f"wal2-{sk}", sync_policy=_sync_policy(sk, cfg), write_latency=wal_w, sync_latency=wal_s)
            x_wals.append(w)
            x_entities.append(w)
        for j, iso in enumerate(i for i in ISOLATIONS if i != cfg["isolation"]):
            if j == 0:
                st = BTree(f"idx-{iso}", order=cfg["order"], page_read_latency=cfg["page_read_ms"] / 1000.0,
                           page_write_latency=cfg["page_write_ms"] / 1000.0)
            else:
                st = LSMTree(f"db-{iso}", memtable_size=cfg["memtable"])     # everything else at its default
            m = TransactionManager(f"txm-{iso}", st, LEVELS[iso], not cfg.get("deadlock_detection", True))
            x_txms.append(m)
            x_entities += [st, m]

    sstables = []        # SSTables produced by flushing the stand-alone memtable (newest last)
    shared = {"mem_flushes": 0, "wal2_truncs": 0, "sst_hits": 0, "sst_bloom_skips": 0}

    def short(r):
        return [[x, y if isinstance(y, (str, int, float)) or y is None else type(y).__name__] for x, y in r[:40]]

    def lsm_op(tree, op, c):
        """one l_* operation on `tree`; returns the loggable result"""
        if op == "l_put":
            yield from tree.put(c["k"], c["val"])
            return c["val"]
        if op == "l_get":
            return (yield from tree.get(c["k"]))
        if op == "l_del":
            yield from tree.delete(c["k"])
            return None
        r = yield from tree.scan(c["a"], c["b"])
        return short(r)

    def run_txn(mgr, rng, stats):
        iso = None
        if cfg["tx_override"] and rng.random() < 0.5:
            iso = LEVELS[rng.choice(ISOLATIONS)]
        if rng.randrange(100) < cfg.get("tx_sync_pct", 0):
            tx = mgr.begin_sync(iso)
        else:
            tx = yield from mgr.begin(iso)
        assert isinstance(tx, StorageTransaction)
        hot = cfg["tx_hot"]
        reads = []
        for j in range(cfg["tx_keys"]):
            kk = f"user-{rng.randrange(hot) % nk}"
            r = yield from tx.read(kk)
            reads.append([kk, r])
        if cfg["tx_think_ms"]:
            yield cfg["tx_think_ms"] / 1000.0
        for j in range(rng.randint(1, cfg["tx_keys"])):
            kk = f"user-{rng.randrange(hot) % nk}"
            yield from tx.write(kk, f"t{tx.tx_id}.{j}")
        if rng.randrange(100) < cfg["tx_abort_pct"]:
            tx.abort()
            stats["aborts"] += 1
            return "abort", reads
        ok = yield from tx.commit()
        stats["commits" if ok else "conflicts"] += 1
        return ("commit" if ok else "conflict"), reads

    class Runner(Entity):
        """applies the operations forwarded by the clients to one extra instance of the bank"""

        def __init__(self, name, inst, kind):
            super().__init__(name)
            self.inst = inst
            self.kind = kind
            self.rng = random.Random(sub_seed(seed, "runner", name))
            self.n = 0
            self.done = 0
            self.log = []
            self.tx = {"commits": 0, "aborts": 0, "conflicts": 0}

        def handle_event(self, event):
            c = event.context
            self.n += 1
            if self.kind == "lsm":
                r = yield from lsm_op(self.inst, c["op"], c)
            elif self.kind == "wal":
                r = yield from self.inst.append(c["k"], c["val"])
            else:
                r = yield from run_txn(self.inst, self.rng, self.tx)
                r = [r[0], r[1]]
            self.done += 1
            if len(self.log) < 150:
                self.log.append([c["op"], c.get("k"), r])

    runners = {"lsm": [Runner(f"run-{t.name}", t, "lsm") for t in x_lsms],
               "wal": [Runner(f"run-{w.name}", w, "wal") for w in x_wals],
               "txn": [Runner(f"run-{m.name}", m, "txn") for m in x_txms]}

    class Client(Entity):
        def __init__(self, i):
            super().__init__(f"client-{i}")
            self.i = i
            self.rng = random.Random(sub_seed(seed, "client", i))
            self.n = 0
            self.done = 0
            self.ops = {op: 0 for op in all_ops}
            self.log = []
            self.tx = {"commits": 0, "aborts": 0, "conflicts": 0}

        def note(self, op, k, res):
            self.done += 1
            if len(self.log) < 400:
                self.log.append([op, k, res])

        def forward(self, kind, ctx):
            return [Event(time=self.now, event_type="Op", target=r, context=dict(ctx)) for r in runners[kind]]

        def handle_event(self, event):
            self.n += 1
            rng = self.rng
            op = rng.choices(all_ops, weights=weights)[0]
            self.ops[op] += 1
            k = key(rng.randrange(nk))
            val = f"v{self.i}.{self.n}"
            if op in ("l_put", "l_get", "l_del", "l_scan"):
                ctx = {"op": op, "k": k, "val": val}
                if op == "l_scan":
                    lo = rng.randrange(nk)
                    ctx["a"], ctx["b"] = sorted([key(lo), key(lo + rng.randint(1, 9))])
                    ctx["k"] = ctx["a"]
                # the copies for the other LSM variants leave at the same instant as the primary operation starts
                fw = self.forward("lsm", ctx)
                if fw:
                    yield 0.0, fw
                r = yield from lsm_op(lsm, op, ctx)
                self.note(op, ctx["k"], r)
            elif op == "b_put":
                yield from btree.put(k, val)
                self.note(op, k, val)
            elif op == "b_get":
                r = yield from btree.get(k)
                self.note(op, k, r)
            elif op == "b_del":
                r = yield from btree.delete(k)
                self.note(op, k, r)
            elif op == "b_scan":
                lo = rng.randrange(nk)
                a, b = sorted([key(lo), key(lo + rng.randint(1, 9))])
                r = yield from btree.scan(a, b)
                self.note(op, a, short(r))
            elif op == "m_put":
                if mem_lock is not None:
                    yield from mem_lock.acquire_write()
                full = yield from mem.put(k, val)
                if full and mem.is_full:
                    sstables.append(mem.flush())
                    del sstables[:-12]
                    shared["mem_flushes"] += 1
                if mem_lock is not None:
                    mem_lock.release_write()
                self.note(op, k, full)
            elif op == "m_get":
                if mem_lock is not None:
                    yield from mem_lock.acquire_read()
                r = yield from mem.get(k)
                if mem_lock is not None:
                    mem_lock.release_read()
                if r is None:
                    for sst in reversed(list(sstables)):
                        if not sst.contains(k):
                            shared["sst_bloom_skips"] += 1
                            continue
                        pages = sst.page_reads_for_get(k)
                        yield pages * sst_r
                        r = sst.get(k)
                        if r is not None:
                            shared["sst_hits"] += 1
                            break
                self.note(op, k, r)
            elif op == "w_app":
                fw = self.forward("wal", {"op": op, "k": k, "val": val})
                if fw:
                    yield 0.0, fw
                seq = yield from wal2.append(k, val)
                te = cfg["wal2_truncate_every"]
                if te and seq % te == 0:
                    wal2.truncate(min(seq - 2, wal2.synced_up_to))
                    shared["wal2_truncs"] += 1
                self.note(op, k, seq)
            elif op == "w_sync":
                seq = wal2.append_sync(k, val)
                self.note(op, k, seq)
                return None
            elif op == "d_rd":
                if disk is not None:
                    yield from disk.read(cfg["disk_sizes"][rng.randrange(2)])
                self.note(op, k, disk.queue_depth if disk is not None else None)
            elif op == "d_wr":
                if disk is not None:
                    yield from disk.write(cfg["disk_sizes"][rng.randrange(2)])
                self.note(op, k, disk.queue_depth if disk is not None else None)
            else:
                fw = self.forward("txn", {"op": op})
                if fw:
                    yield 0.0, fw
                res, reads = yield from run_txn(txm, rng, self.tx)
                self.note("txn", res, reads)

    class Admin(Entity):
        def __init__(self):
            super().__init__("admin")
            self.reports = []
            self.rng = random.Random(sub_seed(seed, "admin"))
            self.defer = 0

        def handle_event(self, event):
            op = event.event_type
            if op == "crash":
                # known library exception: crash() while a flush is in flight -> the resumed flush raises ValueError
                busy = any(getattr(t, "_immutable_memtables", None) for t in [lsm, *x_lsms])
                if busy and not cfg.get("crash_mid_flush", True) and self.defer < 400:
                    self.defer += 1
                    return [Event(time=self.now + 0.0007, event_type="crash", target=self)]
                self.reports.append(["crash", self.now.nanoseconds, [t.crash() for t in [lsm, *x_lsms]]])
                if "crash_mid_flush" not in cfg:      # old shape: the recover event was scheduled up front
                    return []
                return [Event(time=self.now + cfg["crash"][1] / 1000.0, event_type="recover", target=self)]
            if op == "recover":
                self.reports.append(["recover", self.now.nanoseconds,
                                     [t.recover_from_crash() for t in [lsm, *x_lsms]]])
            elif op == "wal2_crash":
                for w in [wal2, *x_wals]:
                    lost = w.crash()
                    rec = w.recover()
                    self.reports.append([w.name, {"lost": lost, "recovered": len(rec),
                                                  "last": [rec[-1].sequence_number, rec[-1].key, rec[-1].timestamp_s]
                                                  if rec else None}])
            elif op == "sst_probe":
                p = cfg["sst_probe"]
                r = self.rng
                data = [(key(r.randrange(nk)), f"s{j}") for j in range(p["n"])]
                data = list(dict(data).items())
                a = SSTable(data, index_interval=p["index_interval"], bloom_fp_rate=p["fp_rate"],
                            level=r.randrange(3), sequence=len(self.reports))
                b = sstables[-1] if sstables and r.random() < 0.5 else SSTable(
                    data[: len(data) // 2], index_interval=p["index_interval"], bloom_fp_rate=p["fp_rate"])
                probe = [key(r.randrange(nk)) for _ in range(4)] + ["zzz"]
                lo, hi = sorted([key(r.randrange(nk)), key(r.randrange(nk))])
                self.reports.append(["sst", len(a), a.level, a.sequence, a.min_key, a.max_key, a.overlaps(b),
                                     b.overlaps(a), [[q, a.contains(q), a.get(q), a.page_reads_for_get(q)]
                                                     for q in probe],
                                     [list(x) for x in a.scan(lo, hi)][:20], a.page_reads_for_scan(lo, hi),
                                     a.page_reads_for_scan(), a.stats.index_entries, a.stats.bloom_filter_size_bits,
                                     a.stats.bloom_filter_fp_rate, a.bloom_filter.num_hashes, repr(a)])
            return []

    clients = [Client(i) for i in range(cfg["n_clients"])]
    admin = Admin()
    sources = []
    for i, c in enumerate(cfg["clients"]):
        mk = Source.poisson if c["poisson"] else Source.constant
        sources.append(mk(rate=c["rate"], target=clients[i], event_type="Tick", name=f"src-{i}", stop_after=stop))
    trig = 1000.0 / cfg["trigger_ms"] if cfg.get("trigger_ms") else cfg["trigger_rate"]
    if trig:
        for t in [lsm, *x_lsms]:
            sources.append(Source.constant(rate=trig, target=t, event_type="CompactionTrigger",
                                           name=f"src-compact-{t.name}" if t is not lsm else "src-compact",
                                           stop_after=end - 0.1))
    if cfg.get("sst_probe"):
        sources.append(Source.constant(rate=1000.0 / cfg["sst_probe"]["period_ms"], target=admin,
                                       event_type="sst_probe", name="src-probe", stop_after=end - 0.1))
    entities = [lsm, btree, mem, wal2, txm, admin, *clients, *x_entities]
    for rs in runners.values():
        entities += rs
    if wal is not None:
        entities.insert(0, wal)
    if disk is not None:
        entities.append(disk)
    if mem_lock is not None:
        entities.append(mem_lock)
    sim = Simulation(end_time=T(end), sources=sources, entities=entities)

    def at(ms, typ, target=admin):
        sim.schedule(Event(time=Instant.from_seconds(ms / 1000.0), event_type=typ, target=target))

    if cfg["crash"]:
        at(cfg["crash"][0], "crash")
        if "crash_mid_flush" not in cfg:          # old shape: the recover instant is scheduled up front
            at(cfg["crash"][0] + cfg["crash"][1], "recover")
    if cfg["wal2_crash_ms"] is not None:
        at(cfg["wal2_crash_ms"], "wal2_crash")
    for t_ms, n, ci in cfg.get("bursts", []):
        for _ in range(n):
            at(t_ms, "Tick", clients[ci % len(clients)])

    def wal_obs(w):
        def read():
            return {"size": w.size, "synced_up_to": w.synced_up_to,
                    "entries": [[e.sequence_number, e.key, e.timestamp_s] for e in w.recover()][-20:]}
        return read

    def contents(store):
        def read():
            out = []
            for i in range(nk):
                v = store.get_sync(key(i))
                out.append([key(i), v if (v is None or isinstance(v, (str, int, float))) else type(v).__name__])
            return out
        return read

    obs = {
        "a.lsm": stats_of(lsm),
        "a.lsm.levels": lambda: lsm.level_summary,
        "a.btree": stats_of(btree),
        "a.btree.x": lambda: {"depth": btree.depth, "size": btree.size},
        "a.mem": stats_of(mem),
        "a.mem.x": lambda: {"size": mem.size, "full": mem.is_full, "contains": [mem.contains(key(i)) for i in range(nk)]},
        "a.wal2": stats_of(wal2),
        "a.txm": stats_of(txm),
        "a.txm.active": lambda: txm.active_transactions,
        "b.wal2.x": wal_obs(wal2),
        "b.sstables": lambda: [[s.key_count, s.size_bytes, s.min_key, s.max_key, s.sequence, s.level,
                                s.stats.index_entries, s.stats.bloom_filter_size_bits,
                                s.stats.bloom_filter_fp_rate, [[a, b] for a, b in s.scan()][:40]] for s in sstables],
        "b.shared": lambda: dict(shared),
        "b.admin": lambda: admin.reports[:60] + admin.reports[-5:],
        # final contents are read last (get_sync bumps the read counters)
        "z.lsm.contents": contents(lsm),
        "z.btree.contents": contents(btree),
    }
    if wal is not None:
        obs["a.wal"] = stats_of(wal)
        obs["b.wal.x"] = wal_obs(wal)
    if disk is not None:
        obs["a.disk"] = stats_of(disk)
        obs["a.disk.x"] = lambda: {"qd": disk.queue_depth, "avg_r": disk.stats.avg_read_latency_s,
                                   "avg_w": disk.stats.avg_write_latency_s, "repr": repr(disk)}
    if mem_lock is not None:
        obs["a.mem_lock"] = stats_of(mem_lock)
        obs["a.mem_lock.x"] = lambda: {"readers": mem_lock.active_readers, "w": mem_lock.is_write_locked,
                                       "max": mem_lock.max_readers}
    for t in x_lsms:
        obs[f"x.{t.name}"] = stats_of(t)
        obs[f"x.{t.name}.levels"] = (lambda t=t: t.level_summary)
        obs[f"z.{t.name}.contents"] = contents(t)
        obs[f"x.{t._wal.name}"] = stats_of(t._wal)
        obs[f"x.{t._wal.name}.x"] = wal_obs(t._wal)
    for w in x_wals:
        obs[f"x.{w.name}"] = stats_of(w)
        obs[f"x.{w.name}.x"] = wal_obs(w)
    for m in x_txms:
        obs[f"x.{m.name}"] = stats_of(m)
        obs[f"x.{m.name}.active"] = (lambda m=m: m.active_transactions)
        obs[f"x.{m.name}.store"] = stats_of(m._store)
        obs[f"z.{m.name}.contents"] = contents(m._store)
    for rs in runners.values():
        for r in rs:
            obs["r." + r.name] = (lambda r=r: {"n": r.n, "done": r.done, "tx": r.tx, "log": r.log})
    for c in clients:
        obs["c." + c.name] = (lambda c=c: {"n": c.n, "done": c.done, "ops": c.ops, "commits": c.tx["commits"],
                                           "aborts": c.tx["aborts"], "conflicts": c.tx["conflicts"], "log": c.log})
    return sim, obs
