"""Storage engines: several client entities issue overlapping put / get / delete / scan (string keys) against
an LSMTree (tiny memtable so flushes and compactions happen; size-tiered / leveled / FIFO compaction; optional
WriteAheadLog with every sync policy), a BTree of small order (splits), a stand-alone Memtable that is flushed
into SSTables, a stand-alone WriteAheadLog (append / truncate / crash / recover) and a TransactionManager
(each isolation level, conflicting multi-key transactions with think time) on top of the LSM tree or the BTree.
Optional power-loss window (LSMTree.crash / recover_from_crash) and periodic CompactionTrigger events.
Every component method is a generator that the clients `yield from` under the engine."""
from __future__ import annotations

import random

from hv.scenarios.base import T, seed_all, stats_of, sub_seed

NAME = "storage"
MODEL = "C14"
COMPONENTS = ["LSMTree", "SizeTieredCompaction", "LeveledCompaction", "FIFOCompaction", "WriteAheadLog",
              "SyncEveryWrite", "SyncPeriodic", "SyncOnBatch", "BTree", "Memtable", "SSTable",
              "TransactionManager", "StorageTransaction", "IsolationLevel", "Source"]

COMPACTIONS = ["size", "leveled", "fifo"]
SYNCS = ["every", "periodic", "batch"]
ISOLATIONS = ["READ_COMMITTED", "SNAPSHOT_ISOLATION", "SERIALIZABLE"]
# client operations: lsm put/get/delete/scan, btree put/get/delete/scan, memtable put/get, wal append, txn
OPS = ["l_put", "l_get", "l_del", "l_scan", "b_put", "b_get", "b_del", "b_scan", "m_put", "m_get", "w_app", "txn"]


def gen_cfg(rng):
    n_clients = rng.randint(3, 6)
    n_keys = rng.choice([6, 12, 24, 40])
    return {
        "end": rng.choice([2.0, 3.0, 4.0]),
        "n_keys": n_keys,
        "n_clients": n_clients,
        "clients": [{"rate": rng.choice([20, 40, 60, 100]), "poisson": rng.random() < 0.5}
                    for _ in range(n_clients)],
        "w": [rng.randint(2, 8), rng.randint(2, 8), rng.randint(0, 4), rng.randint(0, 3),
              rng.randint(1, 6), rng.randint(1, 6), rng.randint(0, 3), rng.randint(0, 3),
              rng.randint(0, 4), rng.randint(0, 3), rng.randint(0, 3), rng.randint(1, 6)],
        # lsm
        "memtable": rng.randint(2, min(8, n_keys - 1)),
        "compaction": rng.choice(COMPACTIONS),
        "min_sst": rng.randint(2, 4),
        "l0_max": rng.randint(2, 3),
        "ratio": rng.randint(2, 3),
        "base_keys": rng.choice([4, 8, 16]),
        "fifo_max": rng.randint(2, 5),
        "max_levels": rng.randint(2, 4),
        "sst_read_ms": rng.randint(1, 5),
        "sst_write_ms": rng.randint(1, 10),
        "lsm_wal": rng.random() < 0.75,
        "sync": rng.choice(SYNCS),
        "sync_interval_ms": rng.choice([5, 20, 100]),
        "sync_batch": rng.randint(2, 6),
        "wal_write_ms": rng.randint(1, 3),
        "wal_sync_ms": rng.randint(1, 8),
        "trigger_rate": rng.choice([0, 0, 5, 20]),
        "crash": [rng.randint(400, 1200), rng.randint(1, 60)] if rng.random() < 0.35 else None,
        # btree
        "order": rng.randint(3, 6),
        "page_read_ms": rng.randint(1, 3),
        "page_write_ms": rng.randint(1, 5),
        # stand-alone memtable / wal
        "mem_size": rng.randint(3, min(6, n_keys - 1)),
        "mem_lat_ms": rng.randint(1, 3),
        "sync2": rng.choice(SYNCS),
        "wal2_truncate_every": rng.choice([0, 7, 15]),
        "wal2_crash_ms": rng.choice([None, 700, 1300]),
        # transactions
        "tx_store": rng.choice(["lsm", "btree"]),
        "isolation": rng.choice(ISOLATIONS),
        "tx_override": rng.random() < 0.3,
        "tx_keys": rng.randint(1, 4),
        "tx_hot": rng.randint(2, 5),
        "tx_think_ms": rng.randint(0, 30),
        "tx_abort_pct": rng.choice([0, 10, 30]),
    }


def _sync_policy(kind, cfg):
    from happysimulator.components.storage import SyncEveryWrite, SyncOnBatch, SyncPeriodic

    if kind == "every":
        return SyncEveryWrite()
    if kind == "periodic":
        return SyncPeriodic(interval_s=cfg["sync_interval_ms"] / 1000.0)
    return SyncOnBatch(batch_size=cfg["sync_batch"])


def _compaction(cfg):
    from happysimulator.components.storage import FIFOCompaction, LeveledCompaction, SizeTieredCompaction

    c = cfg["compaction"]
    if c == "size":
        return SizeTieredCompaction(min_sstables=cfg["min_sst"])
    if c == "leveled":
        return LeveledCompaction(level_0_max=cfg["l0_max"], size_ratio=cfg["ratio"], base_size_keys=cfg["base_keys"])
    return FIFOCompaction(max_total_sstables=cfg["fifo_max"])


def build(cfg, seed):
    from happysimulator.components.storage import (
        BTree,
        IsolationLevel,
        LSMTree,
        Memtable,
        TransactionManager,
        WriteAheadLog,
    )
    from happysimulator.core.entity import Entity
    from happysimulator.core.event import Event
    from happysimulator.core.simulation import Simulation
    from happysimulator.core.temporal import Instant
    from happysimulator.load.source import Source

    seed_all(seed)
    end = cfg["end"]
    stop = end - 0.5
    nk = cfg["n_keys"]

    def key(i):
        return f"user-{i % nk}"

    wal = None
    if cfg["lsm_wal"]:
        wal = WriteAheadLog("wal", sync_policy=_sync_policy(cfg["sync"], cfg),
                            write_latency=cfg["wal_write_ms"] / 1000.0, sync_latency=cfg["wal_sync_ms"] / 1000.0)
    lsm = LSMTree("db", memtable_size=cfg["memtable"], compaction_strategy=_compaction(cfg), wal=wal,
                  sstable_read_latency=cfg["sst_read_ms"] / 1000.0, sstable_write_latency=cfg["sst_write_ms"] / 1000.0,
                  max_levels=cfg["max_levels"])
    btree = BTree("idx", order=cfg["order"], page_read_latency=cfg["page_read_ms"] / 1000.0,
                  page_write_latency=cfg["page_write_ms"] / 1000.0)
    mem = Memtable("mem", size_threshold=cfg["mem_size"], write_latency=cfg["mem_lat_ms"] / 1000.0,
                   read_latency=cfg["mem_lat_ms"] / 2000.0)
    wal2 = WriteAheadLog("wal2", sync_policy=_sync_policy(cfg["sync2"], cfg),
                         write_latency=cfg["wal_write_ms"] / 1000.0, sync_latency=cfg["wal_sync_ms"] / 1000.0)
    txm = TransactionManager("txm", store=lsm if cfg["tx_store"] == "lsm" else btree,
                             isolation=IsolationLevel[cfg["isolation"]])
    sstables = []        # SSTables produced by flushing the stand-alone memtable (newest last)
    shared = {"mem_flushes": 0, "wal2_truncs": 0, "sst_hits": 0, "sst_bloom_skips": 0}

    class Client(Entity):
        def __init__(self, i):
            super().__init__(f"client-{i}")
            self.i = i
            self.rng = random.Random(sub_seed(seed, "client", i))
            self.n = 0
            self.done = 0
            self.ops = {op: 0 for op in OPS}
            self.log = []
            self.commits = self.aborts = self.conflicts = 0

        def note(self, op, k, res):
            self.done += 1
            if len(self.log) < 400:
                self.log.append([op, k, res])

        def handle_event(self, event):
            self.n += 1
            rng = self.rng
            op = rng.choices(OPS, weights=cfg["w"])[0]
            self.ops[op] += 1
            k = key(rng.randrange(nk))
            val = f"v{self.i}.{self.n}"
            if op == "l_put":
                yield from lsm.put(k, val)
                self.note(op, k, val)
            elif op == "l_get":
                r = yield from lsm.get(k)
                self.note(op, k, r)
            elif op == "l_del":
                yield from lsm.delete(k)
                self.note(op, k, None)
            elif op == "l_scan":
                lo = rng.randrange(nk)
                a, b = sorted([key(lo), key(lo + rng.randint(1, 9))])
                r = yield from lsm.scan(a, b)
                self.note(op, a, [[x, y] for x, y in r])
            elif op == "b_put":
                yield from btree.put(k, val)
                self.note(op, k, val)
            elif op == "b_get":
                r = yield from btree.get(k)
                self.note(op, k, r)
            elif op == "b_del":
                r = yield from btree.delete(k)
                self.note(op, k, r)
            elif op == "b_scan":
                lo = rng.randrange(nk)
                a, b = sorted([key(lo), key(lo + rng.randint(1, 9))])
                r = yield from btree.scan(a, b)
                self.note(op, a, [[x, y] for x, y in r])
            elif op == "m_put":
                full = yield from mem.put(k, val)
                if full and mem.is_full:
                    sstables.append(mem.flush())
                    shared["mem_flushes"] += 1
                self.note(op, k, full)
            elif op == "m_get":
                r = yield from mem.get(k)
                if r is None:
                    for sst in reversed(sstables):
                        if not sst.contains(k):
                            shared["sst_bloom_skips"] += 1
                            continue
                        pages = sst.page_reads_for_get(k)
                        yield pages * cfg["sst_read_ms"] / 1000.0
                        r = sst.get(k)
                        if r is not None:
                            shared["sst_hits"] += 1
                            break
                self.note(op, k, r)
            elif op == "w_app":
                seq = yield from wal2.append(k, val)
                te = cfg["wal2_truncate_every"]
                if te and seq % te == 0:
                    wal2.truncate(min(seq - 2, wal2.synced_up_to))
                    shared["wal2_truncs"] += 1
                self.note(op, k, seq)
            else:
                yield from self.txn(rng)

        def txn(self, rng):
            iso = None
            if cfg["tx_override"] and rng.random() < 0.5:
                iso = IsolationLevel[rng.choice(ISOLATIONS)]
            tx = yield from txm.begin(iso)
            hot = cfg["tx_hot"]
            reads = []
            for j in range(cfg["tx_keys"]):
                kk = f"user-{rng.randrange(hot) % nk}"
                r = yield from tx.read(kk)
                reads.append([kk, r])
            if cfg["tx_think_ms"]:
                yield cfg["tx_think_ms"] / 1000.0
            for j in range(rng.randint(1, cfg["tx_keys"])):
                kk = f"user-{rng.randrange(hot) % nk}"
                yield from tx.write(kk, f"t{tx.tx_id}.{j}")
            if rng.randrange(100) < cfg["tx_abort_pct"]:
                tx.abort()
                self.aborts += 1
                self.note("txn", "abort", reads)
                return
            ok = yield from tx.commit()
            if ok:
                self.commits += 1
            else:
                self.conflicts += 1
            self.note("txn", "commit" if ok else "conflict", reads)

    class Admin(Entity):
        def __init__(self):
            super().__init__("admin")
            self.reports = []

        def handle_event(self, event):
            op = event.event_type
            if op == "crash":
                self.reports.append(["crash", lsm.crash()])
            elif op == "recover":
                self.reports.append(["recover", lsm.recover_from_crash()])
            elif op == "wal2_crash":
                lost = wal2.crash()
                rec = wal2.recover()
                self.reports.append(["wal2", {"lost": lost, "recovered": len(rec),
                                              "last": [rec[-1].sequence_number, rec[-1].key, rec[-1].timestamp_s]
                                              if rec else None}])
            return []

    clients = [Client(i) for i in range(cfg["n_clients"])]
    admin = Admin()
    sources = []
    for i, c in enumerate(cfg["clients"]):
        mk = Source.poisson if c["poisson"] else Source.constant
        sources.append(mk(rate=c["rate"], target=clients[i], event_type="Tick", name=f"src-{i}", stop_after=stop))
    if cfg["trigger_rate"]:
        sources.append(Source.constant(rate=cfg["trigger_rate"], target=lsm, event_type="CompactionTrigger",
                                       name="src-compact", stop_after=end - 0.1))
    entities = [lsm, btree, mem, wal2, txm, admin, *clients]
    if wal is not None:
        entities.insert(0, wal)
    sim = Simulation(end_time=T(end), sources=sources, entities=entities)

    def at(ms, typ):
        sim.schedule(Event(time=Instant.from_seconds(ms / 1000.0), event_type=typ, target=admin))

    if cfg["crash"]:
        at(cfg["crash"][0], "crash")
        at(cfg["crash"][0] + cfg["crash"][1], "recover")
    if cfg["wal2_crash_ms"] is not None:
        at(cfg["wal2_crash_ms"], "wal2_crash")

    def wal_obs(w):
        def read():
            return {"size": w.size, "synced_up_to": w.synced_up_to,
                    "entries": [[e.sequence_number, e.key, e.timestamp_s] for e in w.recover()][-20:]}
        return read

    def lsm_contents():
        out = []
        for i in range(nk):
            v = lsm.get_sync(key(i))
            out.append([key(i), v if (v is None or isinstance(v, (str, int, float))) else type(v).__name__])
        return out

    obs = {
        "a.lsm": stats_of(lsm),
        "a.lsm.levels": lambda: lsm.level_summary,
        "a.btree": stats_of(btree),
        "a.btree.x": lambda: {"depth": btree.depth, "size": btree.size},
        "a.mem": stats_of(mem),
        "a.mem.x": lambda: {"size": mem.size, "full": mem.is_full, "contains": [mem.contains(key(i)) for i in range(nk)]},
        "a.wal2": stats_of(wal2),
        "a.txm": stats_of(txm),
        "a.txm.active": lambda: txm.active_transactions,
        "b.wal2.x": wal_obs(wal2),
        "b.sstables": lambda: [[s.key_count, s.size_bytes, s.min_key, s.max_key, s.sequence, s.level,
                                s.stats.index_entries, s.stats.bloom_filter_size_bits,
                                s.stats.bloom_filter_fp_rate, [[a, b] for a, b in s.scan()]] for s in sstables],
        "b.shared": lambda: dict(shared),
        "b.admin": lambda: admin.reports,
        # final contents are read last (get_sync bumps the read counters)
        "z.lsm.contents": lsm_contents,
        "z.btree.contents": lambda: [[key(i), btree.get_sync(key(i))] for i in range(nk)],
    }
    if wal is not None:
        obs["a.wal"] = stats_of(wal)
        obs["b.wal.x"] = wal_obs(wal)
    for c in clients:
        obs["c." + c.name] = (lambda c=c: {"n": c.n, "done": c.done, "ops": c.ops, "commits": c.commits,
                                           "aborts": c.aborts, "conflicts": c.conflicts, "log": c.log})
    return sim, obs
