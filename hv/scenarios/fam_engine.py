"""Engine core: creation order, same-instant ties, held / pre-created events, futures, cancellation.

The delivery order of events stamped with the same instant is their creation order.  Events can be created in four
phases, and a scenario mixes all of them on a few shared instants:

  P0  before `Simulation(...)` is constructed (events built by component helpers, as tests/test_event_cancellation.py does);
  P1  after the constructor, before `run()`, scheduled with `sim.schedule(...)`;
  P2  after the constructor, before `run()`, NOT scheduled: handed to a Planner entity as its plan ("pre-planned
      maintenance") — created between the scheduled ones (p2) or after the last scheduled one (late: nothing that
      is pushed before the run is younger than they are) — and released by the planner during the run together with
  P3  events the planner (and the sources / processes) create during the run for the same instants.

Also: SimFutures created before the run and resolved in the run, `any_of` / `all_of` racing same-instant resolutions,
generator processes whose `yield` delays land on the shared instants, cancelled held events, daemon events, `forward`
copies, and stock constant-rate Sources aligned with the shared instants.  Everything is recorded by name (time ns,
event type, target) in the canonical digest; nothing here is random except the harness' own seeded choices.
"""
from __future__ import annotations

import random

from hv.scenarios.base import T, dur_ms, seed_all, sub_seed

NAME = "engine"
MODEL = "C01"
COMPONENTS = ["Simulation", "Event", "Entity", "SimFuture", "any_of", "all_of", "Source", "Sink"]

ORDERS = ["fresh-first", "plan-first", "interleaved", "reversed-plan"]


def gen_cfg(rng):
    n_inst = rng.randint(1, 4)
    instants = sorted({dur_ms(rng, 100, 1800) for _ in range(n_inst)})
    return {
        "end": rng.choice([2.0, 3.0]),
        "instants_ms": instants,
        "planners": [{
            "kick_ms": rng.choice([0, 0, 10, 50]),
            "p0": rng.randint(0, 4), "p1": rng.randint(0, 4), "p2": rng.randint(1, 5), "p3": rng.randint(1, 5),
            "late": rng.choice([0, 0, 2, 4]),        # held events created after everything else has been scheduled
            "order": rng.choice(ORDERS),
            "cancel": rng.randint(0, 2),             # how many held events are cancelled before they are released
            "daemon": rng.random() < 0.3,
            "second_release_ms": rng.choice([None, 20, 45]),    # the plan is released in two parts (before the first instant)
        } for _ in range(rng.randint(1, 3))],
        "src_rate": rng.choice([10, 20, 100]),                  # arrivals on the 100 / 50 / 10 ms grid
        "futures": rng.randint(0, 4),
        "fut_kind": rng.choice(["plain", "any", "all", "mixed"]),
        "procs": rng.randint(0, 3),
        "spare_events": rng.choice([0, 3, 40]),                  # events created and never scheduled (they burn indices)
    }


def gen_cfg_wide(rng):
    cfg = gen_cfg(rng)
    while len(cfg["planners"]) < 3:
        cfg["planners"].append(dict(cfg["planners"][0]))
    for i, p in enumerate(cfg["planners"]):
        p.update({"p0": 2 + i, "p1": 2, "p2": 3 + i, "p3": 3, "late": 3, "order": ORDERS[i % len(ORDERS)]})
    cfg.update({"futures": 3, "fut_kind": "mixed", "procs": 2, "src_rate": 20})
    return cfg


def build(cfg, seed):
    from happysimulator.components.common import Sink
    from happysimulator.core.entity import Entity
    from happysimulator.core.event import Event
    from happysimulator.core.sim_future import SimFuture, all_of, any_of
    from happysimulator.core.simulation import Simulation
    from happysimulator.core.temporal import Instant
    from happysimulator.load.source import Source

    seed_all(seed)
    rng = random.Random(sub_seed(seed, "engine"))
    end = cfg["end"]
    inst = [Instant.from_seconds(ms / 1000.0) for ms in cfg["instants_ms"]]

    class Recorder(Entity):
        def __init__(self, name):
            super().__init__(name)
            self.seen = []

        def handle_event(self, event):
            self.seen.append([self.now.nanoseconds, event.event_type, event.context.get("tag")])
            return None

    class Planner(Entity):
        """releases its pre-planned events together with freshly created ones for the same instants"""

        def __init__(self, name, pc, sink):
            super().__init__(name)
            self.pc, self.sink = pc, sink
            self.plan = []
            self.released = 0

        def handle_event(self, event):
            pc = self.pc
            if event.event_type == "kick2":
                out, self.plan = self.plan, []
                self.released += len(out)
                return out
            fresh = [Event(time=inst[k % len(inst)], event_type=f"{self.name}.job{k}", target=self.sink,
                           context={"tag": "p3"}) for k in range(pc["p3"])]
            plan = self.plan
            if pc["second_release_ms"] is not None:
                plan, self.plan = self.plan[: len(self.plan) // 2], self.plan[len(self.plan) // 2:]
            else:
                self.plan = []
            self.released += len(plan)
            order = pc["order"]
            if order == "fresh-first":
                out = fresh + plan
            elif order == "plan-first":
                out = plan + fresh
            elif order == "reversed-plan":
                out = fresh + plan[::-1]
            else:
                out = [e for pair in zip(fresh, plan) for e in pair] + fresh[len(plan):] + plan[len(fresh):]
            # a copy made with forward() at the current instant
            out.append(self.forward(event, self.sink, event_type=f"{self.name}.fwd"))
            return out

    class Waiter(Entity):
        """parks on futures that were created before the run and are resolved during it"""

        def __init__(self, name, sink):
            super().__init__(name)
            self.sink = sink
            self.got = []

        def handle_event(self, event):
            fut = event.context["fut"]
            v = yield fut
            self.got.append([self.now.nanoseconds, repr(v)])
            return [Event(time=self.now, event_type=f"{self.name}.woke", target=self.sink, context={"tag": "fut"})]

    class Resolver(Entity):
        def handle_event(self, event):
            for f, v in event.context["futs"]:
                f.resolve(v)
            return None

    class Proc(Entity):
        """a generator whose delays land exactly on the shared instants and which emits side-effect events there"""

        def __init__(self, name, sink):
            super().__init__(name)
            self.sink = sink
            self.steps = 0

        def handle_event(self, event):
            for k, t in enumerate(inst):
                d = (t - self.now).to_seconds()
                if d < 0:
                    continue
                yield d, [Event(time=t, event_type=f"{self.name}.side{k}", target=self.sink, context={"tag": "proc"})]
                self.steps += 1
                yield 0.0
            return [Event(time=self.now, event_type=f"{self.name}.done", target=self.sink, context={"tag": "proc"})]

    sink = Recorder("sink")
    planners = [Planner(f"planner{i}", pc, sink) for i, pc in enumerate(cfg["planners"])]
    waiters = [Waiter(f"waiter{i}", sink) for i in range(cfg["futures"])]
    resolver = Resolver("resolver")
    procs = [Proc(f"proc{i}", sink) for i in range(cfg["procs"])]
    stock = Sink("stock-sink")
    entities = [sink, stock, resolver, *planners, *waiters, *procs]

    def mk(planner, phase, k, daemon=False):
        return Event(time=inst[(k + len(phase)) % len(inst)], event_type=f"{planner.name}.{phase}{k}", target=sink,
                     context={"tag": phase}, daemon=daemon)

    # ---- P0: before the Simulation exists
    p0 = {p.name: [mk(p, "p0", k) for k in range(p.pc["p0"])] for p in planners}
    spare = [Event(time=inst[0], event_type="spare", target=sink) for _ in range(cfg["spare_events"])]   # never scheduled
    futs = [SimFuture() for _ in range(cfg["futures"])]

    sources = []
    if cfg["src_rate"]:
        sources.append(Source.constant(rate=cfg["src_rate"], target=stock, event_type="tick", name="src",
                                       stop_after=end - 0.2))
        sources.append(Source.constant(rate=cfg["src_rate"], target=sink, event_type="tick2", name="src2",
                                       stop_after=end - 0.2))
    sim = Simulation(end_time=T(end), sources=sources, entities=entities)

    # ---- P1 (scheduled now) and P2 (held by the planner), created in an interleaved order
    for p in planners:
        pc = p.pc
        held = []
        for k in range(max(pc["p1"], pc["p2"])):
            if k < pc["p2"]:
                held.append(mk(p, "p2", k, daemon=pc["daemon"] and k == 0))
            if k < pc["p1"]:
                sim.schedule(mk(p, "p1", k))
        # half of the P0 events are scheduled now, the other half is held as well
        half = len(p0[p.name]) // 2
        for e in p0[p.name][:half]:
            sim.schedule(e)
        held = p0[p.name][half:] + held
        for e in rng.sample(held, min(pc["cancel"], len(held))):
            e.cancel()
        p.plan = held
        sim.schedule(Event(time=Instant.from_seconds(pc["kick_ms"] / 1000.0), event_type="kick", target=p))
        if pc["second_release_ms"] is not None:
            sim.schedule(Event(time=Instant.from_seconds((pc["kick_ms"] + pc["second_release_ms"]) / 1000.0),
                               event_type="kick2", target=p))

    # ---- futures: waiters park at t=0; the resolver resolves them (several at one instant, in a drawn order)
    kind = cfg["fut_kind"]
    for i, w in enumerate(waiters):
        f = futs[i]
        if kind in ("any", "mixed") and i % 2 == 0 and len(futs) > 1:
            f = any_of(futs[i], futs[(i + 1) % len(futs)])
        elif kind in ("all", "mixed") and i % 2 == 1:
            f = all_of(futs[i], futs[(i + 1) % len(futs)])
        sim.schedule(Event(time=Instant.Epoch, event_type="wait", target=w, context={"fut": f}))
    if futs:
        order = list(range(len(futs)))
        rng.shuffle(order)
        sim.schedule(Event(time=inst[0], event_type="resolve", target=resolver,
                           context={"futs": [(futs[j], f"v{j}") for j in order]}))
    for i, pr in enumerate(procs):
        sim.schedule(Event(time=Instant.from_seconds(0.001 * i), event_type="go", target=pr))

    # ---- late P2: created after the last scheduled event
    for p in planners:
        p.plan = p.plan + [mk(p, "late", k) for k in range(p.pc.get("late", 0))]

    obs = {
        "sink": lambda: {"n": len(sink.seen), "seen": sink.seen[:600]},
        "stock": lambda: stock.events_received,
        "planners": lambda: [[p.name, p.released, len(p.plan)] for p in planners],
        "waiters": lambda: [[w.name, w.got] for w in waiters],
        "procs": lambda: [[p.name, p.steps] for p in procs],
        "spare": lambda: len(spare),
    }
    return sim, obs
