"""Resilience wrappers: chains of Bulkhead / CircuitBreaker / Fallback / Hedge / TimeoutWrapper around a slow,
intermittently failing backend, tuned so that timeouts fire, hedges are sent, circuits open and half-open,
bulkheads queue, time out and reject, and fallbacks (entity or callable) are used."""
from __future__ import annotations

import random

from hv.scenarios.base import T, seed_all, stats_of, sub_seed

NAME = "resilience"
MODEL = None
COMPONENTS = ["Bulkhead", "CircuitBreaker", "Fallback", "Hedge", "TimeoutWrapper", "Sink", "Counter", "Source"]

KINDS = ["timeout", "hedge", "bulkhead", "breaker", "fallback"]


def _wrapper_cfg(rng, kind):
    if kind == "timeout":
        return {"kind": kind, "timeout_ms": rng.choice([8, 15, 30, 60]), "cb": rng.choice(["none", "event", "breaker"])}
    if kind == "hedge":
        return {"kind": kind, "delay_ms": rng.choice([3, 10, 25, 50]), "max_hedges": rng.randint(1, 2)}
    if kind == "bulkhead":
        return {"kind": kind, "max_conc": rng.randint(1, 2), "queue": rng.randint(0, 3),
                "wait_ms": rng.choice([0, 10, 30, 60])}
    if kind == "breaker":
        return {"kind": kind, "fail_thr": rng.randint(1, 3), "succ_thr": rng.randint(1, 2),
                "open_ms": rng.choice([50, 120, 400]), "half_open": rng.randint(1, 2),
                "predicate": rng.random() < 0.8, "force_at_ms": rng.choice([0, 0, 900])}
    return {"kind": kind, "timeout_ms": rng.choice([0, 10, 30, 60]), "predicate": rng.random() < 0.7,
            "fb": rng.choice(["entity", "callable", "callable-none"])}


def gen_cfg(rng):
    chains = []
    for _ in range(rng.randint(3, 5)):
        depth = rng.choice([1, 1, 2, 3])   # only the innermost wrapper sees the backend's real latency
        kinds = [rng.choice(KINDS) for _ in range(depth)]
        chains.append({
            "wrappers": [_wrapper_cfg(rng, k) for k in kinds],   # outermost first
            "rate": rng.choice([20, 40, 60, 100]),
            "poisson": rng.random() < 0.5,
            "shared_backend": rng.random() < 0.3,
        })
    # make sure every kind occurs somewhere in most configurations
    present = [w["kind"] for c in chains for w in c["wrappers"]]
    for k in KINDS:
        if k not in present and rng.random() < 0.7:
            rng.choice(chains)["wrappers"].insert(0, _wrapper_cfg(rng, k))
    return {
        "chains": chains,
        "backend": {"fast_ms": [rng.randint(1, 5), rng.randint(5, 20)], "slow_ms": rng.choice([40, 90, 200]),
                    "p_slow_pct": rng.choice([10, 30, 50]), "fail_every": rng.choice([0, 2, 3, 5]),
                    "fault": [rng.choice([300, 600, 1000]), rng.choice([200, 500, 900])]},   # start ms, length ms
        "cache_ms": rng.randint(1, 8),
        "end": rng.choice([2.0, 3.0, 4.0]),
    }


def build(cfg, seed):
    from happysimulator.components.common import Counter, Sink
    from happysimulator.components.resilience import Bulkhead, CircuitBreaker, Fallback, Hedge, TimeoutWrapper
    from happysimulator.core.entity import Entity
    from happysimulator.core.event import Event
    from happysimulator.core.simulation import Simulation
    from happysimulator.load.source import SimpleEventProvider, Source

    seed_all(seed)
    end = cfg["end"]
    bc = cfg["backend"]

    class Backend(Entity):
        """slow (bimodal latency) and failing (every n-th request, and everything inside a fault window)"""

        def __init__(self, name, rng):
            super().__init__(name)
            self.rng = rng
            self.received = 0
            self.completed = 0
            self.failed = 0
            self.hedged = 0
            self.keys = {}

        def handle_event(self, event):
            self.received += 1
            n = self.received
            key = event.context.get("key", "?")
            self.keys[key] = self.keys.get(key, 0) + 1
            if event.context.get("metadata", {}).get("_hg_is_hedge"):
                self.hedged += 1
            if self.rng.randint(1, 100) <= bc["p_slow_pct"]:
                yield bc["slow_ms"] / 1000.0
            else:
                yield self.rng.randint(bc["fast_ms"][0], bc["fast_ms"][1]) / 1000.0
            t_ms = self.now.nanoseconds // 1_000_000
            in_fault = bc["fault"][0] <= t_ms < bc["fault"][0] + bc["fault"][1]
            if in_fault or (bc["fail_every"] and n % bc["fail_every"] == 0):
                self.failed += 1
                res = event.context.get("res")
                if res is not None:
                    res["failed"] = True
            self.completed += 1

        def stats(self):
            return {"received": self.received, "completed": self.completed, "failed": self.failed,
                    "hedged": self.hedged, "keys": dict(self.keys)}

    class Cache(Entity):
        def __init__(self, name, lat):
            super().__init__(name)
            self.lat = lat
            self.served = 0

        def handle_event(self, event):
            yield self.lat
            self.served += 1

    def failed_pred(ev):
        return bool(ev.context.get("res", {}).get("failed"))

    sink = Sink("fallback-sink")
    counter = Counter("timeout-counter")
    cache = Cache("cache", cfg["cache_ms"] / 1000.0)
    shared_backend = Backend("backend", random.Random(sub_seed(seed, "backend")))
    entities = [sink, counter, cache, shared_backend]
    obs = {"backend": shared_backend.stats, "cache": lambda: cache.served,
           "sink": lambda: {"n": sink.events_received, "lat": sink.latency_stats()},
           "counter": lambda: {"total": counter.total, "by_type": dict(counter.by_type)}}
    sources, pre = [], []

    for ci, ch in enumerate(cfg["chains"]):
        if ch["shared_backend"]:
            target = shared_backend
        else:
            target = Backend(f"c{ci}.backend", random.Random(sub_seed(seed, "backend", ci)))
            entities.append(target)
            obs[target.name] = target.stats
        breakers = []          # breakers of this chain, filled while building (inner first)
        chain_entities = []
        ws = ch["wrappers"]
        for depth in reversed(range(len(ws))):
            w = ws[depth]
            kind = w["kind"]
            nm = f"c{ci}.{kind}{depth}"
            if kind == "timeout":
                def on_timeout(orig, _w=w, _brs=breakers, _nm=nm):
                    if _w["cb"] == "breaker":
                        for b in _brs:           # external failure detection feeding the breaker(s)
                            b.record_failure()
                        return None
                    if _w["cb"] == "event":
                        return Event(time=counter.now, event_type=f"TimedOut.{_nm}", target=counter,
                                     context={"created_at": orig.context.get("created_at")})
                    return None

                ent = TimeoutWrapper(nm, target=target, timeout=w["timeout_ms"] / 1000.0,
                                     on_timeout=None if w["cb"] == "none" else on_timeout)
                obs[nm + ".more"] = (lambda e=ent: {"in_flight": e.in_flight_count})
            elif kind == "hedge":
                ent = Hedge(nm, target=target, hedge_delay=w["delay_ms"] / 1000.0, max_hedges=w["max_hedges"])
                obs[nm + ".more"] = (lambda e=ent: {"in_flight": e.in_flight_count})
            elif kind == "bulkhead":
                ent = Bulkhead(nm, target=target, max_concurrent=w["max_conc"], max_wait_queue=w["queue"],
                               max_wait_time=(w["wait_ms"] / 1000.0) if w["wait_ms"] else None)
                obs[nm + ".more"] = (lambda e=ent: {"active": e.active_count, "queue": e.queue_depth,
                                                    "permits": e.available_permits})
            elif kind == "breaker":
                log = []

                def on_change(old, new, _log=log):
                    if len(_log) < 60:
                        _log.append([counter.now.nanoseconds, old.name, new.name])

                ent = CircuitBreaker(nm, target=target, failure_threshold=w["fail_thr"],
                                     success_threshold=w["succ_thr"], timeout=w["open_ms"] / 1000.0,
                                     half_open_max_requests=w["half_open"],
                                     failure_predicate=failed_pred if w["predicate"] else None,
                                     on_state_change=on_change)
                breakers.append(ent)
                obs[nm + ".more"] = (lambda e=ent, _log=log: {"state": e.state.name, "failures": e.failure_count,
                                                             "successes": e.success_count, "log": list(_log)})
                if w["force_at_ms"]:
                    pre.append(Event.once(time=T(w["force_at_ms"] / 1000.0), event_type=f"{nm}.force_open",
                                          fn=lambda e, b=ent: b.force_open()))
                    pre.append(Event.once(time=T(w["force_at_ms"] / 1000.0 + 0.3), event_type=f"{nm}.force_close",
                                          fn=lambda e, b=ent: b.force_close()))
            else:
                if w["fb"] == "entity":
                    fb = cache
                elif w["fb"] == "callable":
                    def fb(orig, _nm=nm):
                        return Event(time=sink.now, event_type=f"Fallback.{_nm}", target=sink,
                                     context={"created_at": orig.context.get("created_at")})
                else:
                    def fb(orig):
                        return None
                ent = Fallback(nm, primary=target, fallback=fb,
                               failure_predicate=failed_pred if w["predicate"] else None,
                               timeout=(w["timeout_ms"] / 1000.0) if w["timeout_ms"] else None)
            obs[nm] = stats_of(ent)
            chain_entities.append(ent)
            target = ent
        entities.extend(chain_entities)
        head = target

        def ctx(time, count, _ci=ci):
            return {"created_at": time, "request_id": count, "res": {}, "key": f"user-{(count * 7 + _ci) % 11}"}

        provider = SimpleEventProvider(head, f"Req{ci}", T(end - 0.6), context_fn=ctx)
        mk = Source.poisson if ch["poisson"] else Source.constant
        src = mk(rate=ch["rate"], name=f"src{ci}", event_provider=provider)
        sources.append(src)
        obs[src.name] = (lambda s=src: s.generated_count)

    sim = Simulation(end_time=T(end), sources=sources, entities=entities)
    for e in pre:
        sim.schedule(e)
    return sim, obs
