"""Resilience wrappers: chains of Bulkhead / CircuitBreaker / Fallback / Hedge / TimeoutWrapper around a slow,
intermittently failing backend, tuned so that timeouts fire, hedges are sent, circuits open and half-open,
bulkheads queue, time out and reject, and fallbacks (entity or callable) are used.

Coverage notes (widened):
  * every constructor parameter of the five wrappers is drawn; every duration (timeout, hedge delay, bulkhead
    max wait, breaker open time, fallback timeout, backend latencies, fault window, forced open/close/reset
    instants) comes from `dur_ms` (lossy values, sub-ms decimals, values above 1 s), in every order relative to
    the backend's latency (timeout shorter / longer than service, hedge delay longer than the request, breaker
    open time longer than the rest of the run, bulkhead wait shorter than one service time ...);
  * a "bank" option puts one wrapper of EVERY kind directly in front of a backend of its own (the innermost
    wrapper is the only one that sees real latency) in one scenario, fed in parallel;
  * sustained overload (hundreds of requests per second on concurrency-1 bulkheads / half-open breakers),
    same-instant bursts, zero backend / cache latency, failure probability 0 / every request / in between;
  * CircuitBreaker.record_success / record_failure / force_open / force_close / reset are all driven.
No hard-coded size constants in resilience/*.py (no history caps, no sample sizes).
"""
from __future__ import annotations

import random

from hv.scenarios.base import T, dur_ms, seed_all, stats_of, sub_seed

NAME = "resilience"
MODEL = None
COMPONENTS = ["Bulkhead", "CircuitBreaker", "Fallback", "Hedge", "TimeoutWrapper", "Sink", "Counter", "Source"]

KINDS = ["timeout", "hedge", "bulkhead", "breaker", "fallback"]


def _wrapper_cfg(rng, kind):
    if kind == "timeout":
        return {"kind": kind, "timeout_ms": dur_ms(rng, 1, rng.choice([30, 100, 1500])),
                "cb": rng.choice(["none", "event", "breaker", "breaker-mixed"])}
    if kind == "hedge":
        return {"kind": kind, "delay_ms": dur_ms(rng, 0.5, rng.choice([30, 200, 1200])),
                "max_hedges": rng.choice([1, 1, 2, 2, 3, 4])}
    if kind == "bulkhead":
        return {"kind": kind, "max_conc": rng.choice([1, 1, 2, 2, 3, 50]), "queue": rng.choice([0, 0, 1, 2, 3, 100]),
                "wait_ms": 0 if rng.random() < 0.3 else dur_ms(rng, 0.5, rng.choice([30, 300, 1500]))}   # 0 = None
    if kind == "breaker":
        return {"kind": kind, "fail_thr": rng.randint(1, 5), "succ_thr": rng.randint(1, 3),
                "open_ms": dur_ms(rng, 5, rng.choice([120, 600, 2500])), "half_open": rng.randint(1, 3),
                "predicate": rng.random() < 0.8,
                "force_at_ms": 0 if rng.random() < 0.6 else dur_ms(rng, 100, 2500),
                "force_len_ms": dur_ms(rng, 1, 1200),
                "reset_at_ms": 0 if rng.random() < 0.8 else dur_ms(rng, 100, 2500)}
    return {"kind": kind, "timeout_ms": 0 if rng.random() < 0.25 else dur_ms(rng, 1, rng.choice([30, 100, 1500])),
            "predicate": rng.random() < 0.7, "fb": rng.choice(["entity", "callable", "callable-none"])}


def _chain_cfg(rng, kinds, overload):
    return {
        "wrappers": [_wrapper_cfg(rng, k) for k in kinds],   # outermost first
        "rate": rng.choice([300, 600] if overload else [20, 40, 60, 100]),
        "poisson": rng.random() < 0.5,
        "shared_backend": rng.random() < 0.3,
        "bursts": [[dur_ms(rng, 50, 2500), rng.choice([3, 10, 40])] for _ in range(rng.choice([0, 0, 1, 2]))],
    }


def gen_cfg(rng):
    long_run = rng.random() < 0.12
    overload = (not long_run) and rng.random() < 0.25
    chains = []
    if rng.random() < 0.5:
        # bank: every wrapper kind once as the innermost wrapper (the only position that sees real latency)
        for k in KINDS:
            outer = [rng.choice(KINDS)] if rng.random() < 0.25 else []
            chains.append(_chain_cfg(rng, outer + [k], overload and rng.random() < 0.3))
    else:
        for _ in range(rng.randint(3, 5)):
            depth = rng.choice([1, 1, 2, 3])   # only the innermost wrapper sees the backend's real latency
            chains.append(_chain_cfg(rng, [rng.choice(KINDS) for _ in range(depth)], overload and rng.random() < 0.5))
        # make sure every kind occurs somewhere in most configurations
        present = [w["kind"] for c in chains for w in c["wrappers"]]
        for k in KINDS:
            if k not in present and rng.random() < 0.7:
                rng.choice(chains)["wrappers"].insert(0, _wrapper_cfg(rng, k))
    lat_set = []
    if rng.random() < 0.5:
        lat_set = [dur_ms(rng, 0.5, rng.choice([20, 150]), zero=True) for _ in range(rng.randint(1, 4))]
    return {
        "chains": chains,
        "backend": {"fast_ms": [rng.randint(1, 5), rng.randint(5, 20)],
                    "lat_set_ms": lat_set,                                # non-empty: fast latencies from this list
                    "slow_ms": dur_ms(rng, 20, rng.choice([200, 900, 2500])),
                    "p_slow_pct": rng.choice([0, 10, 30, 50, 100]), "fail_every": rng.choice([0, 1, 2, 3, 5]),
                    "fault": [dur_ms(rng, 100, 2500), dur_ms(rng, 50, 1500)]},   # start ms, length ms
        "cache_ms": dur_ms(rng, 0.5, rng.choice([8, 80]), zero=True),
        "end": rng.choice([8.0, 10.0]) if long_run else rng.choice([2.0, 3.0, 4.0, 2.05, 3.003]),
    }


def build(cfg, seed):
    from happysimulator.components.common import Counter, Sink
    from happysimulator.components.resilience import (Bulkhead, CircuitBreaker, CircuitState, Fallback, Hedge,
                                                     TimeoutWrapper)
    from happysimulator.core.entity import Entity
    from happysimulator.core.event import Event
    from happysimulator.core.simulation import Simulation
    from happysimulator.load.source import SimpleEventProvider, Source

    seed_all(seed)
    end = cfg["end"]
    bc = cfg["backend"]
    lat_set = bc.get("lat_set_ms") or []

    class Backend(Entity):
        """slow (bimodal latency) and failing (every n-th request, and everything inside a fault window)"""

        def __init__(self, name, rng):
            super().__init__(name)
            self.rng = rng
            self.received = 0
            self.completed = 0
            self.failed = 0
            self.hedged = 0
            self.keys = {}

        def handle_event(self, event):
            self.received += 1
            n = self.received
            key = event.context.get("key", "?")
            self.keys[key] = self.keys.get(key, 0) + 1
            if event.context.get("metadata", {}).get("_hg_is_hedge"):
                self.hedged += 1
            if self.rng.randint(1, 100) <= bc["p_slow_pct"]:
                yield bc["slow_ms"] / 1000.0
            elif lat_set:
                yield self.rng.choice(lat_set) / 1000.0
            else:
                yield self.rng.randint(bc["fast_ms"][0], bc["fast_ms"][1]) / 1000.0
            t_ms = self.now.nanoseconds // 1_000_000
            in_fault = bc["fault"][0] <= t_ms < bc["fault"][0] + bc["fault"][1]
            if in_fault or (bc["fail_every"] and n % bc["fail_every"] == 0):
                self.failed += 1
                res = event.context.get("res")
                if res is not None:
                    res["failed"] = True
            self.completed += 1

        def stats(self):
            return {"received": self.received, "completed": self.completed, "failed": self.failed,
                    "hedged": self.hedged, "keys": dict(self.keys)}

    class Cache(Entity):
        def __init__(self, name, lat):
            super().__init__(name)
            self.lat = lat
            self.served = 0

        def handle_event(self, event):
            yield self.lat
            self.served += 1

    def failed_pred(ev):
        return bool(ev.context.get("res", {}).get("failed"))

    sink = Sink("fallback-sink")
    counter = Counter("timeout-counter")
    cache = Cache("cache", cfg["cache_ms"] / 1000.0)
    shared_backend = Backend("backend", random.Random(sub_seed(seed, "backend")))
    entities = [sink, counter, cache, shared_backend]
    obs = {"backend": shared_backend.stats, "cache": lambda: cache.served,
           "sink": lambda: {"n": sink.events_received, "lat": sink.latency_stats()},
           "counter": lambda: {"total": counter.total, "by_type": dict(counter.by_type)}}
    sources, pre = [], []

    for ci, ch in enumerate(cfg["chains"]):
        if ch["shared_backend"]:
            target = shared_backend
        else:
            target = Backend(f"c{ci}.backend", random.Random(sub_seed(seed, "backend", ci)))
            entities.append(target)
            obs[target.name] = target.stats
        breakers = []          # breakers of this chain, filled while building (inner first)
        chain_entities = []
        ws = ch["wrappers"]
        for depth in reversed(range(len(ws))):
            w = ws[depth]
            kind = w["kind"]
            nm = f"c{ci}.{kind}{depth}"
            if kind == "timeout":
                def on_timeout(orig, _w=w, _brs=breakers, _nm=nm, _n=[0]):
                    if _w["cb"] in ("breaker", "breaker-mixed"):
                        _n[0] += 1
                        for b in _brs:           # external failure detection feeding the breaker(s)
                            if _w["cb"] == "breaker-mixed" and _n[0] % 3 == 0:
                                b.record_success()
                            else:
                                b.record_failure()
                        return None
                    if _w["cb"] == "event":
                        return Event(time=counter.now, event_type=f"TimedOut.{_nm}", target=counter,
                                     context={"created_at": orig.context.get("created_at")})
                    return None

                ent = TimeoutWrapper(nm, target=target, timeout=w["timeout_ms"] / 1000.0,
                                     on_timeout=None if w["cb"] == "none" else on_timeout)
                obs[nm + ".more"] = (lambda e=ent: {"in_flight": e.in_flight_count})
            elif kind == "hedge":
                ent = Hedge(nm, target=target, hedge_delay=w["delay_ms"] / 1000.0, max_hedges=w["max_hedges"])
                obs[nm + ".more"] = (lambda e=ent: {"in_flight": e.in_flight_count})
            elif kind == "bulkhead":
                ent = Bulkhead(nm, target=target, max_concurrent=w["max_conc"], max_wait_queue=w["queue"],
                               max_wait_time=(w["wait_ms"] / 1000.0) if w["wait_ms"] else None)
                obs[nm + ".more"] = (lambda e=ent: {"active": e.active_count, "queue": e.queue_depth,
                                                    "permits": e.available_permits})
            elif kind == "breaker":
                log = []

                def on_change(old, new, _log=log):
                    if len(_log) < 60:
                        _log.append([counter.now.nanoseconds, old.name, new.name])

                ent = CircuitBreaker(nm, target=target, failure_threshold=w["fail_thr"],
                                     success_threshold=w["succ_thr"], timeout=w["open_ms"] / 1000.0,
                                     half_open_max_requests=w["half_open"],
                                     failure_predicate=failed_pred if w["predicate"] else None,
                                     on_state_change=on_change)
                breakers.append(ent)
                obs[nm + ".more"] = (lambda e=ent, _log=log: {"state": e.state.name, "failures": e.failure_count,
                                                             "is": [e.state == CircuitState.CLOSED,
                                                                    e.state == CircuitState.OPEN,
                                                                    e.state == CircuitState.HALF_OPEN],
                                                             "successes": e.success_count, "log": list(_log)})
                if w["force_at_ms"]:
                    pre.append(Event.once(time=T(w["force_at_ms"] / 1000.0), event_type=f"{nm}.force_open",
                                          fn=lambda e, b=ent: b.force_open()))
                    pre.append(Event.once(time=T((w["force_at_ms"] + w.get("force_len_ms", 300)) / 1000.0),
                                          event_type=f"{nm}.force_close", fn=lambda e, b=ent: b.force_close()))
                if w.get("reset_at_ms"):
                    pre.append(Event.once(time=T(w["reset_at_ms"] / 1000.0), event_type=f"{nm}.reset",
                                          fn=lambda e, b=ent: b.reset()))
            else:
                if w["fb"] == "entity":
                    fb = cache
                elif w["fb"] == "callable":
                    def fb(orig, _nm=nm):
                        return Event(time=sink.now, event_type=f"Fallback.{_nm}", target=sink,
                                     context={"created_at": orig.context.get("created_at")})
                else:
                    def fb(orig):
                        return None
                ent = Fallback(nm, primary=target, fallback=fb,
                               failure_predicate=failed_pred if w["predicate"] else None,
                               timeout=(w["timeout_ms"] / 1000.0) if w["timeout_ms"] else None)
            obs[nm] = stats_of(ent)
            chain_entities.append(ent)
            target = ent
        entities.extend(chain_entities)
        head = target

        def ctx(time, count, _ci=ci):
            return {"created_at": time, "request_id": count, "res": {}, "key": f"user-{(count * 7 + _ci) % 11}"}

        for bi, (t_ms, nb) in enumerate(ch.get("bursts", [])):
            if t_ms / 1000.0 >= end - 0.6:
                continue
            for j in range(nb):
                at = T(t_ms / 1000.0)
                pre.append(Event(time=at, event_type=f"Req{ci}", target=head,
                                 context=ctx(at, 100000 + bi * 1000 + j)))
        provider = SimpleEventProvider(head, f"Req{ci}", T(end - 0.6), context_fn=ctx)
        mk = Source.poisson if ch["poisson"] else Source.constant
        src = mk(rate=ch["rate"], name=f"src{ci}", event_provider=provider)
        sources.append(src)
        obs[src.name] = (lambda s=src: s.generated_count)

    sim = Simulation(end_time=T(end), sources=sources, entities=entities)
    for e in pre:
        sim.schedule(e)
    return sim, obs
