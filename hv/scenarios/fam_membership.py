"""Membership: 4–7 `MembershipProtocol` (SWIM-style) nodes over a `Network` with latency / jitter / loss, fast
probe rounds (indirect probes through delegates, piggy-backed updates, suspicion timeouts), one node that stops
responding (library `CrashNode` / `PauseNode` fault, or a partition from everybody that may heal), a second
partition splitting the cluster, a node that learns of a late joiner during the run; plus stand-alone
`PhiAccrualDetector`s fed with heartbeats that travel over lossy / jittery links from senders that go silent
for a window, sampled periodically by a monitor entity.

Widened configuration space: 2–8 nodes; probe interval / suspicion timeout / link latency from a boundary palette
whose ranges overlap (suspicion timeout shorter than half a probe interval or longer than the run, latency longer than
the ack timeout, probe intervals of 4–10 ms so that a member's detector sees more than its 200-sample window),
per-node probe intervals, `indirect_probe_count` from 0 to more than there are members, nodes started before the run
(`sim.schedule(node.start())`) or by a boot event, fault windows on instants that lose a nanosecond in
`Instant.from_seconds`, windows that outlive the run; detectors with every constructor parameter drawn (default and
tiny / huge window, min_std from 1 µs to 1 s, thresholds 0.1–16), heartbeat periods 2–600 ms, bursts of same-instant
heartbeats, sampling periods shorter and longer than the heartbeat period."""
from __future__ import annotations

import random

from hv.scenarios.base import T, dataclass_stats, dur_ms, seed_all, size_over, stats_of, sub_seed

NAME = "membership"
MODEL = "C13"
COMPONENTS = ["MembershipProtocol", "PhiAccrualDetector", "MemberInfo", "MemberState", "Network", "NetworkLink",
              "Partition", "FaultSchedule", "CrashNode", "PauseNode", "Source"]


def gen_cfg(rng):
    end = rng.choice([3.0, 4.0, 6.0]) if rng.random() > 0.1 else rng.choice([8.0, 10.0])
    end_ms = int(end * 1000)
    fast = rng.random() < 0.12 and end <= 6        # probe rounds every few ms: > 200 heartbeats per member detector
    n = rng.choice([2, 3, 4, 4, 5, 6, 7, 8]) if not fast else rng.choice([2, 3, 4])
    if fast:
        probe = dur_ms(rng, 4, 10)
    elif rng.random() < 0.75:
        probe = dur_ms(rng, 25, 300)
    else:
        probe = dur_ms(rng, 300, 1500)
    if end > 6:
        probe = max(probe, 60)
    a = dur_ms(rng, 200, end_ms - 800)
    det = []
    for _ in range(rng.randint(1, 3)):
        hb = dur_ms(rng, 2, 40) if rng.random() < 0.3 else dur_ms(rng, 20, 600)
        if end > 6:
            hb = max(hb, 15)
        sa = dur_ms(rng, 100, end_ms - 500)
        det.append({"hb_ms": hb, "poisson": rng.random() < 0.5,
                    "threshold": rng.choice([0.1, 1.0, 3.0, 8.0, 16.0]),
                    # None: the constructor default (200); otherwise around / below / above it
                    "window": rng.choice([None, 1, 2, 5, 50, size_over(rng, [5, 50], 200)]),
                    "min_std_ms": rng.choice([0.001, 1, 10, 100, 1000]), "initial": rng.random() < 0.5,
                    "silent": [sa, dur_ms(rng, 1, 1500)],
                    "burst": rng.choice([1, 1, 1, 2, 5])})
    return {
        "end": end,
        "events_before_sim": rng.random() < 0.25,
        "n": n,
        "probe_ms": probe,
        # per-node factor on the probe interval (a slow prober among fast ones); [] = homogeneous
        "probe_factor": [rng.choice([1, 1, 1, 2, 0.5, 5]) for _ in range(n)] if rng.random() < 0.3 and not fast else [],
        "suspicion_ms": rng.choice([dur_ms(rng, 1, 100), dur_ms(rng, 100, 1500), dur_ms(rng, 1000, end_ms + 1000)]),
        "indirect": rng.choice([0, 1, 2, 3, 3, n, n + 3]),
        "phi": rng.choice([0.1, 1.0, 3.0, 8.0, 16.0]),
        "link": rng.choice(["const", "exp", "exp-lossy", "datacenter", "jitter", "zero", "const-lossy"]),
        "lat_ms": dur_ms(rng, 0.1, 30) if rng.random() < 0.7 else dur_ms(rng, 30, 800),
        "loss": rng.choice([0.0, 0.05, 0.2, 0.5, 1.0]),
        "boot": rng.choice(["event", "event", "direct"]),
        "stagger_ms": dur_ms(rng, 1, 1200, zero=True) if rng.random() < 0.5 else 0,
        "stop": {"node": rng.randrange(n), "start": a, "end": dur_ms(rng, a + 1, min(a + 2000, end_ms + 500)),
                 "kind": rng.choice(["crash", "pause", "crash-forever", "partition", "partition-forever", "none"])},
        "split": [dur_ms(rng, 100, end_ms - 500), dur_ms(rng, 1, 1500), rng.randint(1, n - 1)]
                 if rng.random() < 0.4 else None,
        "late_join_ms": rng.choice([None, dur_ms(rng, 100, end_ms - 500)]),
        # stand-alone phi detectors
        "detectors": det,
        "sample_ms": dur_ms(rng, 5, 80) if rng.random() < 0.7 else dur_ms(rng, 80, 1100),
    }


def build(cfg, seed):
    from happysimulator.components.consensus import MemberState, MembershipProtocol, PhiAccrualDetector
    from happysimulator.components.network import Network, NetworkLink, datacenter_network
    from happysimulator.core.entity import Entity
    from happysimulator.core.event import Event
    from happysimulator.core.simulation import Simulation
    from happysimulator.core.temporal import Instant
    from happysimulator.distributions import ConstantLatency, ExponentialLatency
    from happysimulator.faults import CrashNode, FaultSchedule, PauseNode
    from happysimulator.load.source import Source

    seed_all(seed)

    def _d(factory, **kw):
        """a pre-run event, constructed either before or after `Simulation(...)` (cfg['events_before_sim'])"""
        return factory, kw
    end, n = cfg["end"], cfg["n"]
    net = Network(name="swim-net")

    def mk_link(name):
        lat = cfg["lat_ms"] / 1000.0
        k = cfg["link"]
        if k == "datacenter":
            return datacenter_network(name)
        if k == "const":
            return NetworkLink(name=name, latency=ConstantLatency(lat))
        if k == "exp":
            return NetworkLink(name=name, latency=ExponentialLatency(lat))
        if k == "jitter":
            return NetworkLink(name=name, latency=ConstantLatency(lat), jitter=ExponentialLatency(lat / 2))
        if k == "zero":
            return NetworkLink(name=name, latency=ConstantLatency(0.0))
        if k == "const-lossy":
            return NetworkLink(name=name, latency=ConstantLatency(lat), packet_loss_rate=cfg["loss"])
        return NetworkLink(name=name, latency=ExponentialLatency(lat), packet_loss_rate=cfg["loss"])

    def at_s(ms):
        return Instant.from_seconds(ms / 1000.0)

    pf = cfg.get("probe_factor") or [1] * n
    nodes = [MembershipProtocol(name=f"member-{i}", network=net, probe_interval=cfg["probe_ms"] * pf[i] / 1000.0,
                                suspicion_timeout=cfg["suspicion_ms"] / 1000.0,
                                indirect_probe_count=cfg["indirect"], phi_threshold=cfg["phi"])
             for i in range(n)]
    late = nodes[-1] if cfg["late_join_ms"] is not None else None
    for nd in nodes:
        for m in nodes:
            if m is nd:
                continue
            if late is not None and (m is late) and nd is not nodes[0]:
                continue          # only member-0 knows the late joiner from the start
            nd.add_member(m)
    for i, a in enumerate(nodes):
        for b in nodes[i + 1:]:
            net.add_bidirectional_link(a, b, mk_link(f"l-{a.name}-{b.name}"))

    pre = []
    direct = []
    for i, nd in enumerate(nodes):
        if cfg.get("boot", "event") == "direct" and i * cfg["stagger_ms"] == 0:
            direct.append(nd)        # started before the run: sim.schedule(node.start())
            continue
        pre.append(_d(Event.once, time=at_s(i * cfg["stagger_ms"]), event_type="Boot", fn=lambda e, nd=nd: nd.start(),
                              daemon=True))
    if late is not None:
        def join(e):
            for nd in nodes[1:-1]:
                nd.add_member(late)
        pre.append(_d(Event.once, time=at_s(cfg["late_join_ms"]), event_type="LateJoin", fn=join, daemon=True))

    faults = FaultSchedule("faults")
    st = cfg["stop"]
    victim = nodes[st["node"]]
    others = [x for x in nodes if x is not victim]
    log = []
    if st["kind"] == "crash":
        faults.add(CrashNode(victim.name, at=st["start"] / 1000.0, restart_at=st["end"] / 1000.0))
    elif st["kind"] == "crash-forever":
        faults.add(CrashNode(victim.name, at=st["start"] / 1000.0))
    elif st["kind"] == "pause":
        faults.add(PauseNode(victim.name, start=st["start"] / 1000.0, end=st["end"] / 1000.0))
    elif st["kind"] in ("partition", "partition-forever"):
        h = {}
        pre.append(_d(Event.once, time=at_s(st["start"]), event_type="Isolate",
                              fn=lambda e: h.__setitem__("h", net.partition([victim], others))))
        if st["kind"] == "partition":
            def heal(e):
                log.append(["heal", [[x.name, str(x.get_member_state(victim.name))] for x in others]])
                h["h"].heal()
            pre.append(_d(Event.once, time=at_s(st["end"]), event_type="Rejoin", fn=heal))
    if cfg["split"]:
        a, d, k = cfg["split"]
        h2 = {}
        pre.append(_d(Event.once, time=at_s(a), event_type="Split",
                              fn=lambda e: h2.__setitem__("h", net.partition(nodes[:k], nodes[k:]))))
        pre.append(_d(Event.once, time=at_s(a + d), event_type="Unsplit", fn=lambda e: h2["h"].heal()))

    # ------------------------------------------------------------------ stand-alone phi detectors
    class Monitor(Entity):
        """receives heartbeats for detector k and samples phi"""

        def __init__(self, k, dc):
            super().__init__(f"monitor-{k}")
            kw = {} if dc["window"] is None else {"max_sample_size": dc["window"]}      # None: library default (200)
            self.det = PhiAccrualDetector(threshold=dc["threshold"], min_std=dc["min_std_ms"] / 1000.0,
                                          initial_interval=dc["hb_ms"] / 1000.0 if dc["initial"] else None, **kw)
            self.samples = []
            self.flips = 0
            self.last_avail = None
            self.hb = 0

        def handle_event(self, event):
            now = self.now.to_seconds()
            if event.event_type == "Heartbeat":
                self.hb += 1
                self.det.heartbeat(now)
                return None
            avail = self.det.is_available(now)
            if avail != self.last_avail:
                self.flips += 1
                self.last_avail = avail
                if len(self.samples) < 60:
                    self.samples.append([self.now.nanoseconds, self.det.phi(now), avail])
            return None

    class Beater(Entity):
        def __init__(self, k, dc, mon, link):
            super().__init__(f"beater-{k}")
            self.dc, self.mon, self.link = dc, mon, link
            self.sent = self.suppressed = 0

        def handle_event(self, event):
            a, d = self.dc["silent"]
            ms = self.now.nanoseconds // 1_000_000
            if a <= ms < a + d:
                self.suppressed += 1
                return None
            out = []
            for _ in range(self.dc.get("burst", 1)):      # > 1: several heartbeats leave at the same instant
                self.sent += 1
                out.append(net.send(self, self.mon, "Heartbeat", payload={"n": self.sent}, daemon=True))
            return out

    monitors, beaters, sources = [], [], []
    for k, dc in enumerate(cfg["detectors"]):
        mon = Monitor(k, dc)
        link = mk_link(f"hb-link-{k}")
        bt = Beater(k, dc, mon, link)
        net.add_link(bt, mon, link)
        monitors.append(mon)
        beaters.append(bt)
        mk = Source.poisson if dc["poisson"] else Source.constant
        sources.append(mk(rate=1000.0 / dc["hb_ms"], target=bt, event_type="Beat", name=f"src-beat-{k}",
                          stop_after=end - 0.3))
        sources.append(Source.constant(rate=1000.0 / cfg["sample_ms"], target=mon, event_type="Sample",
                                       name=f"src-sample-{k}", stop_after=end - 0.1))

    if cfg["events_before_sim"]:
        # as examples/distributed/{multi_leader_replication,flexible_paxos_quorums}.py do: the pre-run events are
        # constructed first, the Simulation afterwards
        evs = [f(**kw) for f, kw in pre]
        sim = Simulation(end_time=T(end), sources=sources, entities=[net, *nodes, *monitors, *beaters],
                     fault_schedule=faults)
    else:
        sim = Simulation(end_time=T(end), sources=sources, entities=[net, *nodes, *monitors, *beaters],
                     fault_schedule=faults)
        evs = [f(**kw) for f, kw in pre]
    for ev in evs:
        sim.schedule(ev)
    for nd in direct:
        sim.schedule(nd.start())

    obs = {"faults": stats_of(faults), "log": lambda: log,
           "net": lambda: {"routed": net.events_routed, "no_route": net.events_dropped_no_route,
                           "partition": net.events_dropped_partition,
                           "matrix": [[s.source, s.destination, s.packets_sent, s.packets_dropped]
                                      for s in net.traffic_matrix()]}}
    for nd in nodes:
        obs[nd.name] = stats_of(nd)
        obs[nd.name + ".x"] = (lambda nd=nd: {
            "alive": sorted(nd.alive_members), "suspect": sorted(nd.suspected_members),
            "dead": sorted(nd.dead_members),
            "by_state": [[st_.name, sum(1 for m in nodes if m is not nd and nd.get_member_state(m.name) is st_)]
                         for st_ in (MemberState.ALIVE, MemberState.SUSPECT, MemberState.DEAD)],
            "states": [[m.name, None if nd.get_member_state(m.name) is None else nd.get_member_state(m.name).name]
                       for m in nodes if m is not nd]})
    end_s = end
    for k, mon in enumerate(monitors):
        obs[mon.name] = (lambda mon=mon: {"hb": mon.hb, "flips": mon.flips, "samples": mon.samples,
                                          "stats": dataclass_stats(mon.det.stats_at(end_s)), "last": mon.det.last_heartbeat,
                                          "threshold": mon.det.threshold})
        obs[beaters[k].name] = (lambda b=beaters[k]: {"sent": b.sent, "suppressed": b.suppressed})
    return sim, obs
