"""Membership: 4–7 `MembershipProtocol` (SWIM-style) nodes over a `Network` with latency / jitter / loss, fast
probe rounds (indirect probes through delegates, piggy-backed updates, suspicion timeouts), one node that stops
responding (library `CrashNode` / `PauseNode` fault, or a partition from everybody that may heal), a second
partition splitting the cluster, a node that learns of a late joiner during the run; plus stand-alone
`PhiAccrualDetector`s fed with heartbeats that travel over lossy / jittery links from senders that go silent
for a window, sampled periodically by a monitor entity."""
from __future__ import annotations

import random

from hv.scenarios.base import T, dataclass_stats, seed_all, stats_of, sub_seed

NAME = "membership"
MODEL = "C13"
COMPONENTS = ["MembershipProtocol", "PhiAccrualDetector", "MemberInfo", "Network", "NetworkLink", "Partition",
              "FaultSchedule", "CrashNode", "PauseNode", "Source"]


def gen_cfg(rng):
    end = rng.choice([3.0, 4.0, 6.0])
    end_ms = int(end * 1000)
    n = rng.randint(4, 7)
    a = rng.randint(500, end_ms - 1500)
    return {
        "end": end,
        "events_before_sim": rng.random() < 0.25,
        "n": n,
        "probe_ms": rng.choice([40, 80, 150]),
        "suspicion_ms": rng.choice([150, 400, 900]),
        "indirect": rng.randint(0, 3),
        "phi": rng.choice([1.0, 3.0, 8.0]),
        "link": rng.choice(["const", "exp", "exp-lossy", "datacenter", "jitter"]),
        "lat_ms": rng.randint(1, 30),
        "loss": rng.choice([0.05, 0.2]),
        "stagger_ms": rng.choice([0, 0, 3, 11]),
        "stop": {"node": rng.randrange(n), "start": a, "end": a + rng.randint(300, 1200),
                 "kind": rng.choice(["crash", "pause", "crash-forever", "partition", "partition-forever"])},
        "split": [rng.randint(300, end_ms - 1000), rng.randint(100, 600), rng.randint(1, n - 1)]
                 if rng.random() < 0.4 else None,
        "late_join_ms": rng.choice([None, rng.randint(200, end_ms - 800)]),
        # stand-alone phi detectors
        "detectors": [{"hb_ms": rng.choice([20, 50, 100]), "poisson": rng.random() < 0.5,
                       "threshold": rng.choice([1.0, 3.0, 8.0]), "window": rng.choice([5, 50, 200]),
                       "min_std_ms": rng.choice([1, 10, 100]), "initial": rng.random() < 0.5,
                       "silent": [rng.randint(300, end_ms - 1000), rng.randint(100, 800)]}
                      for _ in range(rng.randint(1, 3))],
        "sample_ms": rng.choice([25, 60]),
    }


def build(cfg, seed):
    from happysimulator.components.consensus import MembershipProtocol, PhiAccrualDetector
    from happysimulator.components.network import Network, NetworkLink, datacenter_network
    from happysimulator.core.entity import Entity
    from happysimulator.core.event import Event
    from happysimulator.core.simulation import Simulation
    from happysimulator.core.temporal import Instant
    from happysimulator.distributions import ConstantLatency, ExponentialLatency
    from happysimulator.faults import CrashNode, FaultSchedule, PauseNode
    from happysimulator.load.source import Source

    seed_all(seed)

    def _d(factory, **kw):
        """a pre-run event, constructed either before or after `Simulation(...)` (cfg['events_before_sim'])"""
        return factory, kw
    end, n = cfg["end"], cfg["n"]
    net = Network(name="swim-net")

    def mk_link(name):
        lat = cfg["lat_ms"] / 1000.0
        k = cfg["link"]
        if k == "datacenter":
            return datacenter_network(name)
        if k == "const":
            return NetworkLink(name=name, latency=ConstantLatency(lat))
        if k == "exp":
            return NetworkLink(name=name, latency=ExponentialLatency(lat))
        if k == "jitter":
            return NetworkLink(name=name, latency=ConstantLatency(lat), jitter=ExponentialLatency(lat / 2))
        return NetworkLink(name=name, latency=ExponentialLatency(lat), packet_loss_rate=cfg["loss"])

    def at_s(ms):
        return Instant.from_seconds(ms / 1000.0)

    nodes = [MembershipProtocol(name=f"member-{i}", network=net, probe_interval=cfg["probe_ms"] / 1000.0,
                                suspicion_timeout=cfg["suspicion_ms"] / 1000.0,
                                indirect_probe_count=cfg["indirect"], phi_threshold=cfg["phi"])
             for i in range(n)]
    late = nodes[-1] if cfg["late_join_ms"] is not None else None
    for nd in nodes:
        for m in nodes:
            if m is nd:
                continue
            if late is not None and (m is late) and nd is not nodes[0]:
                continue          # only member-0 knows the late joiner from the start
            nd.add_member(m)
    for i, a in enumerate(nodes):
        for b in nodes[i + 1:]:
            net.add_bidirectional_link(a, b, mk_link(f"l-{a.name}-{b.name}"))

    pre = []
    for i, nd in enumerate(nodes):
        pre.append(_d(Event.once, time=at_s(i * cfg["stagger_ms"]), event_type="Boot", fn=lambda e, nd=nd: nd.start(),
                              daemon=True))
    if late is not None:
        def join(e):
            for nd in nodes[1:-1]:
                nd.add_member(late)
        pre.append(_d(Event.once, time=at_s(cfg["late_join_ms"]), event_type="LateJoin", fn=join, daemon=True))

    faults = FaultSchedule("faults")
    st = cfg["stop"]
    victim = nodes[st["node"]]
    others = [x for x in nodes if x is not victim]
    log = []
    if st["kind"] == "crash":
        faults.add(CrashNode(victim.name, at=st["start"] / 1000.0, restart_at=st["end"] / 1000.0))
    elif st["kind"] == "crash-forever":
        faults.add(CrashNode(victim.name, at=st["start"] / 1000.0))
    elif st["kind"] == "pause":
        faults.add(PauseNode(victim.name, start=st["start"] / 1000.0, end=st["end"] / 1000.0))
    else:
        h = {}
        pre.append(_d(Event.once, time=at_s(st["start"]), event_type="Isolate",
                              fn=lambda e: h.__setitem__("h", net.partition([victim], others))))
        if st["kind"] == "partition":
            def heal(e):
                log.append(["heal", [[x.name, str(x.get_member_state(victim.name))] for x in others]])
                h["h"].heal()
            pre.append(_d(Event.once, time=at_s(st["end"]), event_type="Rejoin", fn=heal))
    if cfg["split"]:
        a, d, k = cfg["split"]
        h2 = {}
        pre.append(_d(Event.once, time=at_s(a), event_type="Split",
                              fn=lambda e: h2.__setitem__("h", net.partition(nodes[:k], nodes[k:]))))
        pre.append(_d(Event.once, time=at_s(a + d), event_type="Unsplit", fn=lambda e: h2["h"].heal()))

    # ------------------------------------------------------------------ stand-alone phi detectors
    class Monitor(Entity):
        """receives heartbeats for detector k and samples phi"""

        def __init__(self, k, dc):
            super().__init__(f"monitor-{k}")
            self.det = PhiAccrualDetector(threshold=dc["threshold"], max_sample_size=dc["window"],
                                          min_std=dc["min_std_ms"] / 1000.0,
                                          initial_interval=dc["hb_ms"] / 1000.0 if dc["initial"] else None)
            self.samples = []
            self.flips = 0
            self.last_avail = None
            self.hb = 0

        def handle_event(self, event):
            now = self.now.to_seconds()
            if event.event_type == "Heartbeat":
                self.hb += 1
                self.det.heartbeat(now)
                return None
            avail = self.det.is_available(now)
            if avail != self.last_avail:
                self.flips += 1
                self.last_avail = avail
                if len(self.samples) < 60:
                    self.samples.append([self.now.nanoseconds, self.det.phi(now), avail])
            return None

    class Beater(Entity):
        def __init__(self, k, dc, mon, link):
            super().__init__(f"beater-{k}")
            self.dc, self.mon, self.link = dc, mon, link
            self.sent = self.suppressed = 0

        def handle_event(self, event):
            a, d = self.dc["silent"]
            ms = self.now.nanoseconds // 1_000_000
            if a <= ms < a + d:
                self.suppressed += 1
                return None
            self.sent += 1
            ev = net.send(self, self.mon, "Heartbeat", payload={"n": self.sent}, daemon=True)
            return [ev]

    monitors, beaters, sources = [], [], []
    for k, dc in enumerate(cfg["detectors"]):
        mon = Monitor(k, dc)
        link = mk_link(f"hb-link-{k}")
        bt = Beater(k, dc, mon, link)
        net.add_link(bt, mon, link)
        monitors.append(mon)
        beaters.append(bt)
        mk = Source.poisson if dc["poisson"] else Source.constant
        sources.append(mk(rate=1000.0 / dc["hb_ms"], target=bt, event_type="Beat", name=f"src-beat-{k}",
                          stop_after=end - 0.3))
        sources.append(Source.constant(rate=1000.0 / cfg["sample_ms"], target=mon, event_type="Sample",
                                       name=f"src-sample-{k}", stop_after=end - 0.1))

    if cfg["events_before_sim"]:
        # as examples/distributed/{multi_leader_replication,flexible_paxos_quorums}.py do: the pre-run events are
        # constructed first, the Simulation afterwards
        evs = [f(**kw) for f, kw in pre]
        sim = Simulation(end_time=T(end), sources=sources, entities=[net, *nodes, *monitors, *beaters],
                     fault_schedule=faults)
    else:
        sim = Simulation(end_time=T(end), sources=sources, entities=[net, *nodes, *monitors, *beaters],
                     fault_schedule=faults)
        evs = [f(**kw) for f, kw in pre]
    for ev in evs:
        sim.schedule(ev)

    obs = {"faults": stats_of(faults), "log": lambda: log,
           "net": lambda: {"routed": net.events_routed, "no_route": net.events_dropped_no_route,
                           "partition": net.events_dropped_partition,
                           "matrix": [[s.source, s.destination, s.packets_sent, s.packets_dropped]
                                      for s in net.traffic_matrix()]}}
    for nd in nodes:
        obs[nd.name] = stats_of(nd)
        obs[nd.name + ".x"] = (lambda nd=nd: {
            "alive": sorted(nd.alive_members), "suspect": sorted(nd.suspected_members),
            "dead": sorted(nd.dead_members),
            "states": [[m.name, None if nd.get_member_state(m.name) is None else nd.get_member_state(m.name).name]
                       for m in nodes if m is not nd]})
    end_s = end
    for k, mon in enumerate(monitors):
        obs[mon.name] = (lambda mon=mon: {"hb": mon.hb, "flips": mon.flips, "samples": mon.samples,
                                          "stats": dataclass_stats(mon.det.stats_at(end_s)), "last": mon.det.last_heartbeat,
                                          "threshold": mon.det.threshold})
        obs[beaters[k].name] = (lambda b=beaters[k]: {"sent": b.sent, "suppressed": b.suppressed})
    return sim, obs
