"""Clients: Client (timeout + retry policies), ConnectionPool (connection latency > 0, 1–2 connections,
short acquisition / idle timeouts), PooledClient and direct pool users, against a slow backend
(a generator entity with variable latency, or the library Server with concurrency 1–2)."""
from __future__ import annotations

import random

from hv.scenarios.base import T, seed_all, stats_of, sub_seed

NAME = "client"
MODEL = "C09"
COMPONENTS = ["Client", "ConnectionPool", "Connection", "PooledClient", "NoRetry", "FixedRetry",
              "ExponentialBackoff", "DecorrelatedJitter", "Server", "Source", "ConstantLatency",
              "ExponentialLatency"]

RETRIES = ["none", "fixed", "fixed0", "expo", "expo-jitter", "decor"]


def gen_cfg(rng):
    clients = []
    for _ in range(rng.randint(3, 5)):
        clients.append({
            "kind": rng.choice(["plain", "pooled", "pooled", "direct"]),
            "timeout_ms": rng.choice([0, 15, 30, 60, 120]),      # 0 = no timeout
            "retry": rng.choice(RETRIES),
            "attempts": rng.randint(2, 4),
            "delay_ms": rng.choice([5, 20, 100, 150]),
            "rate": rng.choice([10, 20, 40, 60]),
            "poisson": rng.random() < 0.5,
            "own_pool": rng.random() < 0.3,
            "hold_ms": rng.randint(5, 40),                        # direct pool users
        })
    return {
        "backend": rng.choice(["gen", "gen", "server"]),
        "svc_ms": [rng.randint(5, 30), rng.randint(30, 150)],
        "svc_exp": rng.random() < 0.3,
        "srv_conc": rng.randint(1, 2),
        "srv_qcap": rng.choice([0, 2, 5]),                        # 0 = unbounded
        "pool": {
            "min": rng.randint(0, 1),
            "max": rng.randint(1, 2),
            "conn_lat_ms": rng.randint(1, 30),
            "conn_lat_exp": rng.random() < 0.3,
            "conn_timeout_ms": rng.choice([40, 100, 250, 1000]),
            "idle_timeout_ms": rng.choice([10, 50, 200, 2000]),
            "warmup": rng.random() < 0.5,
        },
        "clients": clients,
        "end": rng.choice([2.0, 3.0, 4.0]),
    }


def _retry(c):
    from happysimulator.components.client import DecorrelatedJitter, ExponentialBackoff, FixedRetry, NoRetry

    d = c["delay_ms"] / 1000.0
    r = c["retry"]
    if r == "none":
        return NoRetry()
    if r == "fixed":
        return FixedRetry(max_attempts=c["attempts"], delay=d)
    if r == "fixed0":
        return FixedRetry(max_attempts=c["attempts"], delay=0.0)
    if r == "expo":
        return ExponentialBackoff(max_attempts=c["attempts"], initial_delay=d, max_delay=4 * d, multiplier=2.0)
    if r == "expo-jitter":
        return ExponentialBackoff(max_attempts=c["attempts"], initial_delay=d, max_delay=4 * d, multiplier=1.5,
                                  jitter=d)
    return DecorrelatedJitter(max_attempts=c["attempts"], base_delay=d, max_delay=5 * d)


def build(cfg, seed):
    from happysimulator.components.client import Client, ConnectionPool, PooledClient
    from happysimulator.components.server import Server
    from happysimulator.core.entity import Entity
    from happysimulator.core.simulation import Simulation
    from happysimulator.distributions import ConstantLatency, ExponentialLatency
    from happysimulator.load.event_provider import EventProvider
    from happysimulator.load.source import Source

    seed_all(seed)
    end = cfg["end"]
    stop = T(end - 0.7)

    class SlowBackend(Entity):
        """every request is a process that sleeps a variable, non-zero time (unbounded concurrency)"""

        def __init__(self, name, lo, hi, rng):
            super().__init__(name)
            self.lo, self.hi, self.rng = lo, hi, rng
            self.received = 0
            self.completed = 0
            self.by_client = {}

        def handle_event(self, event):
            self.received += 1
            md = event.context.get("metadata", {})
            cl = md.get("client")
            key = cl.name if cl is not None else "?"
            self.by_client[key] = self.by_client.get(key, 0) + 1
            yield self.rng.randint(self.lo, self.hi) / 1000.0
            self.completed += 1

        def stats(self):
            return {"received": self.received, "completed": self.completed, "by_client": dict(self.by_client)}

    class DirectUser(Entity):
        """acquires a pooled connection itself, holds it, releases it (pool docstring pattern)"""

        def __init__(self, name, pool, hold):
            super().__init__(name)
            self.pool, self.hold = pool, hold
            self.ok = 0
            self.timeouts = 0
            self.conn_ids = []

        def handle_event(self, event):
            try:
                conn = yield from self.pool.acquire()
            except TimeoutError:
                self.timeouts += 1
                return None
            if len(self.conn_ids) < 20:
                self.conn_ids.append(conn.id)
            yield self.hold
            self.ok += 1
            return self.pool.release(conn)

        def stats(self):
            return {"ok": self.ok, "timeouts": self.timeouts, "conn_ids": list(self.conn_ids)}

    class ClientRequests(EventProvider):
        """requests created through client.send_request (the way the library's tests drive a client)"""

        def __init__(self, client, tag):
            self.client, self.tag = client, tag
            self.generated = 0

        def get_events(self, time):
            if time > stop:
                return []
            self.generated += 1
            req = self.client.send_request(payload=f"{self.tag}-req-{self.generated}")
            req.time = time
            return [req]

    lo, hi = cfg["svc_ms"]
    if cfg["backend"] == "gen":
        backend = SlowBackend("backend", lo, hi, random.Random(sub_seed(seed, "backend")))
        backend_obs = backend.stats
    else:
        mean = (lo + hi) / 2000.0
        dist = ExponentialLatency(mean) if cfg["svc_exp"] else ConstantLatency(mean)
        backend = Server("backend", concurrency=cfg["srv_conc"], service_time=dist,
                         queue_capacity=cfg["srv_qcap"] or None)
        backend_obs = (lambda b=backend: {"stats": stats_of(b)(), "acc": b.stats_accepted, "drop": b.stats_dropped,
                                          "depth": b.depth})

    entities, sources, obs = [backend], [], {"backend": backend_obs}
    pre = []
    pc = cfg["pool"]

    def make_pool(name):
        lat = pc["conn_lat_ms"] / 1000.0
        pool = ConnectionPool(
            name, target=backend, min_connections=min(pc["min"], pc["max"]), max_connections=pc["max"],
            connection_timeout=pc["conn_timeout_ms"] / 1000.0, idle_timeout=pc["idle_timeout_ms"] / 1000.0,
            connection_latency=ExponentialLatency(lat) if pc["conn_lat_exp"] else ConstantLatency(lat))
        entities.append(pool)
        obs[name] = stats_of(pool)
        obs[name + ".state"] = (lambda p=pool: {"active": p.active_connections, "idle": p.idle_connections,
                                                "total": p.total_connections, "pending": p.pending_requests,
                                                "avg_wait": p.average_wait_time})
        if pc["warmup"] and pc["min"] > 0:
            pre.append(pool.warmup())
        return pool

    shared = None
    for i, c in enumerate(cfg["clients"]):
        nm = f"cl{i}"
        results = {"ok": 0, "fail": 0, "reasons": []}

        def on_ok(req, resp, r=results):
            r["ok"] += 1

        def on_fail(req, reason, r=results):
            r["fail"] += 1
            if len(r["reasons"]) < 10:
                r["reasons"].append(reason)

        timeout = c["timeout_ms"] / 1000.0 if c["timeout_ms"] else None
        if c["kind"] == "plain":
            cl = Client(nm, target=backend, timeout=timeout, retry_policy=_retry(c), on_success=on_ok,
                        on_failure=on_fail)
        else:
            if c["own_pool"]:
                pool = make_pool(f"pool{i}")
            else:
                if shared is None:
                    shared = make_pool("pool")
                pool = shared
            if c["kind"] == "pooled":
                cl = PooledClient(nm, connection_pool=pool, timeout=timeout, retry_policy=_retry(c),
                                  on_success=on_ok, on_failure=on_fail)
            else:
                cl = DirectUser(nm, pool, c["hold_ms"] / 1000.0)
        entities.append(cl)
        mk = Source.poisson if c["poisson"] else Source.constant
        if c["kind"] == "direct":
            obs[nm] = cl.stats
            sources.append(mk(rate=c["rate"], target=cl, event_type="Use", name=f"src{i}", stop_after=stop))
        else:
            obs[nm] = stats_of(cl)
            obs[nm + ".more"] = (lambda cl=cl, r=results: {
                "in_flight": cl.in_flight_count, "avg_rt": cl.average_response_time,
                "p50": cl.get_response_time_percentile(0.5), "p99": cl.get_response_time_percentile(0.99),
                "cb": dict(r)})
            sources.append(mk(rate=c["rate"], name=f"src{i}", event_provider=ClientRequests(cl, nm)))

    sim = Simulation(end_time=T(end), sources=sources, entities=entities)
    for e in pre:
        sim.schedule(e)
    return sim, obs
