"""Clients: Client (timeout + retry policies), ConnectionPool (connection latency >= 0, 1..many connections,
acquisition / idle timeouts in every order relative to hold times, retry delays and service times, optional
callbacks, warm-up, close_all), PooledClient and direct pool users, against a slow backend (a generator entity
with variable latency, or the library Server with concurrency 1-2 and a bounded / unbounded queue).

Coverage notes (widened):
  * every retry policy with every constructor parameter (max_attempts 1.., delay 0.., multiplier 1.., max_delay
    = / > initial delay, jitter 0 / > 0), optionally ALL policies side by side in one scenario ("bank");
  * timeouts / delays / idle timeouts / hold times / connection latencies drawn with `dur_ms` (lossy values,
    sub-ms decimals, values above 1 s) so that retry delay > idle timeout, timeout < / > service time,
    connection timeout < hold time, idle timeout < inter-arrival gap all occur;
  * `timeout=0.0` (legal: the time-out fires at the instant of the send), zero service time, zero connection
    latency;
  * sustained overload (arrival rate far above pool capacity / server capacity) and same-instant bursts;
  * internal constant: ConnectionPool.acquire polls every min(0.1 s, connection_timeout / 10): connection
    timeouts below, at and above 1 s are generated.
"""
from __future__ import annotations

import random

from hv.scenarios.base import T, dur_ms, seed_all, stats_of, sub_seed

NAME = "client"
MODEL = "C09"
COMPONENTS = ["Client", "ConnectionPool", "Connection", "PooledClient", "NoRetry", "FixedRetry",
              "ExponentialBackoff", "DecorrelatedJitter", "Server", "Source", "ConstantLatency",
              "ExponentialLatency"]

RETRIES = ["none", "fixed", "fixed0", "expo", "expo-jitter", "decor"]
KINDS = ["plain", "pooled", "pooled", "direct"]


def _client_cfg(rng, kind=None, retry=None, overload=False):
    delay = dur_ms(rng, 0.5, rng.choice([60, 200, 1500]))
    r = rng.random()
    max_delay = delay if r < 0.25 else round(delay * rng.choice([1.5, 2, 4, 10]), 3)
    return {
        "kind": kind or rng.choice(KINDS),
        "timeout_ms": 0 if rng.random() < 0.15 else dur_ms(rng, 1, rng.choice([40, 150, 1200])),  # 0 = no timeout
        "timeout_zero": rng.random() < 0.05,                  # timeout=0.0 (legal), overrides timeout_ms
        "retry": retry or rng.choice(RETRIES),
        "attempts": rng.choice([1, 2, 2, 3, 3, 4, 6]),
        "delay_ms": delay,
        "max_delay_ms": max_delay,                            # ExponentialBackoff / DecorrelatedJitter cap
        "mult_x100": rng.choice([100, 150, 200, 300]),        # ExponentialBackoff.multiplier
        "jitter_ms": dur_ms(rng, 0.1, max(1, delay), zero=True),
        "rate": rng.choice([150, 300, 500] if overload else [10, 20, 40, 60]),
        "poisson": rng.random() < 0.5,
        "own_pool": rng.random() < 0.3,
        "hold_ms": dur_ms(rng, 1, rng.choice([40, 400])),     # direct pool users
        "etype": rng.choice(["request", "request", "rpc.call"]),
        "override_cb": rng.random() < 0.2,                    # per-request callbacks given to send_request
        # same-instant bursts [at ms, how many]
        "bursts": [[dur_ms(rng, 50, 2500), rng.choice([2, 5, 12, 30])] for _ in range(rng.choice([0, 0, 1, 2]))],
    }


def gen_cfg(rng):
    long_run = rng.random() < 0.12
    overload = (not long_run) and rng.random() < 0.25     # sustained overload of pool / server capacity
    clients = []
    if rng.random() < 0.5:
        # bank: every retry policy once (fed in parallel), kinds mixed
        for r in RETRIES:
            clients.append(_client_cfg(rng, retry=r, overload=overload and rng.random() < 0.4))
        if not any(c["kind"] == "direct" for c in clients):
            clients.append(_client_cfg(rng, kind="direct"))
    else:
        for _ in range(rng.randint(3, 5)):
            clients.append(_client_cfg(rng, overload=overload and rng.random() < 0.6))
    pmax = rng.choice([1, 1, 2, 2, 3, 10])
    svc_set = []
    if rng.random() < 0.5:
        svc_set = [dur_ms(rng, 0.5, rng.choice([20, 150, 600]), zero=True) for _ in range(rng.randint(1, 4))]
    return {
        "backend": rng.choice(["gen", "gen", "server"]),
        "svc_ms": [rng.randint(5, 30), rng.randint(30, 150)],
        "svc_set_ms": svc_set,                                    # non-empty: service times drawn from this list
        "svc_exp": rng.random() < 0.3,
        "srv_conc": rng.randint(1, 2),
        "srv_qcap": rng.choice([0, 0, 1, 2, 5]),                  # 0 = unbounded
        "pool": {
            "min": rng.choice([0, 0, 1, 1, 2, 3]),
            "max": pmax,
            "conn_lat_ms": dur_ms(rng, 0.5, rng.choice([30, 300]), zero=True),
            "conn_lat_exp": rng.random() < 0.3,
            "conn_timeout_ms": dur_ms(rng, 5, rng.choice([100, 1000, 2500])),
            "idle_timeout_ms": dur_ms(rng, 1, rng.choice([50, 500, 3000])),
            "warmup": rng.random() < 0.5,
            "warmup_any": rng.random() < 0.2,                     # warm up also with min_connections == 0
            "callbacks": rng.random() < 0.5,                      # on_acquire / on_release / on_timeout
            "close_all_ms": 0 if rng.random() < 0.8 else dur_ms(rng, 300, 2500),
        },
        "clients": clients,
        "end": rng.choice([8.0, 10.0]) if long_run else rng.choice([2.0, 3.0, 4.0, 2.05, 3.003]),
    }


def gen_cfg_wide(rng):
    """maximum-coverage configuration: every retry policy once, and an immediate-retry client (FixedRetry, delay 0) whose
    requests all time out (backend slower than the timeout) on a steady stream — hundreds of timeout instants, among them
    instants that do not survive the ns -> float seconds -> ns round trip"""
    cfg = gen_cfg(rng)
    clients = [_client_cfg(rng, retry=r) for r in RETRIES]
    for r in ("fixed0", "fixed"):
        c = _client_cfg(rng, kind="plain", retry=r)
        c.update({"timeout_ms": rng.randint(2, 25), "timeout_zero": False, "attempts": rng.choice([3, 4, 6]),
                  "delay_ms": rng.choice([0.000001, 0.001, 1]), "rate": rng.choice([50, 60, 100]), "poisson": False,
                  "bursts": []})
        clients.append(c)
    cfg.update({"clients": clients, "backend": "gen", "svc_ms": [40, 150], "svc_set_ms": [], "end": rng.choice([3.0, 4.0])})
    return cfg


def _retry(c):
    from happysimulator.components.client import DecorrelatedJitter, ExponentialBackoff, FixedRetry, NoRetry

    d = c["delay_ms"] / 1000.0
    r = c["retry"]
    if r == "none":
        return NoRetry()
    if r == "fixed":
        return FixedRetry(max_attempts=c["attempts"], delay=d)
    if r == "fixed0":
        return FixedRetry(max_attempts=c["attempts"], delay=0.0)
    old = "max_delay_ms" not in c                                  # corpus cfgs of the old shape
    if r == "expo":
        md = 4 * d if old else max(d, c["max_delay_ms"] / 1000.0)
        return ExponentialBackoff(max_attempts=c["attempts"], initial_delay=d, max_delay=md,
                                  multiplier=c.get("mult_x100", 200) / 100.0)
    if r == "expo-jitter":
        md = 4 * d if old else max(d, c["max_delay_ms"] / 1000.0)
        j = d if old else c.get("jitter_ms", 0) / 1000.0
        return ExponentialBackoff(max_attempts=c["attempts"], initial_delay=d, max_delay=md,
                                  multiplier=c.get("mult_x100", 150) / 100.0, jitter=j)
    md = 5 * d if old else max(d, c["max_delay_ms"] / 1000.0)
    return DecorrelatedJitter(max_attempts=c["attempts"], base_delay=d, max_delay=md)


def build(cfg, seed):
    from happysimulator.components.client import Client, ConnectionPool, PooledClient
    from happysimulator.components.server import Server
    from happysimulator.core.entity import Entity
    from happysimulator.core.event import Event
    from happysimulator.core.simulation import Simulation
    from happysimulator.distributions import ConstantLatency, ExponentialLatency
    from happysimulator.load.event_provider import EventProvider
    from happysimulator.load.source import Source

    seed_all(seed)
    end = cfg["end"]
    stop = T(end - 0.7)
    svc_set = cfg.get("svc_set_ms") or []

    class SlowBackend(Entity):
        """every request is a process that sleeps a variable time (unbounded concurrency)"""

        def __init__(self, name, lo, hi, rng):
            super().__init__(name)
            self.lo, self.hi, self.rng = lo, hi, rng
            self.received = 0
            self.completed = 0
            self.by_client = {}

        def handle_event(self, event):
            self.received += 1
            md = event.context.get("metadata", {})
            cl = md.get("client")
            key = cl.name if cl is not None else "?"
            self.by_client[key] = self.by_client.get(key, 0) + 1
            if svc_set:
                yield self.rng.choice(svc_set) / 1000.0
            else:
                yield self.rng.randint(self.lo, self.hi) / 1000.0
            self.completed += 1

        def stats(self):
            return {"received": self.received, "completed": self.completed, "by_client": dict(self.by_client)}

    class DirectUser(Entity):
        """acquires a pooled connection itself, holds it, releases it (pool docstring pattern)"""

        def __init__(self, name, pool, hold):
            super().__init__(name)
            self.pool, self.hold = pool, hold
            self.ok = 0
            self.timeouts = 0
            self.conn_ids = []

        def handle_event(self, event):
            try:
                conn = yield from self.pool.acquire()
            except TimeoutError:
                self.timeouts += 1
                return None
            if len(self.conn_ids) < 20:
                self.conn_ids.append(conn.id)
            yield self.hold
            self.ok += 1
            return self.pool.release(conn)

        def stats(self):
            return {"ok": self.ok, "timeouts": self.timeouts, "conn_ids": list(self.conn_ids)}

    class ClientRequests(EventProvider):
        """requests created through client.send_request (the way the library's tests drive a client)"""

        def __init__(self, client, tag, etype, override):
            self.client, self.tag, self.etype, self.override = client, tag, etype, override
            self.generated = 0
            self.over = {"ok": 0, "fail": 0}

        def make(self, time):
            self.generated += 1
            kw = {}
            if self.override and self.generated % 3 == 0:
                def ok(req, resp, o=self.over):
                    o["ok"] += 1

                def fail(req, reason, o=self.over):
                    o["fail"] += 1
                kw = {"on_success": ok, "on_failure": fail}
            req = self.client.send_request(payload=f"{self.tag}-req-{self.generated}", event_type=self.etype, **kw)
            req.time = time
            return req

        def get_events(self, time):
            if time > stop:
                return []
            return [self.make(time)]

    lo, hi = cfg["svc_ms"]
    if cfg["backend"] == "gen":
        backend = SlowBackend("backend", lo, hi, random.Random(sub_seed(seed, "backend")))
        backend_obs = backend.stats
    else:
        mean = (svc_set[0] if svc_set else (lo + hi) / 2.0) / 1000.0
        dist = ExponentialLatency(mean) if (cfg["svc_exp"] and mean > 0) else ConstantLatency(mean)
        backend = Server("backend", concurrency=cfg["srv_conc"], service_time=dist,
                         queue_capacity=cfg["srv_qcap"] or None)
        backend_obs = (lambda b=backend: {"stats": stats_of(b)(), "acc": b.stats_accepted, "drop": b.stats_dropped,
                                          "depth": b.depth})

    entities, sources, obs = [backend], [], {"backend": backend_obs}
    pre = []
    pc = cfg["pool"]
    pools = []

    def make_pool(name):
        lat = pc["conn_lat_ms"] / 1000.0
        cb = {"acq": 0, "rel": 0, "to": 0, "ids": []}
        kw = {}
        if pc.get("callbacks"):
            def on_acq(conn, cb=cb):
                cb["acq"] += 1
                if len(cb["ids"]) < 12:
                    cb["ids"].append(conn.id)

            def on_rel(conn, cb=cb):
                cb["rel"] += 1

            def on_to(cb=cb):
                cb["to"] += 1
            kw = {"on_acquire": on_acq, "on_release": on_rel, "on_timeout": on_to}
        pool = ConnectionPool(
            name, target=backend, min_connections=min(pc["min"], pc["max"]), max_connections=pc["max"],
            connection_timeout=pc["conn_timeout_ms"] / 1000.0, idle_timeout=pc["idle_timeout_ms"] / 1000.0,
            connection_latency=ExponentialLatency(lat) if (pc["conn_lat_exp"] and lat > 0) else ConstantLatency(lat),
            **kw)
        entities.append(pool)
        pools.append(pool)
        obs[name] = stats_of(pool)
        obs[name + ".state"] = (lambda p=pool, cb=cb: {"active": p.active_connections, "idle": p.idle_connections,
                                                       "total": p.total_connections, "pending": p.pending_requests,
                                                       "avg_wait": p.average_wait_time, "cb": dict(cb)})
        if (pc["warmup"] and pc["min"] > 0) or pc.get("warmup_any"):
            pre.append(pool.warmup())
        if pc.get("close_all_ms"):
            pre.append(Event.once(time=T(pc["close_all_ms"] / 1000.0), event_type=f"{name}.close_all",
                                  fn=lambda e, p=pool: p.close_all()))
        return pool

    shared = None
    for i, c in enumerate(cfg["clients"]):
        nm = f"cl{i}"
        results = {"ok": 0, "fail": 0, "reasons": []}

        def on_ok(req, resp, r=results):
            r["ok"] += 1

        def on_fail(req, reason, r=results):
            r["fail"] += 1
            if len(r["reasons"]) < 10:
                r["reasons"].append(reason)

        timeout = c["timeout_ms"] / 1000.0 if c["timeout_ms"] else None
        if c.get("timeout_zero"):
            timeout = 0.0
        if c["kind"] == "plain":
            cl = Client(nm, target=backend, timeout=timeout, retry_policy=_retry(c), on_success=on_ok,
                        on_failure=on_fail)
        else:
            if c["own_pool"]:
                pool = make_pool(f"pool{i}")
            else:
                if shared is None:
                    shared = make_pool("pool")
                pool = shared
            if c["kind"] == "pooled":
                cl = PooledClient(nm, connection_pool=pool, timeout=timeout, retry_policy=_retry(c),
                                  on_success=on_ok, on_failure=on_fail)
            else:
                cl = DirectUser(nm, pool, c["hold_ms"] / 1000.0)
        entities.append(cl)
        mk = Source.poisson if c["poisson"] else Source.constant
        bursts = [(t_ms, n) for t_ms, n in c.get("bursts", []) if t_ms / 1000.0 < end - 0.7]
        if c["kind"] == "direct":
            obs[nm] = cl.stats
            sources.append(mk(rate=c["rate"], target=cl, event_type="Use", name=f"src{i}", stop_after=stop))
            for t_ms, n in bursts:
                for _j in range(n):
                    pre.append(Event(time=T(t_ms / 1000.0), event_type="Use", target=cl))
        else:
            prov = ClientRequests(cl, nm, c.get("etype", "request"), c.get("override_cb", False))
            obs[nm] = stats_of(cl)
            obs[nm + ".more"] = (lambda cl=cl, r=results, p=prov: {
                "in_flight": cl.in_flight_count, "avg_rt": cl.average_response_time,
                "p0": cl.get_response_time_percentile(0.0), "p50": cl.get_response_time_percentile(0.5),
                "p99": cl.get_response_time_percentile(0.99), "p100": cl.get_response_time_percentile(1.0),
                "cb": dict(r), "over": dict(p.over), "generated": p.generated})
            sources.append(mk(rate=c["rate"], name=f"src{i}", event_provider=prov))
            for t_ms, n in bursts:
                for _j in range(n):
                    pre.append(prov.make(T(t_ms / 1000.0)))

    sim = Simulation(end_time=T(end), sources=sources, entities=entities)
    for e in pre:
        sim.schedule(e)
    return sim, obs
