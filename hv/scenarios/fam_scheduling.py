"""Scheduling: JobScheduler(s) driving a DAG of string-named jobs (priorities with ties / negative / large, intervals
below / equal to / above / not a multiple of the tick, interval 0, dependencies incl. diamonds, a missing dependency, a
two-job cycle and a self-dependency, targets that take non-zero time, instant targets, a hanging run, several jobs
becoming ready at the same tick, disable/enable, remove/re-add, stop/start, stop+start at one instant) and
WorkStealingPool(s) (1-16 workers, uneven task sizes from several distributions, bursts at one instant, tasks
without a size key, an optional second pool chained behind the first, jobs that feed the pool directly or fan
tasks out into it).  Everything runs under the engine through Sources, the scheduler's own tick loop and small
harness entities.

Configuration space:
  * every duration (tick interval, job interval, job run times, chaos times, scheduler start time, burst times, task
    sizes, server time) comes from the boundary palette `dur_ms`: tick intervals of 5 ms ... 2.1 s incl. values that
    lose a nanosecond as seconds (1.001 s, 2.05 s), job intervals above one second (lossy), intervals that are 0.5 /
    1.5 / 0.999 / 1.001 ticks, run times longer than the job's own interval and longer than the tick, zero run times;
    a tick interval below one nanosecond is rejected by the constructor (fix 90821de) and never generated;
  * 1-8 jobs per scheduler; "clones": the same job set under further schedulers that differ only in the tick interval
    (bank of tick variants inside one scenario);
  * WorkStealingPool: every constructor parameter (num_workers 1 ... 16, downstream present / None,
    processing_time_key, default_processing_time incl. 0); "bank": further pools with other num_workers / downstream /
    default that receive a copy of every source task and burst; utilisation 0.3 ... 4.0 (sustained overload: queues
    only grow), all tasks without a size key, half of the tasks with zero size, bursts of up to 200 same-instant tasks;
  * occasional long runs (8-12 s).
Neither component has a hard-coded internal size constant (no maxlen / history cap / steal batch size: a thief takes
exactly one task from the tail of the longest deque, deterministically, no RNG), so there is nothing to exceed with
`size_over`; queue depths reach several hundred in the overload regimes.
"""
from __future__ import annotations

import random

from hv.scenarios.base import T, dur_ms, seed_all, stats_of, sub_seed

NAME = "scheduling"
MODEL = None
COMPONENTS = ["JobScheduler", "JobDefinition", "WorkStealingPool", "_Worker", "Source", "Server"]

JOB_NAMES = ["extract", "transform", "load", "report", "index-users", "compact", "backup", "email-17",
             "agg-3", "k3", "user-17", "vacuum", "rollup", "export"]
LAYOUTS = ["chain", "fanout", "fanin", "diamond", "random", "flat", "two-chains"]
DISTS = ["bimodal", "uniform", "exp", "const", "pareto", "palette"]


# ------------------------------------------------------------------------------------------------ cfg
def _deps(layout, i, names, rng):
    """dependencies of job i among the earlier jobs names[:i]"""
    if i == 0 or layout == "flat":
        return []
    if layout == "chain":
        return [names[i - 1]]
    if layout == "fanout":
        return [names[0]]
    if layout == "fanin":
        return list(names[:i]) if i == len(names) - 1 else []
    if layout == "diamond":
        if i == len(names) - 1:
            return list(names[1:i]) or [names[0]]
        return [names[0]]
    if layout == "two-chains":
        return [names[i - 2]] if i >= 2 else []
    k = rng.randint(0, min(3, i))
    return sorted(rng.sample(names[:i], k))


def _r3(x):
    """keep derived durations JSON-neat (at most 3 decimals of a ms); ints stay ints"""
    return int(x) if float(x).is_integer() else round(float(x), 3)


def _gen_tick(rng, end_ms):
    """tick interval in ms from the boundary palette; at most ~300 ticks per scheduler and run.
    (Below one nanosecond the constructor rejects the interval since /repo 90821de: never generated.)"""
    lo = max(5, -(-end_ms // 300))
    band = rng.choice(["fine", "fine", "mid", "mid", "coarse", "lossy"])
    if band == "fine":
        return dur_ms(rng, lo, max(lo, 50))
    if band == "mid":
        return dur_ms(rng, max(lo, 50), 300)
    if band == "coarse":
        return dur_ms(rng, 300, 1500)
    return dur_ms(rng, 1001, 2100)          # mostly values that lose a nanosecond as seconds (1.001, 2.05)


def _gen_interval(rng, tick):
    r = rng.random()
    if r < 0.04:
        return 0                              # due at every tick
    if r < 0.10:
        return 1                              # far below the tick
    if r < 0.30:
        return _r3(tick * rng.choice([1, 1, 2, 3]))
    if r < 0.40:
        return _r3(tick * rng.choice([0.5, 1.5, 2.5, 0.999, 1.001]))   # not a multiple of the tick
    if r < 0.55:
        return dur_ms(rng, 5, 400)
    if r < 0.75:
        return dur_ms(rng, 100, 1500)
    if r < 0.90:
        return dur_ms(rng, 1001, 2500)        # above one second, often lossy (1.001 s, 2.05 s)
    return dur_ms(rng, 300, 1000)


def _gen_delay(rng, tick, interval):
    """run time of a job: below / equal to / above the tick and the job's own interval"""
    r = rng.random()
    if r < 0.05:
        return 0
    if r < 0.30:
        return rng.choice([1, 2, 5])
    if r < 0.55:
        return dur_ms(rng, 1, 60)
    if r < 0.65:
        return dur_ms(rng, 20, 300)
    if r < 0.78:
        return _r3(tick * rng.choice([1, 1, 2, 0.5]))
    if r < 0.90:
        return _r3(max(1, interval) * rng.choice([1, 1.5, 3]))        # as long as / longer than the interval
    return dur_ms(rng, 1001, 2100)


def _gen_sched(rng, tag, end_ms):
    n = rng.choice([1, 2, 3, 4, 5, 6, 7, 8, 3, 4, 5, 6])
    names = rng.sample(JOB_NAMES, n)
    layout = rng.choice(LAYOUTS)
    tick = _gen_tick(rng, end_ms)
    n_workers = rng.randint(1, n)
    jobs = []
    for i, nm in enumerate(names):
        kind = rng.choice(["gen", "gen", "gen", "gen", "instant", "pool", "server"])
        deps = _deps(layout, i, names, rng)
        if i >= n - 2 and rng.random() < 0.08:
            deps = deps + ["ghost-job"]          # dependency that is never registered
        interval = _gen_interval(rng, tick)
        jobs.append({
            "name": nm,
            # few values => ties between jobs due at the same tick; sometimes negative / large
            "prio": rng.choice([0, 1, 2, 3, 0, 1, 2, 3, -1, 100]),
            "interval_ms": interval,
            "deps": deps,
            "kind": kind,
            "worker": rng.randint(0, n_workers - 1),
            "delays_ms": [_gen_delay(rng, tick, interval) for _ in range(rng.randint(1, 4))],
            "hang_at": rng.randint(2, 6) if rng.random() < 0.1 else None,
            "fanout": rng.choice([0, 0, 0, 1, 3, 6]),
            "size_ms": dur_ms(rng, 1, 80),
            "enabled": rng.random() < 0.93,
        })
    if n >= 2 and rng.random() < 0.06:           # two jobs waiting for each other: neither ever runs
        jobs[0]["deps"] = jobs[0]["deps"] + [names[1]]
        jobs[1]["deps"] = jobs[1]["deps"] + [names[0]]
    if rng.random() < 0.05:                      # a job that depends on itself
        jb = rng.choice(jobs)
        jb["deps"] = jb["deps"] + [jb["name"]]
    chaos = []
    for _ in range(rng.randint(0, 3)):
        j = rng.choice(names)
        t1 = dur_ms(rng, 100, end_ms - 600)
        t2 = _r3(t1 + rng.choice([_r3(tick / 2), tick, _r3(3 * tick), dur_ms(rng, 50, 500)]))
        op = rng.choice(["disable", "remove", "stop", "restart"])
        chaos.append([t1, op, j])
        if op != "restart":
            chaos.append([t2, {"disable": "enable", "remove": "readd", "stop": "start"}[op], j])
    if not all(jb["enabled"] for jb in jobs):
        for jb in jobs:
            if not jb["enabled"]:
                chaos.append([dur_ms(rng, 200, end_ms - 500), "enable", jb["name"]])
    chaos.sort(key=lambda c: c[0])
    # the same job set under further schedulers that differ only in the tick interval (bank of tick variants)
    clones = []
    if rng.random() < 0.45:
        clones = [_gen_tick(rng, end_ms) for _ in range(rng.choice([1, 2]))]
    return {"name": tag, "tick_ms": tick, "layout": layout, "jobs": jobs, "chaos": chaos,
            "start_ms": rng.choice([0, 0, 0, 3, 50, dur_ms(rng, 1, 1500)]), "clones": clones}


def _gen_dist(rng, mean_ms):
    kind = rng.choice(DISTS)
    m = max(1, int(mean_ms))
    if kind == "bimodal":
        slow_pct = rng.choice([5, 10, 20])
        fast = max(1, m // rng.choice([2, 3, 5]))
        slow = max(fast + 1, int((m * 100 - fast * (100 - slow_pct)) / slow_pct))
        return {"kind": kind, "fast_ms": fast, "slow_ms": slow, "slow_pct": slow_pct}
    if kind == "uniform":
        return {"kind": kind, "lo_ms": 1, "hi_ms": max(2, 2 * m - 1)}
    if kind == "exp":
        return {"kind": kind, "mean_ms": m}
    if kind == "const":
        return {"kind": kind, "ms": dur_ms(rng, max(1, m // 2), max(2, 2 * m))}
    if kind == "palette":                      # a few boundary-palette task times, incl. 0 and (rarely) above 1 s
        pal = [dur_ms(rng, 1, max(2, 2 * m), zero=True) for _ in range(rng.randint(1, 4))]
        if rng.random() < 0.2:
            pal.append(dur_ms(rng, 1001, 2100))
        return {"kind": kind, "ms": pal}
    return {"kind": kind, "scale_ms": max(1, m // 3), "alpha": rng.choice([1.5, 2.0, 3.0]), "cap_ms": 20 * m}


def _gen_pool(rng, end_ms):
    workers = rng.choice([1, 2, 2, 3, 3, 4, 4, 5, 5, 8, 16])
    chain_workers = rng.choice([0, 0, 2, 3, 1])     # >0: a second pool behind the first one
    # further pools that receive a copy of every source task (bank of num_workers / downstream / default variants)
    bank = []
    if rng.random() < 0.5:
        for w in rng.sample([1, 2, 3, 4, 6, 8], rng.choice([1, 2, 2])):
            bank.append({"workers": w, "downstream": rng.random() < 0.7,
                         "default_ms": rng.choice([0, 1, dur_ms(rng, 1, 50)])})
    sources = []
    for _ in range(rng.randint(1, 3)):
        sources.append({"rate": rng.choice([10, 20, 40, 80, 120]), "poisson": rng.random() < 0.5,
                        "batch": rng.choice([1, 1, 1, 2, 4])})

    def total_rate():
        return sum(s["rate"] * s["batch"] for s in sources)

    # about 6 deliveries per task and pool; keep the pool side below ~7000 deliveries
    mult = 6 * (1 + (1 if chain_workers else 0) + len(bank))
    while total_rate() * (end_ms - 500) / 1000.0 * mult > 7000:
        big = max(sources, key=lambda s: s["rate"] * s["batch"])
        if big["batch"] > 1:
            big["batch"] //= 2
        elif big["rate"] > 2:
            big["rate"] //= 2
        else:
            break
    total = total_rate()
    # 0.3-0.85 light, 1.0 critical, 1.3-4.0 sustained overload (queues only grow, nothing is ever stolen)
    util = rng.choice([0.3, 0.6, 0.85, 1.0, 1.3, 2.0, 4.0])
    mean_ms = util * workers * 1000.0 / total
    for s in sources:
        s["dist"] = _gen_dist(rng, mean_ms * rng.choice([0.5, 1.0, 1.0, 2.0]))
        s["nokey_pct"] = rng.choice([0, 0, 10, 30, 100])
    bursts = []
    for _ in range(rng.choice([0, 1, 1, 2])):
        bursts.append([dur_ms(rng, 1, end_ms - 300, zero=True), rng.choice([5, 12, 40, 100, 200])])
    return {
        "workers": workers,
        "key": rng.choice(["processing_time", "processing_time", "cost"]),
        "default_ms": rng.choice([0, max(1, int(mean_ms)), max(1, int(mean_ms)), dur_ms(rng, 1, max(2, 2 * mean_ms))]),
        "sources": sources,
        "zero_pct": rng.choice([0, 0, 0, 2, 50]),
        "chain_workers": chain_workers,
        "burst": None,                            # old-shape single burst [t_ms, n]; new cfgs use "bursts"
        "bursts": bursts,
        "bank": bank,
        "downstream": rng.random() < 0.85,        # False: pool without downstream (completions go nowhere)
    }


def gen_cfg(rng):
    end = rng.choice([2.0, 3.0, 4.0, 5.0])
    if rng.random() < 0.1:
        end = rng.choice([8.0, 10.0, 12.0])
    end_ms = int(end * 1000)
    scheds = [_gen_sched(rng, "cron", end_ms)]
    if rng.random() < 0.4:
        scheds.append(_gen_sched(rng, "cron-b", end_ms))
    pool = _gen_pool(rng, end_ms)
    # keep the task load that the jobs put on the pool below ~25% of its capacity (the Sources provide the rest),
    # otherwise every worker is permanently backlogged and nothing is ever stolen
    load = 0.0
    for sc in scheds:
        for tick in [sc["tick_ms"]] + sc["clones"]:
            for jb in sc["jobs"]:
                eff = max(jb["interval_ms"], tick)
                if eff < 50:
                    jb["fanout"] = min(jb["fanout"], 1)
                if jb["kind"] == "pool":
                    load += jb["size_ms"] / eff
                if jb["kind"] in ("gen", "instant"):
                    load += sum(jb["size_ms"] * (1 + f) for f in range(jb["fanout"])) / eff
    budget = 0.25 * pool["workers"]
    if load > budget:
        for sc in scheds:
            for jb in sc["jobs"]:
                jb["size_ms"] = max(1, _r3(jb["size_ms"] * budget / load))
    return {"end": end, "scheds": scheds, "pool": pool, "srv_ms": dur_ms(rng, 1, 60),
            "srv_conc": rng.randint(1, 2)}


def gen_cfg_wide(rng):
    """maximum-coverage configuration for the pool side: several idle workers looking for work at the SAME instant (constant
    task times, same-instant batches, light load so that deques run empty and workers steal), a chained pool and a bank"""
    cfg = gen_cfg(rng)
    pool = cfg["pool"]
    pool["workers"] = rng.choice([3, 4, 5, 8])
    pool["chain_workers"] = rng.choice([2, 3])
    pool["bank"] = [{"workers": w, "downstream": True, "default_ms": rng.choice([1, dur_ms(rng, 1, 50)])}
                    for w in rng.sample([2, 3, 4, 6], 2)]
    ms = rng.choice([5, 10, 20, 40])
    pool["sources"] = [{"rate": rng.choice([5, 10, 20]), "poisson": False, "batch": rng.choice([2, 3, 4, 5]),
                        "dist": {"kind": "const", "ms": ms}, "nokey_pct": rng.choice([0, 30])},
                       {"rate": rng.choice([5, 10]), "poisson": rng.random() < 0.5, "batch": 1,
                        "dist": {"kind": "palette", "ms": [ms, 2 * ms, 0]}, "nokey_pct": 0}]
    pool["default_ms"] = ms
    pool["zero_pct"] = rng.choice([0, 2])
    pool["bursts"] = [[dur_ms(rng, 1, 1500), rng.choice([5, 7, 12])]]
    return cfg


# ------------------------------------------------------------------------------------------------ build
def build(cfg, seed):
    from happysimulator.components.scheduling import JobDefinition, JobScheduler, WorkStealingPool
    from happysimulator.components.server import Server
    from happysimulator.core.entity import Entity
    from happysimulator.core.event import Event
    from happysimulator.core.simulation import Simulation
    from happysimulator.distributions import ConstantLatency
    from happysimulator.load.event_provider import EventProvider
    from happysimulator.load.source import Source

    seed_all(seed)
    end = cfg["end"]
    stop = T(end - 0.5)
    pc = cfg["pool"]
    key = pc["key"]

    # ---------------------------------------------------------------- pool side
    class DoneSink(Entity):
        """records the completion order of tasks"""

        def __init__(self, name):
            super().__init__(name)
            self.order = []
            self.times = []

        def handle_event(self, event):
            md = event.context.get("metadata", {})
            self.order.append(md.get("task_id", md.get("_job_name", "?")))
            self.times.append(self.now.nanoseconds)
            return None

        def stats(self):
            return {"n": len(self.order), "order": list(self.order), "first_t": self.times[:10],
                    "last_t": self.times[-5:]}

    sink = DoneSink("done")
    pools = []
    last_down = sink if pc.get("downstream", True) else None
    if pc["chain_workers"]:
        pool2 = WorkStealingPool("pool-b", num_workers=pc["chain_workers"], downstream=last_down,
                                 processing_time_key=key, default_processing_time=pc["default_ms"] / 2000.0)
        pool = WorkStealingPool("pool-a", num_workers=pc["workers"], downstream=pool2,
                                processing_time_key=key, default_processing_time=pc["default_ms"] / 1000.0)
        pools = [pool, pool2]
    else:
        pool = WorkStealingPool("pool-a", num_workers=pc["workers"], downstream=last_down,
                                processing_time_key=key, default_processing_time=pc["default_ms"] / 1000.0)
        pools = [pool]
    # bank: further pools (other num_workers / no downstream / other default time) that get a copy of every source task
    bank_sinks = []
    bank_pools = []
    for bi, bc in enumerate(pc.get("bank", [])):
        bsink = DoneSink(f"done-k{bi}") if bc["downstream"] else None
        bp = WorkStealingPool(f"pool-k{bi}", num_workers=bc["workers"], downstream=bsink,
                              processing_time_key=key, default_processing_time=bc["default_ms"] / 1000.0)
        bank_pools.append(bp)
        pools.append(bp)
        if bsink is not None:
            bank_sinks.append(bsink)

    def draw(rng, d):
        k = d["kind"]
        if k == "bimodal":
            return (d["slow_ms"] if rng.randrange(100) < d["slow_pct"] else d["fast_ms"]) / 1000.0
        if k == "uniform":
            return rng.randint(d["lo_ms"], d["hi_ms"]) / 1000.0
        if k == "exp":
            return rng.expovariate(1000.0 / d["mean_ms"])
        if k == "const":
            return d["ms"] / 1000.0
        if k == "palette":
            return rng.choice(d["ms"]) / 1000.0
        return min(d["cap_ms"], d["scale_ms"] * rng.paretovariate(d["alpha"])) / 1000.0

    class Tasks(EventProvider):
        def __init__(self, tag, sc, rng):
            self.tag, self.sc, self.rng = tag, sc, rng
            self.generated = 0

        def get_events(self, time):
            if time > stop:
                return []
            out = []
            for _ in range(self.sc["batch"]):
                self.generated += 1
                md = {"task_id": f"{self.tag}-task-{self.generated}"}
                size = draw(self.rng, self.sc["dist"])
                if self.rng.randrange(100) < pc["zero_pct"]:
                    size = 0.0
                if self.rng.randrange(100) >= self.sc["nokey_pct"]:
                    md[key] = size
                out.append(Event(time=time, event_type="Task", target=pool,
                                 context={"created_at": time, "metadata": md}))
                for bp in bank_pools:
                    out.append(Event(time=time, event_type="Task", target=bp,
                                     context={"created_at": time, "metadata": dict(md)}))
            return out

    sources, providers = [], []
    for i, sc in enumerate(pc["sources"]):
        prov = Tasks(f"s{i}", sc, random.Random(sub_seed(seed, "tasks", i)))
        providers.append(prov)
        mk = Source.poisson if sc["poisson"] else Source.constant
        sources.append(mk(rate=sc["rate"], name=f"tasks{i}", event_provider=prov))

    server = Server("shared-srv", concurrency=cfg["srv_conc"], service_time=ConstantLatency(cfg["srv_ms"] / 1000.0))

    # ---------------------------------------------------------------- scheduler side
    joblog = []          # [phase, time ns, scheduler, job] in execution order

    class JobWorker(Entity):
        """target of scheduled jobs: takes the job's configured time (generator) or completes instantly;
        optionally fans tasks out into the pool when the job finishes"""

        def __init__(self, name):
            super().__init__(name)
            self.specs = {}
            self.runs = {}
            self.started = 0
            self.finished = 0

        def handle_event(self, event):
            md = event.context.get("metadata", {})
            jn, sn = md.get("_job_name", "?"), md.get("_scheduler", "?")
            spec = self.specs[(sn, jn)]
            k = self.runs[(sn, jn)] = self.runs.get((sn, jn), 0) + 1
            self.started += 1
            joblog.append(["start", self.now.nanoseconds, sn, jn])
            if spec["kind"] == "instant":
                return self._finish(spec, sn, jn, k)
            return self._work(spec, sn, jn, k)

        def _work(self, spec, sn, jn, k):
            d = spec["delays_ms"][(k - 1) % len(spec["delays_ms"])] / 1000.0
            if spec["hang_at"] == k:
                d = 1000.0          # this run never finishes inside the simulation
            yield d
            return self._finish(spec, sn, jn, k)

        def _finish(self, spec, sn, jn, k):
            self.finished += 1
            joblog.append(["end", self.now.nanoseconds, sn, jn])
            out = []
            for f in range(spec["fanout"]):
                md = {"task_id": f"{sn}/{jn}#{k}.{f}", key: spec["size_ms"] * (1 + f) / 1000.0}
                out.append(Event(time=self.now, event_type="Task", target=pool,
                                 context={"created_at": self.now, "metadata": md}))
            return out or None

        def stats(self):
            return {"started": self.started, "finished": self.finished,
                    "runs": sorted([f"{s}/{j}", n] for (s, j), n in self.runs.items())}

    class Chaos(Entity):
        """applies the scheduler's public management API at configured times"""

        def __init__(self, name, sched, defs):
            super().__init__(name)
            self.sched, self.defs = sched, defs
            self.applied = []

        def handle_event(self, event):
            op, j = event.context["op"], event.context["job"]
            s = self.sched
            self.applied.append([self.now.nanoseconds, op, j])
            if op == "disable":
                s.disable_job(j)
            elif op == "enable":
                s.enable_job(j)
            elif op == "remove":
                s.remove_job(j)
            elif op == "readd":
                if j not in s.job_names:
                    s.add_job(self.defs[j])
            elif op == "stop":
                s.stop()
            elif op == "restart":          # stop and start again at the same instant
                s.stop()
                return [s.start()]
            elif op == "start":
                if not s.is_running:
                    return [s.start()]
            return None

    entities = [*pools, sink, *bank_sinks, server]
    for p in pools:
        entities.extend(p.workers)
    pre = []
    obs = {}
    scheds = []

    def _ns(t):
        return None if t is None else t.nanoseconds

    variants = []
    for sc in cfg["scheds"]:
        variants.append((sc["name"], sc.get("tick_s") or sc["tick_ms"] / 1000.0, sc))
        for ci, t_ms in enumerate(sc.get("clones", [])):     # same jobs, other tick interval
            variants.append((f"{sc['name']}~{ci}", t_ms / 1000.0, sc))
    for sn, tick_s, sc in variants:
        # "tick_s" is never generated (gen_cfg stays on the ms grid); it lets a caller replay the sub-nanosecond
        # tick interval case (tick_interval=1e-10 passes the `> 0` validation, becomes a 0 ns Duration and the
        # tick loop spins at a frozen clock)
        sched = JobScheduler(sn, tick_interval=tick_s)
        workers = {}
        defs = {}
        for jb in sc["jobs"]:
            if jb["kind"] in ("gen", "instant"):
                wname = f"{sn}.w{jb['worker']}"
                w = workers.get(wname)
                if w is None:
                    w = workers[wname] = JobWorker(wname)
                w.specs[(sn, jb["name"])] = jb
                target, ctx = w, {"job_tag": jb["name"]}
            elif jb["kind"] == "pool":
                target, ctx = pool, {"metadata": {key: jb["size_ms"] / 1000.0}}
            else:
                target, ctx = server, {"metadata": {"via": "server"}}
            jd = JobDefinition(name=jb["name"], target=target, event_type=f"Run:{jb['name']}",
                               interval=jb["interval_ms"] / 1000.0, priority=jb["prio"],
                               depends_on=list(jb["deps"]), context=ctx, enabled=jb["enabled"])
            defs[jb["name"]] = jd
            sched.add_job(jd)
        chaos = Chaos(f"{sn}.chaos", sched, defs)
        for (t_ms, op, j) in sc["chaos"]:
            pre.append(Event(time=T(t_ms / 1000.0), event_type="Chaos", target=chaos,
                             context={"op": op, "job": j}))
        entities.extend([sched, chaos, *workers.values()])
        scheds.append((sched, sc))
        names = sorted(jb["name"] for jb in sc["jobs"])

        def job_states(sched=sched, names=names):
            out = []
            for nm in names:
                st = sched.get_job_state(nm)
                if st is None:
                    out.append([nm, None])
                else:
                    out.append([nm, {"runs": st.run_count, "fail": st.failure_count, "running": st.is_running,
                                     "last_run": _ns(st.last_run_time), "last_done": _ns(st.last_completion_time)}])
            return out

        obs[sn] = stats_of(sched)
        obs[sn + ".jobs"] = job_states
        obs[sn + ".state"] = (lambda sched=sched: {"names": sched.job_names, "running": sched.running_jobs,
                                                   "is_running": sched.is_running, "tick": sched.tick_interval})
        obs[sn + ".chaos"] = (lambda chaos=chaos: list(chaos.applied))
        for wname in sorted(workers):
            obs[wname] = workers[wname].stats

    sim = Simulation(end_time=T(end), sources=sources, entities=entities)
    for sched, sc in scheds:
        ev = sched.start()
        if sc["start_ms"]:
            ev.time = T(sc["start_ms"] / 1000.0)
        pre.append(ev)
    if pc["burst"]:
        t_ms, n = pc["burst"]
        brng = random.Random(sub_seed(seed, "burst"))
        d0 = pc["sources"][0]["dist"]
        for b in range(n):      # n tasks submitted at the same instant
            pre.append(Event(time=T(t_ms / 1000.0), event_type="Task", target=pool,
                             context={"created_at": T(t_ms / 1000.0),
                                      "metadata": {"task_id": f"burst-{b}", key: draw(brng, d0)}}))
    for bj, (t_ms, n) in enumerate(pc.get("bursts", [])):
        if t_ms / 1000.0 >= end:
            continue
        brng = random.Random(sub_seed(seed, "bursts", bj))
        d0 = pc["sources"][bj % len(pc["sources"])]["dist"]
        for b in range(n):      # n tasks submitted to every pool of the bank at the same (sometimes lossy) instant
            size = draw(brng, d0)
            for p in [pool, *bank_pools]:
                pre.append(Event(time=T(t_ms / 1000.0), event_type="Task", target=p,
                                 context={"created_at": T(t_ms / 1000.0),
                                          "metadata": {"task_id": f"burst{bj}-{b}", key: size}}))
    for e in pre:
        sim.schedule(e)

    obs["joblog"] = lambda: {"n": len(joblog), "log": list(joblog)}
    obs["done"] = sink.stats
    for bs in bank_sinks:
        obs[bs.name] = bs.stats
    obs["server"] = stats_of(server)
    obs["server.q"] = lambda: {"acc": server.stats_accepted, "drop": server.stats_dropped, "depth": server.depth}
    obs["sources"] = lambda: [[s.name, s.generated_count] for s in sources] + [[p.tag, p.generated] for p in providers]
    for p in pools:
        obs[p.name] = stats_of(p)
        obs[p.name + ".n"] = (lambda p=p: p.num_workers)
        obs[p.name + ".workers"] = (lambda p=p: [
            {"name": w.name, "completed": ws.tasks_completed, "stolen": ws.tasks_stolen,
             "busy": ws.total_processing_time, "idle": ws.idle_time, "depth": w.queue_depth}
            for w, ws in zip(p.workers, p.worker_stats)])
    return sim, obs
