"""python -m hv.scenarios.subrun  (request JSON on stdin, one JSON line on stdout)

Runs every requested scenario in THIS fresh interpreter (its PYTHONHASHSEED is set by the caller)
and prints `[{"sha":…, "len":…, "lines": […]|null}, …]`; `lines` only for indices in `full`.
"""
import json
import sys


def main():
    req = json.loads(sys.stdin.read())
    repo = req.get("repo") or "/repo"
    if repo not in sys.path:
        sys.path.insert(0, repo)
    from hv.scenarios.digest import sha
    from hv.scenarios.envs import digest_inproc

    out = []
    full = set(req.get("full") or [])
    for i, sc in enumerate(req["scenarios"]):
        try:
            lines = digest_inproc(sc)
        except Exception as e:  # building the scenario failed in this interpreter: that is an observation too
            lines = [f"BUILD-ERROR {type(e).__name__}"]
        out.append({"sha": sha(lines), "len": len(lines), "lines": lines if i in full else None})
    sys.stdout.write(json.dumps(out) + "\n")


if __name__ == "__main__":
    main()
