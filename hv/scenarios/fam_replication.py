"""Replication: three groups on one `Network` (latencies / jitter / loss from cfg), all written concurrently by
3–6 clients on overlapping string keys ("user-3", "k1"…):
  * `PrimaryNode` + 1–3 `BackupNode`s in ASYNC / SEMI_SYNC / SYNC mode, reads from the primary and stale reads
    from backups, a partition window between the primary and one backup (replication lag, blocked SYNC writes);
  * `build_chain` chain replication of 2–4 `ChainNode`s (plain and CRAQ), writes at the head, reads at the tail
    or (CRAQ) at any node, a partition inside the chain;
  * 2–4 `LeaderNode`s (multi-leader) with `LastWriterWins`, `VectorClockMerge` (with and without merge function)
    or `CustomResolver`, anti-entropy rounds, writers at every leader, a partition that heals."""
from __future__ import annotations

import random

from hv.scenarios.base import T, seed_all, stats_of, sub_seed

NAME = "replication"
MODEL = "C17"
COMPONENTS = ["PrimaryNode", "BackupNode", "ReplicationMode", "ChainNode", "build_chain", "LeaderNode",
              "LastWriterWins", "VectorClockMerge", "CustomResolver", "VersionedValue", "KVStore", "Network",
              "NetworkLink", "Partition", "SimFuture", "Source", "MerkleTree", "VectorClock"]


def gen_cfg(rng):
    end = rng.choice([2.0, 3.0, 4.0])
    end_ms = int(end * 1000)

    def win():
        a = rng.randint(300, end_ms - 1000)
        return [a, a + rng.randint(150, 700)]

    n_clients = rng.randint(3, 6)
    return {
        "end": end,
        "events_before_sim": rng.random() < 0.25,
        "link": rng.choice(["const", "exp", "exp-lossy", "datacenter", "jitter"]),
        "lat_ms": rng.randint(1, 30),
        "loss": rng.choice([0.02, 0.1]),
        "wlat_ms": rng.randint(1, 8),
        "rlat_ms": rng.randint(1, 4),
        "keys": rng.randint(2, 6),
        "timeout_ms": rng.choice([50, 200, 1000]),
        "clients": [{"rate": rng.choice([5, 10, 20, 40]), "poisson": rng.random() < 0.5,
                     "read_frac": rng.choice([0.0, 0.3, 0.6]), "wait": rng.random() < 0.7}
                    for _ in range(n_clients)],
        # primary-backup
        "pb_mode": rng.choice(["ASYNC", "SEMI_SYNC", "SYNC"]),
        "pb_backups": rng.randint(1, 3),
        "pb_serve_reads": rng.random() < 0.8,
        "pb_part": win() if rng.random() < 0.6 else None,
        # chain
        "chain_len": rng.randint(2, 4),
        "craq": rng.random() < 0.5,
        "chain_part": win() if rng.random() < 0.4 else None,
        # multi-leader
        "ml_n": rng.randint(2, 4),
        "resolver": rng.choice(["lww", "vc", "vc-merge", "custom-max", "custom-first"]),
        "ae_ms": rng.choice([0, 100, 300, 700]),
        "ml_part": win() if rng.random() < 0.7 else None,
    }


def build(cfg, seed):
    from happysimulator.components.datastore.kv_store import KVStore
    from happysimulator.components.network import Network, NetworkLink, datacenter_network
    from happysimulator.components.replication import (BackupNode, CustomResolver, LastWriterWins, LeaderNode,
                                                       PrimaryNode, ReplicationMode, VectorClockMerge, build_chain)
    from happysimulator.core.entity import Entity
    from happysimulator.core.event import Event
    from happysimulator.core.sim_future import SimFuture, any_of
    from happysimulator.core.simulation import Simulation
    from happysimulator.core.temporal import Instant
    from happysimulator.distributions import ConstantLatency, ExponentialLatency
    from happysimulator.load.source import Source

    seed_all(seed)

    def _d(factory, **kw):
        """a pre-run event, constructed either before or after `Simulation(...)` (cfg['events_before_sim'])"""
        return factory, kw
    end = cfg["end"]
    net = Network(name="repl-net")

    def mk_link(name):
        lat = cfg["lat_ms"] / 1000.0
        k = cfg["link"]
        if k == "datacenter":
            return datacenter_network(name)
        if k == "const":
            return NetworkLink(name=name, latency=ConstantLatency(lat))
        if k == "exp":
            return NetworkLink(name=name, latency=ExponentialLatency(lat))
        if k == "jitter":
            return NetworkLink(name=name, latency=ConstantLatency(lat), jitter=ExponentialLatency(lat / 2))
        return NetworkLink(name=name, latency=ExponentialLatency(lat), packet_loss_rate=cfg["loss"])

    def mesh(nodes):
        for i, a in enumerate(nodes):
            for b in nodes[i + 1:]:
                net.add_bidirectional_link(a, b, mk_link(f"l-{a.name}-{b.name}"))

    def store(name):
        return KVStore(name, write_latency=cfg["wlat_ms"] / 1000.0, read_latency=cfg["rlat_ms"] / 1000.0)

    def at_s(ms):
        return Instant.from_seconds(ms / 1000.0)

    entities = [net]
    pre = []
    obs = {}

    def window(win, a_nodes, b_nodes, tag):
        if not win:
            return
        h = {}
        pre.append(_d(Event.once, time=at_s(win[0]), event_type=f"Partition-{tag}",
                              fn=lambda e: h.__setitem__("h", net.partition(a_nodes, b_nodes))))
        pre.append(_d(Event.once, time=at_s(win[1]), event_type=f"Heal-{tag}", fn=lambda e: h["h"].heal()))

    # ------------------------------------------------------------------ primary-backup
    p_store = store("pb-store-primary")
    b_stores = [store(f"pb-store-{i}") for i in range(cfg["pb_backups"])]
    backups = []
    primary = PrimaryNode("primary", store=p_store, backups=backups, network=net,
                          mode=ReplicationMode[cfg["pb_mode"]])
    for i in range(cfg["pb_backups"]):
        backups.append(BackupNode(f"backup-{i}", store=b_stores[i], network=net, primary=primary,
                                  serve_reads=cfg["pb_serve_reads"]))
    # (the primary keeps the list object it was given, which now holds the backups; its lag table fills lazily)
    mesh([primary, *backups])
    entities += [primary, *backups, p_store, *b_stores]
    window(cfg["pb_part"], [primary], [backups[-1]], "pb")

    # ------------------------------------------------------------------ chain
    chain = build_chain([f"chain-{i}" for i in range(cfg["chain_len"])], net, store_factory=store,
                        craq_enabled=cfg["craq"])
    mesh(chain)
    entities += chain + [c.store for c in chain]
    window(cfg["chain_part"], [chain[0]], [chain[-1]], "chain")

    # ------------------------------------------------------------------ multi-leader
    def resolver():
        r = cfg["resolver"]
        if r == "lww":
            return LastWriterWins()
        if r == "vc":
            return VectorClockMerge()
        if r == "vc-merge":
            return VectorClockMerge(merge_fn=lambda key, a, b: a if str(a.value) >= str(b.value) else b)
        if r == "custom-max":
            return CustomResolver(lambda key, versions: max(versions, key=lambda v: (str(v.value), v.writer_id)))
        return CustomResolver(lambda key, versions: min(versions, key=lambda v: (v.timestamp, v.writer_id)))

    leaders = [LeaderNode(f"leader-{r}", store=store(f"ml-store-{r}"), network=net, conflict_resolver=resolver(),
                          anti_entropy_interval=cfg["ae_ms"] / 1000.0)
               for r in ["east", "west", "eu", "ap"][: cfg["ml_n"]]]
    for ld in leaders:
        ld.add_peers([x for x in leaders if x is not ld])
    mesh(leaders)
    entities += leaders + [ld.store for ld in leaders]
    if cfg["ae_ms"]:
        for ld in leaders:
            pre.append(_d(Event, time=at_s(cfg["ae_ms"]), event_type="AntiEntropy", target=ld, daemon=True))
    window(cfg["ml_part"], [leaders[0]], leaders[1:], "ml")

    # ------------------------------------------------------------------ clients
    class Client(Entity):
        def __init__(self, i, cc):
            super().__init__(f"client-{i}")
            self.i, self.cc = i, cc
            self.rng = random.Random(sub_seed(seed, "client", i))
            self.n = self.writes = self.reads = self.ok = self.timed_out = self.fire_forget = 0
            self.seen = []

        def handle_event(self, event):
            self.n += 1
            group = self.n % 3
            key = self.rng.choice(["user-", "k"]) + str(self.rng.randrange(cfg["keys"]))
            read = self.rng.random() < self.cc["read_frac"]
            if group == 0:
                tgt = primary
                if read and backups and self.rng.random() < 0.5:
                    tgt = self.rng.choice(backups)
            elif group == 1:
                tgt = chain[0]
                if read:
                    tgt = self.rng.choice(chain) if cfg["craq"] else chain[-1]
            else:
                tgt = leaders[(self.i + self.n // 3) % len(leaders)]
            md = {"key": key}
            if read:
                self.reads += 1
            else:
                self.writes += 1
                md["value"] = f"{self.name}:{self.n}"
            if not self.cc["wait"]:
                self.fire_forget += 1
                return [Event(time=self.now, event_type="Read" if read else "Write", target=tgt,
                              context={"metadata": md})]
            reply = SimFuture()
            md["reply_future"] = reply
            to = SimFuture()
            yield 0.0, [Event(time=self.now, event_type="Read" if read else "Write", target=tgt,
                              context={"metadata": md}),
                        Event.once(time=self.now + cfg["timeout_ms"] / 1000.0, event_type="ClientTimeout",
                                   fn=lambda e: to.resolve("timeout"))]
            idx, val = yield any_of(reply, to)
            if idx == 0:
                self.ok += 1
                if read and len(self.seen) < 30:
                    self.seen.append([tgt.name, key, val.get("value"), val.get("stale", False)])
            else:
                self.timed_out += 1
            return None

    clients = [Client(i, cc) for i, cc in enumerate(cfg["clients"])]
    entities += clients
    sources = []
    for i, cc in enumerate(cfg["clients"]):
        mk = Source.poisson if cc["poisson"] else Source.constant
        sources.append(mk(rate=cc["rate"], target=clients[i], event_type="Tick", name=f"src-client-{i}",
                          stop_after=end - 0.5))

    def contents(st):
        return sorted((k, st.get_sync(k)) for k in st.keys())

    obs["primary"] = stats_of(primary)
    obs["primary.x"] = lambda: {"lag": {k: v for k, v in primary.backup_lag.items() if not k.startswith("_")},
                                "mode": primary.mode.name, "data": contents(p_store)}
    for i, b in enumerate(backups):
        obs[b.name] = stats_of(b)
        obs[b.name + ".x"] = (lambda b=b, st=b_stores[i]: {"last": b.last_applied_seq, "data": contents(st)})
    for c in chain:
        obs[c.name] = stats_of(c)
        obs[c.name + ".x"] = (lambda c=c: {"role": c.role.name, "dirty": sorted(c.dirty_keys),
                                           "data": contents(c.store)})
    for ld in leaders:
        obs[ld.name] = stats_of(ld)
        obs[ld.name + ".x"] = (lambda ld=ld: {
            "data": contents(ld.store), "root": ld.merkle_tree.root_hash,
            "versions": sorted([k, v.value, v.timestamp, v.writer_id, sorted((v.vector_clock or {}).items())]
                               for k, v in ld.versions.items())})
    for cl in clients:
        obs[cl.name] = (lambda cl=cl: {"n": cl.n, "w": cl.writes, "r": cl.reads, "ok": cl.ok,
                                       "timeout": cl.timed_out, "ff": cl.fire_forget, "seen": cl.seen})
    obs["net"] = lambda: {"routed": net.events_routed, "no_route": net.events_dropped_no_route,
                          "partition": net.events_dropped_partition,
                          "matrix": [[s.source, s.destination, s.packets_sent, s.packets_dropped]
                                     for s in net.traffic_matrix()]}

    if cfg["events_before_sim"]:
        # as examples/distributed/{multi_leader_replication,flexible_paxos_quorums}.py do: the pre-run events are
        # constructed first, the Simulation afterwards
        evs = [f(**kw) for f, kw in pre]
        sim = Simulation(end_time=T(end), sources=sources, entities=entities)
    else:
        sim = Simulation(end_time=T(end), sources=sources, entities=entities)
        evs = [f(**kw) for f, kw in pre]
    for ev in evs:
        sim.schedule(ev)
    return sim, obs
