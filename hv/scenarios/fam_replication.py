"""Replication: three groups on one `Network` (latencies / jitter / loss from cfg), all written concurrently by
3–6 clients on overlapping string keys ("user-3", "k1"…):
  * `PrimaryNode` + 1–3 `BackupNode`s in ASYNC / SEMI_SYNC / SYNC mode, reads from the primary and stale reads
    from backups, a partition window between the primary and one backup (replication lag, blocked SYNC writes);
  * `build_chain` chain replication of 2–4 `ChainNode`s (plain and CRAQ), writes at the head, reads at the tail
    or (CRAQ) at any node, a partition inside the chain;
  * 2–4 `LeaderNode`s (multi-leader) with `LastWriterWins`, `VectorClockMerge` (with and without merge function)
    or `CustomResolver`, anti-entropy rounds, writers at every leader, a partition that heals.

Widened configuration space: one primary per `ReplicationMode` side by side (`pb_bank`) with 0–4 backups; a plain and a
CRAQ chain side by side (`chain_bank`), chains of 2–6 nodes, a hand-wired single-node chain (`ChainNode(role=HEAD)`),
writes sent to a non-head node; 1–5 leaders, the default resolver, one 2-leader group per resolver (`ml_bank`);
anti-entropy started by a hand-made event, by `get_anti_entropy_event()` before the run, or by it during the run, with
intervals from 20 ms to longer than the run and 0 (disabled); `KVStore` with `delete_latency`, a small `capacity`
(eviction), zero / sub-millisecond / 100 ms latencies (store write latency longer than the client timeout and than the
network hop), client timeouts of 1 ms … 1.5 s; lossless / zero-latency / 50 % / 100 % lossy links; bursts of same-instant
requests, sustained heavy load, read-only and write-only clients; partition windows on instants that lose a nanosecond
in `Instant.from_seconds`, windows that outlive the run; an occasional long run."""
from __future__ import annotations

import random

from hv.scenarios.base import T, dur_ms, seed_all, stats_of, sub_seed

NAME = "replication"
MODEL = "C17"
COMPONENTS = ["PrimaryNode", "BackupNode", "ReplicationMode", "ChainNode", "ChainNodeRole", "build_chain", "LeaderNode",
              "LastWriterWins", "VectorClockMerge", "CustomResolver", "VersionedValue", "KVStore", "Network",
              "NetworkLink", "Partition", "SimFuture", "Source", "MerkleTree", "VectorClock"]


def gen_cfg(rng):
    end = rng.choice([2.0, 3.0, 4.0]) if rng.random() > 0.1 else 8.0
    end_ms = int(end * 1000)
    long = end > 5

    def win():
        a = dur_ms(rng, 100, end_ms - 500)
        return [a, dur_ms(rng, a + 1, min(a + 1200, end_ms + 400))]

    def lat(lo, hi):
        r = rng.random()
        if r < 0.08:
            return 0
        return dur_ms(rng, lo, hi) if r < 0.8 else dur_ms(rng, hi, 150)

    heavy = rng.random() < 0.15
    n_clients = rng.randint(3, 6) if not heavy else rng.randint(1, 3)
    clients = [{"rate": rng.choice([5, 10, 20, 40]) if not heavy else rng.choice([100, 200, 300]),
                "poisson": rng.random() < 0.5,
                "read_frac": rng.choice([0.0, 0.3, 0.6, 1.0]), "wait": rng.random() < 0.7,
                "burst": rng.choice([1, 1, 1, 3, 12]) if not heavy else 1,
                "bad_head": rng.random() < 0.15}         # some chain writes go to a non-head node
               for _ in range(n_clients)]
    while sum(c["rate"] * c["burst"] for c in clients) * end > (1500 if not long else 1000):
        c = max(clients, key=lambda c: c["rate"] * c["burst"])
        if c["burst"] > 1:
            c["burst"] //= 2
        elif c["rate"] > 5:
            c["rate"] = max(5, c["rate"] // 2)
        else:
            break
    ml_bank = rng.random() < 0.4
    # 0 = periodic anti-entropy disabled (the constructor default)
    ae = 0 if rng.random() < 0.08 else rng.choice([dur_ms(rng, 20 if not long else 60, 400),
                                                   dur_ms(rng, 400, end_ms + 500)])
    return {
        "end": end,
        "events_before_sim": rng.random() < 0.25,
        "link": rng.choice(["const", "exp", "exp-lossy", "datacenter", "jitter", "zero", "const-lossy"]),
        "lat_ms": dur_ms(rng, 0.1, 30) if rng.random() < 0.7 else dur_ms(rng, 30, 600),
        "loss": rng.choice([0.0, 0.02, 0.1, 0.5, 1.0]),
        "wlat_ms": lat(0.1, 8),
        "rlat_ms": lat(0.1, 4),
        "dlat_ms": rng.choice([None, None, lat(0.1, 8)]),
        "capacity": rng.choice([None, None, None, None, 1, 2, 5]),
        "keys": rng.randint(1, 6) if rng.random() < 0.85 else 40,
        "timeout_ms": dur_ms(rng, 1, 1500),
        "clients": clients,
        # primary-backup
        "pb_bank": rng.random() < 0.6,             # one primary per ReplicationMode, same backups count
        "pb_mode": rng.choice(["ASYNC", "SEMI_SYNC", "SYNC"]),
        "pb_backups": rng.choice([0, 1, 1, 2, 2, 3, 4]),
        "pb_serve_reads": rng.random() < 0.8,
        "pb_part": win() if rng.random() < 0.6 else None,
        # chain
        "chain_len": rng.randint(2, 6),
        "craq": rng.random() < 0.5,
        "chain_bank": rng.random() < 0.5,          # a second chain with the other CRAQ setting
        "chain_solo": rng.random() < 0.3,          # plus a hand-wired single-node chain (HEAD without successor)
        "chain_part": win() if rng.random() < 0.4 else None,
        # multi-leader
        "ml_n": rng.randint(1, 5) if not ml_bank else 2,
        "ml_bank": ml_bank,                        # one group of ml_n leaders per resolver
        "resolver": rng.choice(["lww", "vc", "vc-merge", "custom-max", "custom-first", "default"]),
        "ae_ms": ae,
        "ae_start": rng.choice(["manual", "api", "api-late"]),
        "ae_late_ms": dur_ms(rng, 50, end_ms - 300),
        "ml_part": win() if rng.random() < 0.7 else None,
    }


def build(cfg, seed):
    from happysimulator.components.datastore.kv_store import KVStore
    from happysimulator.components.network import Network, NetworkLink, datacenter_network
    from happysimulator.components.replication import (BackupNode, ChainNode, ChainNodeRole, CustomResolver,
                                                       LastWriterWins, LeaderNode, PrimaryNode, ReplicationMode,
                                                       VectorClockMerge, build_chain)
    from happysimulator.core.entity import Entity
    from happysimulator.core.event import Event
    from happysimulator.core.sim_future import SimFuture, any_of
    from happysimulator.core.simulation import Simulation
    from happysimulator.core.temporal import Instant
    from happysimulator.distributions import ConstantLatency, ExponentialLatency
    from happysimulator.load.source import Source

    seed_all(seed)

    def _d(factory, **kw):
        """a pre-run event, constructed either before or after `Simulation(...)` (cfg['events_before_sim'])"""
        return factory, kw
    end = cfg["end"]
    net = Network(name="repl-net")

    def mk_link(name):
        lat = cfg["lat_ms"] / 1000.0
        k = cfg["link"]
        if k == "datacenter":
            return datacenter_network(name)
        if k == "const":
            return NetworkLink(name=name, latency=ConstantLatency(lat))
        if k == "exp":
            return NetworkLink(name=name, latency=ExponentialLatency(lat))
        if k == "jitter":
            return NetworkLink(name=name, latency=ConstantLatency(lat), jitter=ExponentialLatency(lat / 2))
        if k == "zero":
            return NetworkLink(name=name, latency=ConstantLatency(0.0))
        if k == "const-lossy":
            return NetworkLink(name=name, latency=ConstantLatency(lat), packet_loss_rate=cfg["loss"])
        return NetworkLink(name=name, latency=ExponentialLatency(lat), packet_loss_rate=cfg["loss"])

    def mesh(nodes):
        for i, a in enumerate(nodes):
            for b in nodes[i + 1:]:
                net.add_bidirectional_link(a, b, mk_link(f"l-{a.name}-{b.name}"))

    def store(name):
        kw = {}
        if cfg.get("dlat_ms") is not None:
            kw["delete_latency"] = cfg["dlat_ms"] / 1000.0
        if cfg.get("capacity") is not None:
            kw["capacity"] = cfg["capacity"]
        return KVStore(name, write_latency=cfg["wlat_ms"] / 1000.0, read_latency=cfg["rlat_ms"] / 1000.0, **kw)

    def at_s(ms):
        return Instant.from_seconds(ms / 1000.0)

    entities = [net]
    pre = []
    obs = {}

    def window(win, a_nodes, b_nodes, tag):
        if not win:
            return
        h = {}
        pre.append(_d(Event.once, time=at_s(win[0]), event_type=f"Partition-{tag}",
                              fn=lambda e: h.__setitem__("h", net.partition(a_nodes, b_nodes))))
        pre.append(_d(Event.once, time=at_s(win[1]), event_type=f"Heal-{tag}", fn=lambda e: h["h"].heal()))

    # ------------------------------------------------------------------ primary-backup
    pbs = []          # (primary, backups, primary store, backup stores)
    modes = ["ASYNC", "SEMI_SYNC", "SYNC"] if cfg.get("pb_bank") else [cfg["pb_mode"]]
    for mname in modes:
        sfx = "" if len(modes) == 1 else "-" + mname.lower()
        p_store = store(f"pb-store-primary{sfx}")
        b_stores = [store(f"pb-store-{i}{sfx}") for i in range(cfg["pb_backups"])]
        backups = []
        primary = PrimaryNode("primary" + sfx, store=p_store, backups=backups, network=net,
                              mode=ReplicationMode[mname])
        for i in range(cfg["pb_backups"]):
            backups.append(BackupNode(f"backup-{i}{sfx}", store=b_stores[i], network=net, primary=primary,
                                      serve_reads=cfg["pb_serve_reads"]))
        # (the primary keeps the list object it was given, which now holds the backups; its lag table fills lazily)
        mesh([primary, *backups])
        entities += [primary, *backups, p_store, *b_stores]
        if backups:
            window(cfg["pb_part"], [primary], [backups[-1]], "pb" + sfx)
        pbs.append((primary, backups, p_store, b_stores))

    # ------------------------------------------------------------------ chain
    chains = []
    craqs = [cfg["craq"], not cfg["craq"]] if cfg.get("chain_bank") else [cfg["craq"]]
    for ci, craq in enumerate(craqs):
        pfx = "chain" if ci == 0 else "chain2"
        ch = build_chain([f"{pfx}-{i}" for i in range(cfg["chain_len"])], net, store_factory=store, craq_enabled=craq)
        mesh(ch)
        entities += ch + [c.store for c in ch]
        window(cfg["chain_part"], [ch[0]], [ch[-1]], pfx)
        chains.append((ch, craq))
    if cfg.get("chain_solo"):
        # a hand-wired chain of one node: HEAD without successor commits locally
        solo = ChainNode("solo-0", store=store("solo-0_store"), network=net, role=ChainNodeRole.HEAD,
                         craq_enabled=cfg["craq"])
        solo.head_node = solo
        entities += [solo, solo.store]
        chains.append(([solo], cfg["craq"]))
    chain = chains[0][0]

    # ------------------------------------------------------------------ multi-leader
    def resolver(r):
        if r == "default":
            return None                      # the constructor's default resolver
        if r == "lww":
            return LastWriterWins()
        if r == "vc":
            return VectorClockMerge()
        if r == "vc-merge":
            return VectorClockMerge(merge_fn=lambda key, a, b: a if str(a.value) >= str(b.value) else b)
        if r == "custom-max":
            return CustomResolver(lambda key, versions: max(versions, key=lambda v: (str(v.value), v.writer_id)))
        return CustomResolver(lambda key, versions: min(versions, key=lambda v: (v.timestamp, v.writer_id)))

    ml_groups = []
    rnames = (["lww", "vc", "vc-merge", "custom-max", "custom-first", "default"] if cfg.get("ml_bank")
              else [cfg["resolver"]])
    ae_start = cfg.get("ae_start", "manual")
    for rname in rnames:
        sfx = "" if len(rnames) == 1 else "-" + rname
        grp = [LeaderNode(f"leader-{r}{sfx}", store=store(f"ml-store-{r}{sfx}"), network=net,
                          conflict_resolver=resolver(rname), anti_entropy_interval=cfg["ae_ms"] / 1000.0)
               for r in ["east", "west", "eu", "ap", "sa"][: cfg["ml_n"]]]
        for ld in grp:
            ld.add_peers([x for x in grp if x is not ld])
        mesh(grp)
        entities += grp + [ld.store for ld in grp]
        if ae_start == "manual":
            # hand-made first round, as tests/unit/components/replication/test_multi_leader.py does; with
            # ae_ms == 0 ("disabled") this is a single manually triggered round at 100 ms
            if cfg["ae_ms"] or "ae_start" in cfg:
                for ld in grp:
                    pre.append(_d(Event, time=at_s(cfg["ae_ms"] or 100), event_type="AntiEntropy", target=ld,
                                  daemon=True))
        elif ae_start == "api-late":
            # get_anti_entropy_event() called while the simulation runs stamps the first round "now"
            def start_ae(e, grp=grp):
                return [ev for ev in (ld.get_anti_entropy_event() for ld in grp) if ev is not None]
            pre.append(_d(Event.once, time=at_s(cfg.get("ae_late_ms", 100)), event_type="StartAntiEntropy",
                          fn=start_ae, daemon=True))
        if len(grp) > 1:
            window(cfg["ml_part"], [grp[0]], grp[1:], "ml" + sfx)
        ml_groups.append(grp)
    leaders = [ld for grp in ml_groups for ld in grp]

    # ------------------------------------------------------------------ clients
    class Client(Entity):
        def __init__(self, i, cc):
            super().__init__(f"client-{i}")
            self.i, self.cc = i, cc
            self.rng = random.Random(sub_seed(seed, "client", i))
            self.n = self.writes = self.reads = self.ok = self.timed_out = self.fire_forget = 0
            self.bad_head = self.errors = 0
            self.seen = []

        def handle_event(self, event):
            burst = self.cc.get("burst", 1)
            k = event.context.get("burst_left", burst - 1) if burst > 1 else 0
            if k > 0:
                # the remaining requests of this burst start at the same instant, each in its own process
                yield 0.0, [Event(time=self.now, event_type="Tick", target=self, context={"burst_left": k - 1})]
            self.n += 1
            group = self.n % 3
            key = self.rng.choice(["user-", "k"]) + str(self.rng.randrange(cfg["keys"]))
            read = self.rng.random() < self.cc["read_frac"]
            if group == 0:
                primary, backups, _, _ = pbs[0] if len(pbs) == 1 else pbs[(self.i + self.n // 3) % len(pbs)]
                tgt = primary
                if read and backups and self.rng.random() < 0.5:
                    tgt = self.rng.choice(backups)
            elif group == 1:
                ch, craq = chains[0] if len(chains) == 1 else chains[(self.i + self.n // 3) % len(chains)]
                tgt = ch[0]
                if read:
                    tgt = self.rng.choice(ch) if craq else ch[-1]
                elif self.cc.get("bad_head") and len(ch) > 1 and self.rng.random() < 0.3:
                    tgt = ch[-1]             # a write sent to a non-head node is answered with an error
                    self.bad_head += 1
            else:
                tgt = leaders[(self.i + self.n // 3) % len(leaders)]
            md = {"key": key}
            if read:
                self.reads += 1
            else:
                self.writes += 1
                md["value"] = f"{self.name}:{self.n}"
            if not self.cc["wait"]:
                self.fire_forget += 1
                return [Event(time=self.now, event_type="Read" if read else "Write", target=tgt,
                              context={"metadata": md})]
            reply = SimFuture()
            md["reply_future"] = reply
            to = SimFuture()
            yield 0.0, [Event(time=self.now, event_type="Read" if read else "Write", target=tgt,
                              context={"metadata": md}),
                        Event.once(time=self.now + cfg["timeout_ms"] / 1000.0, event_type="ClientTimeout",
                                   fn=lambda e: to.resolve("timeout"))]
            idx, val = yield any_of(reply, to)
            if idx == 0:
                self.ok += 1
                if val.get("status") == "error":
                    self.errors += 1
                if read and len(self.seen) < 30:
                    self.seen.append([tgt.name, key, val.get("value"), val.get("stale", False)])
            else:
                self.timed_out += 1
            return None

    clients = [Client(i, cc) for i, cc in enumerate(cfg["clients"])]
    entities += clients
    sources = []
    for i, cc in enumerate(cfg["clients"]):
        mk = Source.poisson if cc["poisson"] else Source.constant
        sources.append(mk(rate=cc["rate"], target=clients[i], event_type="Tick", name=f"src-client-{i}",
                          stop_after=end - 0.5))

    def contents(st):
        return sorted((k, st.get_sync(k)) for k in st.keys())

    for primary, backups, p_store, b_stores in pbs:
        obs[primary.name] = stats_of(primary)
        obs[primary.name + ".x"] = (lambda primary=primary, p_store=p_store: {
            "lag": {k: v for k, v in primary.backup_lag.items() if not k.startswith("_")},
            "mode": primary.mode.name, "data": contents(p_store), "store": stats_of(p_store)()})
        for i, b in enumerate(backups):
            obs[b.name] = stats_of(b)
            obs[b.name + ".x"] = (lambda b=b, st=b_stores[i]: {"last": b.last_applied_seq, "data": contents(st),
                                                               "store": stats_of(st)()})
    for ch, _ in chains:
        for c in ch:
            obs[c.name] = stats_of(c)
            obs[c.name + ".x"] = (lambda c=c: {"role": c.role.name, "dirty": sorted(c.dirty_keys),
                                               "is_head": c.role is ChainNodeRole.HEAD,
                                               "is_tail": c.role is ChainNodeRole.TAIL,
                                               "is_middle": c.role is ChainNodeRole.MIDDLE,
                                               "data": contents(c.store), "store": stats_of(c.store)()})
    for ld in leaders:
        obs[ld.name] = stats_of(ld)
        obs[ld.name + ".x"] = (lambda ld=ld: {
            "data": contents(ld.store), "root": ld.merkle_tree.root_hash, "peers": [x.name for x in ld.peers],
            "store": stats_of(ld.store)(),
            "versions": sorted([k, v.value, v.timestamp, v.writer_id, sorted((v.vector_clock or {}).items())]
                               for k, v in ld.versions.items())})
    for cl in clients:
        obs[cl.name] = (lambda cl=cl: {"n": cl.n, "w": cl.writes, "r": cl.reads, "ok": cl.ok,
                                       "timeout": cl.timed_out, "ff": cl.fire_forget, "bad_head": cl.bad_head,
                                       "errors": cl.errors, "seen": cl.seen})
    obs["net"] = lambda: {"routed": net.events_routed, "no_route": net.events_dropped_no_route,
                          "partition": net.events_dropped_partition,
                          "matrix": [[s.source, s.destination, s.packets_sent, s.packets_dropped]
                                     for s in net.traffic_matrix()]}

    if cfg["events_before_sim"]:
        # as examples/distributed/{multi_leader_replication,flexible_paxos_quorums}.py do: the pre-run events are
        # constructed first, the Simulation afterwards
        evs = [f(**kw) for f, kw in pre]
        sim = Simulation(end_time=T(end), sources=sources, entities=entities)
    else:
        sim = Simulation(end_time=T(end), sources=sources, entities=entities)
        evs = [f(**kw) for f, kw in pre]
    for ev in evs:
        sim.schedule(ev)
    if ae_start == "api":
        # the documented way: ask every leader for its first anti-entropy event before the run
        for ld in leaders:
            ev = ld.get_anti_entropy_event()
            if ev is not None:
                sim.schedule(ev)
    return sim, obs
