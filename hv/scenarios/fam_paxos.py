"""Paxos family, four small clusters on one `Network` (links with latency / jitter / loss):
  * single-decree `PaxosNode`s with 2–4 competing proposers (same instant / a few ms apart, nack → randomized
    retry), one proposer isolated by a partition window and re-proposing after the heal;
  * a `MultiPaxosNode` cluster and a `FlexiblePaxosNode` cluster (generated Q1/Q2) where several nodes run
    phase 1 concurrently, clients submit KV commands to the leader / a random node (commands queued on
    non-leaders are flushed when that node later wins phase 1), forwarded commands, a leader crash window;
  * `LeaderElection` nodes with each strategy (Bully, Ring, Randomized), a partition of the current leader;
  * a `DistributedLock` manager with 3–6 contenders on 1–2 lock names: yield-on-future waiters, polling waiters
    (the pattern of examples/distributed/distributed_lock_fencing.py), holders that release, holders that let
    the lease expire, stale releases with an old fencing token, bounded waiter queues.

Widened configuration space: clusters of 1–7 nodes, peers / members given to the constructors (`peers=`, `members=`) or
by `set_peers` / `add_member`, default state machines, default quorums and default election strategy; all three
election strategies side by side in one run (`le_bank`) or one of them; retry delay, heartbeat intervals, leader lease,
election timeout, lock lease, hold time, poll period, command / proposal timeouts from a boundary palette with
overlapping ranges (heartbeat interval longer than the election timeout, lease shorter than the hold time or zero,
command timeout shorter than a network hop, link latency longer than every timeout); lossless / zero-latency / 50 % /
100 % lossy links; proposals at the same (possibly nanosecond-lossy) instant; lock contenders that use the
`LockAcquireRequest` / `LockReleaseRequest` event protocol, re-entrant acquires, 1–8 contenders on 1–3 locks, bursts of
same-instant requests, sustained heavy command load; partition / crash windows on lossy instants that may outlive the
run; an occasional long run."""
from __future__ import annotations

import random

from hv.scenarios.base import T, dur_ms, seed_all, stats_of, sub_seed

NAME = "paxos"
MODEL = "C12"
COMPONENTS = ["PaxosNode", "MultiPaxosNode", "FlexiblePaxosNode", "LeaderElection", "BullyStrategy", "RingStrategy",
              "RandomizedStrategy", "DistributedLock", "LockGrant", "KVStateMachine", "Log", "Network", "NetworkLink",
              "Partition", "FaultSchedule", "CrashNode", "SimFuture", "Source"]


def gen_cfg(rng):
    end = rng.choice([3.0, 4.0, 5.0]) if rng.random() > 0.1 else 8.0
    end_ms = int(end * 1000)
    long = end > 5
    n_px = rng.choice([1, 2, 3, 3, 5, 5, 7])
    n_mp = rng.choice([1, 2, 3, 3, 5, 7])
    n_fp = rng.choice([1, 2, 3, 4, 5, 6])
    if n_fp == 1 and rng.random() < 0.5:
        # the constructor's defaults: they are computed from the peers known *at construction* (none for the first
        # node of a cluster), so a later set_peers() on a larger cluster rejects them -> only for the 1-node cluster
        q1 = q2 = None
    elif rng.random() < 0.15:
        q1 = q2 = n_fp // 2 + 1                # plain majorities
    else:
        q1 = rng.randint(1, n_fp)
        q2 = rng.randint(max(1, n_fp + 1 - q1), n_fp)
    n_le = rng.randint(2, 6)
    le_bank = rng.random() < 0.6               # all three strategies side by side
    if le_bank:
        n_le = min(n_le, 4)
    n_lk = rng.choice([1, 2, 3, 4, 5, 6, 8])

    def win(lo=100):
        a = dur_ms(rng, lo, end_ms - 600)
        return [a, dur_ms(rng, a + 1, min(a + 1500, end_ms + 400))]

    def hb(lo):
        lo = lo * (2 if long else 1)
        return dur_ms(rng, lo, 300) if rng.random() < 0.7 else dur_ms(rng, 300, 2000)

    # proposal instants: a few distinct (possibly lossy) instants, several proposers on the same one
    instants = [dur_ms(rng, 1, end_ms - 500) for _ in range(3)]
    heavy = rng.random() < 0.15
    clients = [{"cluster": rng.choice(["mp", "fp"]),
                "rate": rng.choice([5, 10, 20]) if not heavy else rng.choice([100, 200]),
                "poisson": rng.random() < 0.5,
                "policy": rng.choice(["leader", "leader", "random", "forward"]),
                "burst": rng.choice([1, 1, 1, 3, 10]) if not heavy else 1}
               for _ in range(rng.randint(2, 4) if not heavy else rng.randint(1, 2))]
    while sum(c["rate"] * c["burst"] for c in clients) * end > 1500:
        c = max(clients, key=lambda c: c["rate"] * c["burst"])
        if c["burst"] > 1:
            c["burst"] //= 2
        elif c["rate"] > 5:
            c["rate"] = max(5, c["rate"] // 2)
        else:
            break
    hb_ms = hb(15 if max(n_mp, n_fp) <= 5 else 30)
    contenders = [{"mode": rng.choice(["yield", "yield", "poll", "event"]), "hold_ms": dur_ms(rng, 1, 600),
                   "rate": rng.choice([2, 5, 10, 30]), "expire": rng.random() < 0.3,
                   "stale": rng.random() < 0.3, "try": rng.random() < 0.2,
                   "reentrant": rng.random() < 0.2, "burst": rng.choice([1, 1, 1, 2, 4])} for _ in range(n_lk)]
    return {
        "end": end,
        "events_before_sim": rng.random() < 0.25,
        "link": rng.choice(["const", "exp", "exp-lossy", "datacenter", "zero", "const-lossy"]),
        "lat_ms": dur_ms(rng, 0.1, 20) if rng.random() < 0.7 else dur_ms(rng, 20, 700),
        "loss": rng.choice([0.0, 0.02, 0.1, 0.5, 1.0]),
        "peers_via": rng.choice(["set", "set", "ctor"]),      # ctor: the last node of every cluster gets `peers=`
        "default_sm": rng.random() < 0.2,                     # node 0 of mp / fp is built without `state_machine=`
        # single decree
        "n_px": n_px,
        "retry_ms": dur_ms(rng, 1, 800),
        "proposals": [{"node": rng.randrange(n_px), "at": rng.choice(instants) + rng.choice([0, 0, 0, 1, 5])}
                      for _ in range(rng.randint(2, 8))],
        "px_part": win(10) if rng.random() < 0.6 else None,
        "px_timeout_ms": dur_ms(rng, 20, 3000),
        # multi / flexible
        "n_mp": n_mp,
        "n_fp": n_fp,
        "q1": q1,
        "q2": q2,
        "hb_ms": hb_ms,
        "mp_lease_ms": rng.choice([None, dur_ms(rng, 5, 3000)]),      # None: 4 heartbeat intervals (as before)
        "starts": [{"cluster": rng.choice(["mp", "fp"]), "node": rng.randrange(7),
                    "at": rng.choice(instants + [10, 10, 12]) + rng.choice([0, 0, 2])}
                   for _ in range(rng.randint(2, 6))],
        "clients": clients,
        "cmd_timeout_ms": dur_ms(rng, 1, 1000),
        "keys": rng.randint(1, 5),
        "crash": {"cluster": rng.choice(["mp", "fp"]), "node": rng.randrange(7), "win": win(),
                  "forever": rng.random() < 0.3} if rng.random() < 0.6 else None,
        # leader election
        "n_le": n_le,
        "le_bank": le_bank,
        "strategy": rng.choice(["bully", "ring", "random", "default"]),
        "le_members_via": rng.choice(["add", "add", "ctor"]),
        "ballot_range": rng.choice([1, 2, 3, 1000, 1_000_000]),
        "le_timeout_ms": dur_ms(rng, 20 * (2 if long else 1), 400) if rng.random() < 0.7 else dur_ms(rng, 400, 2000),
        "le_hb_ms": hb(15),
        "le_part": win() if rng.random() < 0.7 else None,
        # lock
        "n_lk": n_lk,
        "lock_defaults": rng.random() < 0.08,                 # DistributedLock(name) with the default lease (10 s)
        "lease_ms": dur_ms(rng, 1, 300, zero=True) if rng.random() < 0.6 else dur_ms(rng, 300, 2500),
        "max_waiters": rng.choice([0, 0, 1, 2, 5]),
        "locks": rng.randint(1, 3),
        "contenders": contenders,
        "poll_ms": dur_ms(rng, 2, 300),
    }


def build(cfg, seed):
    from happysimulator.components.consensus import (BullyStrategy, DistributedLock, FlexiblePaxosNode,
                                                     LeaderElection, MultiPaxosNode, PaxosNode, RandomizedStrategy,
                                                     RingStrategy)
    from happysimulator.components.consensus.raft_state_machine import KVStateMachine
    from happysimulator.components.network import Network, NetworkLink, datacenter_network
    from happysimulator.core.entity import Entity
    from happysimulator.core.event import Event
    from happysimulator.core.sim_future import SimFuture, any_of
    from happysimulator.core.simulation import Simulation
    from happysimulator.core.temporal import Instant
    from happysimulator.distributions import ConstantLatency, ExponentialLatency
    from happysimulator.faults import CrashNode, FaultSchedule
    from happysimulator.load.source import Source

    seed_all(seed)

    def _d(factory, **kw):
        """a pre-run event, constructed either before or after `Simulation(...)` (cfg['events_before_sim'])"""
        return factory, kw
    end = cfg["end"]
    net = Network(name="px-net")

    def mk_link(name):
        lat = cfg["lat_ms"] / 1000.0
        k = cfg["link"]
        if k == "datacenter":
            return datacenter_network(name)
        if k == "const":
            return NetworkLink(name=name, latency=ConstantLatency(lat))
        if k == "exp":
            return NetworkLink(name=name, latency=ExponentialLatency(lat))
        if k == "zero":
            return NetworkLink(name=name, latency=ConstantLatency(0.0))
        if k == "const-lossy":
            return NetworkLink(name=name, latency=ConstantLatency(lat), packet_loss_rate=cfg["loss"])
        return NetworkLink(name=name, latency=ExponentialLatency(lat), packet_loss_rate=cfg["loss"],
                           jitter=ConstantLatency(0.001))

    def mesh(nodes):
        for i, a in enumerate(nodes):
            for b in nodes[i + 1:]:
                net.add_bidirectional_link(a, b, mk_link(f"l-{a.name}-{b.name}"))

    def at_s(ms):
        return Instant.from_seconds(ms / 1000.0)

    pre = []          # events scheduled before the run
    sources = []
    entities = [net]
    obs = {}

    def race(ent, fut, timeout_ms):
        """generator: wait for `fut` or a timeout; returns (ok, value)"""
        to = SimFuture()
        yield 0.0, [Event.once(time=ent.now + timeout_ms / 1000.0, event_type="HarnessTimeout",
                               fn=lambda e: to.resolve("timeout"))]
        idx, val = yield any_of(fut, to)
        return idx == 0, val

    # ------------------------------------------------------------------ single-decree Paxos
    via_ctor = cfg.get("peers_via", "set") == "ctor"

    def cluster(n, make):
        """n nodes; with peers_via == "ctor" the last one receives its peers through the constructor"""
        nodes = []
        for i in range(n):
            last = via_ctor and i == n - 1
            nodes.append(make(i, {"peers": list(nodes)} if last else {}))
        for i, nd in enumerate(nodes):
            if not (via_ctor and i == n - 1):
                nd.set_peers(nodes)
        return nodes

    px = cluster(cfg["n_px"], lambda i, kw: PaxosNode(name=f"px-{i}", network=net,
                                                      retry_delay=cfg["retry_ms"] / 1000.0, **kw))
    mesh(px)
    entities += px

    class Proposer(Entity):
        def __init__(self):
            super().__init__("proposer")
            self.results = []

        def handle_event(self, event):
            k = event.context["k"]
            nd = px[event.context["node"] % len(px)]
            fut = nd.propose(f"val-{k}")
            if not fut.is_resolved:
                yield 0.0, nd.start_phase1()
            ok, val = yield from race(self, fut, cfg["px_timeout_ms"])
            self.results.append([k, nd.name, ok, val if ok else None])
            return None

    proposer = Proposer()
    entities.append(proposer)
    for k, p in enumerate(cfg["proposals"]):
        pre.append(_d(Event, time=at_s(p["at"]), event_type="Propose", target=proposer, context={"k": k, "node": p["node"]}))
    if cfg["px_part"]:
        a, b = cfg["px_part"]
        iso = px[cfg["proposals"][0]["node"] % len(px)]
        holder = {}
        pre.append(_d(Event.once, time=at_s(a), event_type="PxPartition",
                              fn=lambda e: holder.__setitem__("h", net.partition([iso], [x for x in px if x is not iso]))))
        pre.append(_d(Event.once, time=at_s(b), event_type="PxHeal", fn=lambda e: holder["h"].heal()))
        pre.append(_d(Event, time=at_s(b + 20), event_type="Propose", target=proposer,
                         context={"k": 99, "node": cfg["proposals"][0]["node"]}))
    for nd in px:
        obs[nd.name] = stats_of(nd)
        obs[nd.name + ".x"] = (lambda nd=nd: {"decided": nd.is_decided, "value": nd.decided_value,
                                              "quorum": nd.quorum_size})
    obs["proposer"] = lambda: proposer.results

    # ------------------------------------------------------------------ Multi-Paxos / Flexible Paxos
    mp_sm = [KVStateMachine() for _ in range(cfg["n_mp"])]
    fp_sm = [KVStateMachine() for _ in range(cfg["n_fp"])]
    if cfg.get("default_sm"):
        mp_sm[0] = fp_sm[0] = None      # node 0 keeps the constructor's default state machine (not observable)
    lease_ms = cfg.get("mp_lease_ms")
    if lease_ms is None:
        lease_ms = cfg["hb_ms"] * 4

    def sm_kw(sm):
        return {} if sm is None else {"state_machine": sm}

    mp = cluster(cfg["n_mp"], lambda i, kw: MultiPaxosNode(
        name=f"mp-{i}", network=net, heartbeat_interval=cfg["hb_ms"] / 1000.0,
        leader_lease_timeout=lease_ms / 1000.0, **sm_kw(mp_sm[i]), **kw))
    mesh(mp)
    fp = cluster(cfg["n_fp"], lambda i, kw: FlexiblePaxosNode(
        name=f"fp-{i}", network=net, phase1_quorum=cfg["q1"], phase2_quorum=cfg["q2"],
        heartbeat_interval=cfg["hb_ms"] / 1000.0, **sm_kw(fp_sm[i]), **kw))
    mesh(fp)
    entities += mp + fp
    clusters = {"mp": mp, "fp": fp}

    for k, s in enumerate(cfg["starts"]):
        nd = clusters[s["cluster"]][s["node"] % len(clusters[s["cluster"]])]
        pre.append(_d(Event.once, time=at_s(s["at"]), event_type="StartPhase1", fn=lambda e, nd=nd: nd.start(), daemon=True))

    class Client(Entity):
        def __init__(self, i, cc):
            super().__init__(f"client-{i}")
            self.i, self.cc = i, cc
            self.rng = random.Random(sub_seed(seed, "client", i))
            self.n = self.ok = self.timed_out = self.forwarded = 0
            self.results = []

        def handle_event(self, event):
            burst = self.cc.get("burst", 1)
            k = event.context.get("burst_left", burst - 1) if burst > 1 else 0
            if k > 0:
                # the remaining submissions of this burst start at the same instant, each in its own process
                yield 0.0, [Event(time=self.now, event_type="Tick", target=self, context={"burst_left": k - 1})]
            self.n += 1
            nodes = clusters[self.cc["cluster"]]
            key = f"user-{self.rng.randrange(cfg['keys'])}"
            op = self.rng.choice(["set", "set", "get", "delete", "cas"])
            cmd = {"op": op, "key": key}
            if op in ("set", "cas"):
                cmd["value"] = self.i * 1000 + self.n
            if op == "cas":
                cmd["expected"] = self.i * 1000 + self.n - 1
            leaders = [nd for nd in nodes if nd.is_leader]
            pol = self.cc["policy"]
            if pol == "forward" and self.cc["cluster"] == "mp":
                # a follower forwards the command to the leader it knows (public event protocol)
                src = self.rng.choice(nodes)
                dst = next((nd for nd in nodes if nd.name == src.leader and nd is not src), None)
                if dst is not None:
                    self.forwarded += 1
                    return [net.send(src, dst, "MultiPaxosForward", payload={"command": cmd})]
            node = leaders[0] if (leaders and pol != "random") else self.rng.choice(nodes)
            fut = node.submit(cmd)
            if node.is_leader:
                # as in examples/distributed/flexible_paxos_quorums.py: the submitter triggers replication of the slot
                yield 0.0, node._replicate_slot(node.log.last_index)
            ok, val = yield from race(self, fut, cfg["cmd_timeout_ms"])
            if ok:
                self.ok += 1
                if len(self.results) < 30:
                    self.results.append([node.name, op, key, val[0], val[1]])
            else:
                self.timed_out += 1
            return None

    clients = [Client(i, cc) for i, cc in enumerate(cfg["clients"])]
    entities += clients
    for i, cc in enumerate(cfg["clients"]):
        mkc = Source.poisson if cc["poisson"] else Source.constant
        sources.append(mkc(rate=cc["rate"], target=clients[i], event_type="Tick", name=f"src-client-{i}",
                           stop_after=end - 0.5))
    for grp, sms in ((mp, mp_sm), (fp, fp_sm)):
        for i, nd in enumerate(grp):
            obs[nd.name] = stats_of(nd)
            obs[nd.name + ".x"] = (lambda nd=nd, sm=sms[i]: {
                "is_leader": nd.is_leader, "leader": nd.leader, "commit": nd.log.commit_index,
                "log": [[e.index, e.term, e.command] for e in nd.log.entries_after(0)],
                "q": [getattr(nd, "phase1_quorum", None), getattr(nd, "phase2_quorum", None),
                      getattr(nd, "quorum_size", None)],
                "kv": None if sm is None else sorted(sm.data.items())})
    for cl in clients:
        obs[cl.name] = (lambda cl=cl: {"n": cl.n, "ok": cl.ok, "timeout": cl.timed_out, "fwd": cl.forwarded,
                                       "results": cl.results})

    faults = FaultSchedule("faults")
    c = cfg["crash"]
    if c:
        nm = clusters[c["cluster"]][c["node"] % len(clusters[c["cluster"]])].name
        faults.add(CrashNode(nm, at=c["win"][0] / 1000.0, restart_at=None if c["forever"] else c["win"][1] / 1000.0))
    obs["faults"] = stats_of(faults)

    # ------------------------------------------------------------------ LeaderElection
    def strategy(s):
        if s == "bully":
            return BullyStrategy()
        if s == "ring":
            return RingStrategy()
        if s == "default":
            return None                      # the constructor's default strategy
        return RandomizedStrategy(ballot_range=cfg["ballot_range"])

    le_timing = dict(election_timeout=cfg["le_timeout_ms"] / 1000.0, heartbeat_interval=cfg["le_hb_ms"] / 1000.0)
    members_ctor = cfg.get("le_members_via", "add") == "ctor"

    def le_group(sname, prefix):
        grp = []
        for i in range(cfg["n_le"]):
            kw = {}
            if members_ctor and i == cfg["n_le"] - 1:
                kw["members"] = {m.name: m for m in grp}     # the last node gets its member table from the constructor
            grp.append(LeaderElection(name=f"{prefix}{i}", network=net, strategy=strategy(sname), **le_timing, **kw))
        return grp

    if cfg.get("le_bank"):
        # one group per strategy, same timing, same partition schedule
        le_groups = [(sname, le_group(sname, f"le-{sname}-")) for sname in ("bully", "ring", "random")]
    else:
        le_groups = [(cfg["strategy"], le_group(cfg["strategy"], "le-"))]
    le = [nd for _, grp in le_groups for nd in grp]
    for _, grp in le_groups:
        for i, nd in enumerate(grp):
            for m in grp:
                if members_ctor and i == len(grp) - 1 and m is not nd:
                    continue
                nd.add_member(m)
        mesh(grp)
    entities += le

    def start_le(e):
        out = []
        for nd in le:
            out.extend(nd.start())
        return out

    pre.append(_d(Event.once, time=at_s(0), event_type="StartElections", fn=start_le, daemon=True))
    le_log = []
    if cfg["le_part"]:
        a, b = cfg["le_part"]
        h2 = {}

        def le_partition(e):
            for sname, grp in le_groups:
                cur = [nd for nd in grp if nd.is_leader]
                iso = cur[0] if cur else grp[-1]
                le_log.append(["part", iso.name])
                h2[sname] = net.partition([iso], [x for x in grp if x is not iso])

        def le_heal(e):
            for sname, grp in le_groups:
                h2[sname].heal()
            le_log.append(["heal", [nd.name for nd in le if nd.is_leader]])

        pre.append(_d(Event.once, time=at_s(a), event_type="LePartition", fn=le_partition))
        pre.append(_d(Event.once, time=at_s(b), event_type="LeHeal", fn=le_heal))
    for nd in le:
        obs[nd.name] = stats_of(nd)
        obs[nd.name + ".x"] = (lambda nd=nd: {"leader": nd.current_leader, "term": nd.current_term,
                                              "is_leader": nd.is_leader})
    obs["le_log"] = lambda: le_log

    # ------------------------------------------------------------------ DistributedLock
    if cfg.get("lock_defaults"):
        lock = DistributedLock("lock-mgr")         # default lease (10 s: longer than the run), unbounded waiters
    else:
        lock = DistributedLock("lock-mgr", lease_duration=cfg["lease_ms"] / 1000.0, max_waiters=cfg["max_waiters"])
    entities.append(lock)
    lock_names = ["db-lock", "user-17", "k3"][: cfg["locks"]]
    protected = {"last_token": {nm: 0 for nm in lock_names}, "fenced": 0, "writes": 0}

    def take_expiry():
        ev = getattr(lock, "_pending_expiry", None)
        if ev is not None:
            lock._pending_expiry = None
            return [ev]
        return []

    class Contender(Entity):
        def __init__(self, i, cc):
            super().__init__(f"contender-{i}")
            self.i, self.cc = i, cc
            self.rng = random.Random(sub_seed(seed, "contender", i))
            self.busy = False
            self.tokens = []
            self.acquired = self.rejected = self.released = self.release_failed = self.skipped = 0
            self.try_fail = self.polls = self.reentered = self.reentry_mismatch = 0
            self.old = None

        def _write(self, grant):
            # the protected resource accepts only non-decreasing fencing tokens
            protected["writes"] += 1
            if grant.fencing_token < protected["last_token"][grant.lock_name]:
                protected["fenced"] += 1
            else:
                protected["last_token"][grant.lock_name] = grant.fencing_token

        def handle_event(self, event):
            burst = self.cc.get("burst", 1)
            k = event.context.get("burst_left", burst - 1) if burst > 1 else 0
            if k > 0:
                # further requests of this burst arrive at the same instant (they find the contender busy)
                yield 0.0, [Event(time=self.now, event_type="Tick", target=self, context={"burst_left": k - 1})]
            if self.busy:
                self.skipped += 1
                return None
            self.busy = True
            name = lock_names[self.rng.randrange(len(lock_names))]
            if self.cc["try"]:
                grant = lock.try_acquire(name, self.name)
                if grant is None:
                    self.try_fail += 1
                    self.busy = False
                    return None
                yield 0.0, take_expiry()
            else:
                if self.cc["mode"] == "event":
                    # the lock manager's event protocol: LockAcquireRequest carrying a reply future
                    fut = SimFuture()
                    yield 0.0, [Event(time=self.now, event_type="LockAcquireRequest", target=lock,
                                      context={"metadata": {"lock_name": name, "requester": self.name},
                                               "reply_future": fut})]
                else:
                    fut = lock.acquire(name, self.name)
                if self.cc["mode"] == "poll":
                    while not fut.is_resolved:
                        self.polls += 1
                        yield cfg["poll_ms"] / 1000.0
                    grant = fut.value
                else:
                    grant = yield fut
                if grant is None:
                    self.rejected += 1
                    self.busy = False
                    return None
                yield 0.0, take_expiry()
            self.acquired += 1
            if len(self.tokens) < 40:
                self.tokens.append([name, grant.fencing_token, grant.holder, grant.expires_at, grant.granted_at,
                                    grant.lease_duration])
            if self.cc.get("reentrant"):
                # re-entrant acquire half way through the hold: same token while the lease lasts
                yield self.cc["hold_ms"] / 2000.0
                again = lock.try_acquire(name, self.name)
                if again is not None:
                    self.reentered += 1
                    if again.fencing_token != grant.fencing_token:
                        self.reentry_mismatch += 1      # the lease expired in between and the lock was granted anew
                        grant = again
                    yield 0.0, take_expiry()
                yield self.cc["hold_ms"] / 2000.0
            else:
                yield self.cc["hold_ms"] / 1000.0
            self._write(grant)
            if self.cc["stale"] and self.old is not None and self.old[0] == name:
                if lock.release(name, self.old[1]):     # an old token must not release the current holder
                    self.released += 1
                else:
                    self.release_failed += 1
            self.old = (name, grant.fencing_token)
            if not self.cc["expire"]:
                if self.cc["mode"] == "event":
                    yield 0.0, [Event(time=self.now, event_type="LockReleaseRequest", target=lock,
                                      context={"metadata": {"lock_name": name,
                                                            "fencing_token": grant.fencing_token}})]
                    self.released += 1          # (request sent; the manager does not answer)
                elif lock.release(name, grant.fencing_token):
                    self.released += 1
                else:
                    self.release_failed += 1    # the lease had already expired
            self.busy = False
            return None

    contenders = [Contender(i, cc) for i, cc in enumerate(cfg["contenders"])]
    entities += contenders
    for i, cc in enumerate(cfg["contenders"]):
        sources.append(Source.constant(rate=cc["rate"], target=contenders[i], event_type="Tick",
                                       name=f"src-contender-{i}", stop_after=end - 0.5))
    obs["lock"] = stats_of(lock)
    obs["lock.x"] = lambda: {"holders": [[nm, lock.get_holder(nm), lock.get_fencing_token(nm)] for nm in lock_names],
                             "active": lock.active_locks, "waiters": lock.total_waiters, "protected": protected}
    for ct in contenders:
        obs[ct.name] = (lambda ct=ct: {"acq": ct.acquired, "rej": ct.rejected, "rel": ct.released,
                                       "rel_failed": ct.release_failed, "skipped": ct.skipped, "polls": ct.polls,
                                       "try_fail": ct.try_fail, "reentered": ct.reentered,
                                       "reentry_mismatch": ct.reentry_mismatch, "tokens": ct.tokens})

    obs["net"] = lambda: {"routed": net.events_routed, "no_route": net.events_dropped_no_route,
                          "partition": net.events_dropped_partition,
                          "matrix": [[s.source, s.destination, s.packets_sent, s.packets_dropped]
                                     for s in net.traffic_matrix()]}

    if cfg["events_before_sim"]:
        # as examples/distributed/{multi_leader_replication,flexible_paxos_quorums}.py do: the pre-run events are
        # constructed first, the Simulation afterwards
        evs = [f(**kw) for f, kw in pre]
        sim = Simulation(end_time=T(end), sources=sources, entities=entities, fault_schedule=faults)
    else:
        sim = Simulation(end_time=T(end), sources=sources, entities=entities, fault_schedule=faults)
        evs = [f(**kw) for f, kw in pre]
    for ev in evs:
        sim.schedule(ev)
    return sim, obs
