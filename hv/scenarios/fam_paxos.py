"""Paxos family, four small clusters on one `Network` (links with latency / jitter / loss):
  * single-decree `PaxosNode`s with 2–4 competing proposers (same instant / a few ms apart, nack → randomized
    retry), one proposer isolated by a partition window and re-proposing after the heal;
  * a `MultiPaxosNode` cluster and a `FlexiblePaxosNode` cluster (generated Q1/Q2) where several nodes run
    phase 1 concurrently, clients submit KV commands to the leader / a random node (commands queued on
    non-leaders are flushed when that node later wins phase 1), forwarded commands, a leader crash window;
  * `LeaderElection` nodes with each strategy (Bully, Ring, Randomized), a partition of the current leader;
  * a `DistributedLock` manager with 3–6 contenders on 1–2 lock names: yield-on-future waiters, polling waiters
    (the pattern of examples/distributed/distributed_lock_fencing.py), holders that release, holders that let
    the lease expire, stale releases with an old fencing token, bounded waiter queues."""
from __future__ import annotations

import random

from hv.scenarios.base import T, seed_all, stats_of, sub_seed

NAME = "paxos"
MODEL = "C12"
COMPONENTS = ["PaxosNode", "MultiPaxosNode", "FlexiblePaxosNode", "LeaderElection", "BullyStrategy", "RingStrategy",
              "RandomizedStrategy", "DistributedLock", "LockGrant", "KVStateMachine", "Log", "Network", "NetworkLink",
              "Partition", "FaultSchedule", "CrashNode", "SimFuture", "Source"]


def gen_cfg(rng):
    end = rng.choice([3.0, 4.0, 5.0])
    end_ms = int(end * 1000)
    n_px = rng.choice([3, 5])
    n_mp = rng.choice([3, 5])
    n_fp = rng.choice([3, 4, 5])
    q1 = rng.randint(1, n_fp)
    q2 = rng.randint(max(1, n_fp + 1 - q1), n_fp)
    n_le = rng.randint(3, 5)
    n_lk = rng.randint(3, 6)

    def win(lo=400):
        a = rng.randint(lo, end_ms - 1200)
        return [a, a + rng.randint(200, 900)]

    return {
        "end": end,
        "events_before_sim": rng.random() < 0.25,
        "link": rng.choice(["const", "exp", "exp-lossy", "datacenter"]),
        "lat_ms": rng.randint(1, 20),
        "loss": rng.choice([0.02, 0.1]),
        # single decree
        "n_px": n_px,
        "retry_ms": rng.choice([30, 80, 200]),
        "proposals": [{"node": rng.randrange(n_px), "at": rng.choice([100, 100, 101, 105, 300, 900])}
                      for _ in range(rng.randint(2, 4))],
        "px_part": win(50) if rng.random() < 0.6 else None,
        "px_timeout_ms": rng.choice([100, 500, 2000]),
        # multi / flexible
        "n_mp": n_mp,
        "n_fp": n_fp,
        "q1": q1,
        "q2": q2,
        "hb_ms": rng.choice([40, 100, 250]),
        "starts": [{"cluster": rng.choice(["mp", "fp"]), "node": rng.randrange(3), "at": rng.choice([10, 10, 12, 200, 800,
                                                                                               1500])}
                   for _ in range(rng.randint(2, 6))],
        "clients": [{"cluster": rng.choice(["mp", "fp"]), "rate": rng.choice([5, 10, 20]), "poisson": rng.random() < 0.5,
                     "policy": rng.choice(["leader", "leader", "random", "forward"])}
                    for _ in range(rng.randint(2, 4))],
        "cmd_timeout_ms": rng.choice([80, 300]),
        "keys": rng.randint(2, 5),
        "crash": {"cluster": rng.choice(["mp", "fp"]), "node": rng.randrange(3), "win": win(),
                  "forever": rng.random() < 0.3} if rng.random() < 0.6 else None,
        # leader election
        "n_le": n_le,
        "strategy": rng.choice(["bully", "ring", "random"]),
        "ballot_range": rng.choice([3, 1000, 1_000_000]),
        "le_timeout_ms": rng.choice([100, 200, 400]),
        "le_hb_ms": rng.choice([30, 60, 150]),
        "le_part": win() if rng.random() < 0.7 else None,
        # lock
        "n_lk": n_lk,
        "lease_ms": rng.choice([30, 80, 200, 500]),
        "max_waiters": rng.choice([0, 0, 1, 2]),
        "locks": rng.randint(1, 2),
        "contenders": [{"mode": rng.choice(["yield", "yield", "poll"]), "hold_ms": rng.choice([5, 20, 60, 150, 400]),
                        "rate": rng.choice([2, 5, 10]), "expire": rng.random() < 0.3,
                        "stale": rng.random() < 0.3, "try": rng.random() < 0.2} for _ in range(n_lk)],
        "poll_ms": rng.choice([10, 10, 50, 100]),
    }


def build(cfg, seed):
    from happysimulator.components.consensus import (BullyStrategy, DistributedLock, FlexiblePaxosNode,
                                                     LeaderElection, MultiPaxosNode, PaxosNode, RandomizedStrategy,
                                                     RingStrategy)
    from happysimulator.components.consensus.raft_state_machine import KVStateMachine
    from happysimulator.components.network import Network, NetworkLink, datacenter_network
    from happysimulator.core.entity import Entity
    from happysimulator.core.event import Event
    from happysimulator.core.sim_future import SimFuture, any_of
    from happysimulator.core.simulation import Simulation
    from happysimulator.core.temporal import Instant
    from happysimulator.distributions import ConstantLatency, ExponentialLatency
    from happysimulator.faults import CrashNode, FaultSchedule
    from happysimulator.load.source import Source

    seed_all(seed)

    def _d(factory, **kw):
        """a pre-run event, constructed either before or after `Simulation(...)` (cfg['events_before_sim'])"""
        return factory, kw
    end = cfg["end"]
    net = Network(name="px-net")

    def mk_link(name):
        lat = cfg["lat_ms"] / 1000.0
        k = cfg["link"]
        if k == "datacenter":
            return datacenter_network(name)
        if k == "const":
            return NetworkLink(name=name, latency=ConstantLatency(lat))
        if k == "exp":
            return NetworkLink(name=name, latency=ExponentialLatency(lat))
        return NetworkLink(name=name, latency=ExponentialLatency(lat), packet_loss_rate=cfg["loss"],
                           jitter=ConstantLatency(0.001))

    def mesh(nodes):
        for i, a in enumerate(nodes):
            for b in nodes[i + 1:]:
                net.add_bidirectional_link(a, b, mk_link(f"l-{a.name}-{b.name}"))

    def at_s(ms):
        return Instant.from_seconds(ms / 1000.0)

    pre = []          # events scheduled before the run
    sources = []
    entities = [net]
    obs = {}

    def race(ent, fut, timeout_ms):
        """generator: wait for `fut` or a timeout; returns (ok, value)"""
        to = SimFuture()
        yield 0.0, [Event.once(time=ent.now + timeout_ms / 1000.0, event_type="HarnessTimeout",
                               fn=lambda e: to.resolve("timeout"))]
        idx, val = yield any_of(fut, to)
        return idx == 0, val

    # ------------------------------------------------------------------ single-decree Paxos
    px = [PaxosNode(name=f"px-{i}", network=net, retry_delay=cfg["retry_ms"] / 1000.0) for i in range(cfg["n_px"])]
    for nd in px:
        nd.set_peers(px)
    mesh(px)
    entities += px

    class Proposer(Entity):
        def __init__(self):
            super().__init__("proposer")
            self.results = []

        def handle_event(self, event):
            k = event.context["k"]
            nd = px[event.context["node"]]
            fut = nd.propose(f"val-{k}")
            if not fut.is_resolved:
                yield 0.0, nd.start_phase1()
            ok, val = yield from race(self, fut, cfg["px_timeout_ms"])
            self.results.append([k, nd.name, ok, val if ok else None])
            return None

    proposer = Proposer()
    entities.append(proposer)
    for k, p in enumerate(cfg["proposals"]):
        pre.append(_d(Event, time=at_s(p["at"]), event_type="Propose", target=proposer, context={"k": k, "node": p["node"]}))
    if cfg["px_part"]:
        a, b = cfg["px_part"]
        iso = px[cfg["proposals"][0]["node"]]
        holder = {}
        pre.append(_d(Event.once, time=at_s(a), event_type="PxPartition",
                              fn=lambda e: holder.__setitem__("h", net.partition([iso], [x for x in px if x is not iso]))))
        pre.append(_d(Event.once, time=at_s(b), event_type="PxHeal", fn=lambda e: holder["h"].heal()))
        pre.append(_d(Event, time=at_s(b + 20), event_type="Propose", target=proposer,
                         context={"k": 99, "node": cfg["proposals"][0]["node"]}))
    for nd in px:
        obs[nd.name] = stats_of(nd)
        obs[nd.name + ".x"] = (lambda nd=nd: {"decided": nd.is_decided, "value": nd.decided_value,
                                              "quorum": nd.quorum_size})
    obs["proposer"] = lambda: proposer.results

    # ------------------------------------------------------------------ Multi-Paxos / Flexible Paxos
    mp_sm = [KVStateMachine() for _ in range(cfg["n_mp"])]
    mp = [MultiPaxosNode(name=f"mp-{i}", network=net, state_machine=mp_sm[i],
                         heartbeat_interval=cfg["hb_ms"] / 1000.0, leader_lease_timeout=cfg["hb_ms"] * 4 / 1000.0)
          for i in range(cfg["n_mp"])]
    for nd in mp:
        nd.set_peers(mp)
    mesh(mp)
    fp_sm = [KVStateMachine() for _ in range(cfg["n_fp"])]
    fp = [FlexiblePaxosNode(name=f"fp-{i}", network=net, state_machine=fp_sm[i],
                            phase1_quorum=cfg["q1"], phase2_quorum=cfg["q2"],
                            heartbeat_interval=cfg["hb_ms"] / 1000.0) for i in range(cfg["n_fp"])]
    for nd in fp:
        nd.set_peers(fp)
    mesh(fp)
    entities += mp + fp
    clusters = {"mp": mp, "fp": fp}

    for k, s in enumerate(cfg["starts"]):
        nd = clusters[s["cluster"]][s["node"]]
        pre.append(_d(Event.once, time=at_s(s["at"]), event_type="StartPhase1", fn=lambda e, nd=nd: nd.start(), daemon=True))

    class Client(Entity):
        def __init__(self, i, cc):
            super().__init__(f"client-{i}")
            self.i, self.cc = i, cc
            self.rng = random.Random(sub_seed(seed, "client", i))
            self.n = self.ok = self.timed_out = self.forwarded = 0
            self.results = []

        def handle_event(self, event):
            self.n += 1
            nodes = clusters[self.cc["cluster"]]
            key = f"user-{self.rng.randrange(cfg['keys'])}"
            op = self.rng.choice(["set", "set", "get", "delete", "cas"])
            cmd = {"op": op, "key": key}
            if op in ("set", "cas"):
                cmd["value"] = self.i * 1000 + self.n
            if op == "cas":
                cmd["expected"] = self.i * 1000 + self.n - 1
            leaders = [nd for nd in nodes if nd.is_leader]
            pol = self.cc["policy"]
            if pol == "forward" and self.cc["cluster"] == "mp":
                # a follower forwards the command to the leader it knows (public event protocol)
                src = self.rng.choice(nodes)
                dst = next((nd for nd in nodes if nd.name == src.leader and nd is not src), None)
                if dst is not None:
                    self.forwarded += 1
                    return [net.send(src, dst, "MultiPaxosForward", payload={"command": cmd})]
            node = leaders[0] if (leaders and pol != "random") else self.rng.choice(nodes)
            fut = node.submit(cmd)
            if node.is_leader:
                # as in examples/distributed/flexible_paxos_quorums.py: the submitter triggers replication of the slot
                yield 0.0, node._replicate_slot(node.log.last_index)
            ok, val = yield from race(self, fut, cfg["cmd_timeout_ms"])
            if ok:
                self.ok += 1
                if len(self.results) < 30:
                    self.results.append([node.name, op, key, val[0], val[1]])
            else:
                self.timed_out += 1
            return None

    clients = [Client(i, cc) for i, cc in enumerate(cfg["clients"])]
    entities += clients
    for i, cc in enumerate(cfg["clients"]):
        mkc = Source.poisson if cc["poisson"] else Source.constant
        sources.append(mkc(rate=cc["rate"], target=clients[i], event_type="Tick", name=f"src-client-{i}",
                           stop_after=end - 0.5))
    for grp, sms in ((mp, mp_sm), (fp, fp_sm)):
        for i, nd in enumerate(grp):
            obs[nd.name] = stats_of(nd)
            obs[nd.name + ".x"] = (lambda nd=nd, sm=sms[i]: {
                "is_leader": nd.is_leader, "leader": nd.leader, "commit": nd.log.commit_index,
                "log": [[e.index, e.term, e.command] for e in nd.log.entries_after(0)],
                "kv": sorted(sm.data.items())})
    for cl in clients:
        obs[cl.name] = (lambda cl=cl: {"n": cl.n, "ok": cl.ok, "timeout": cl.timed_out, "fwd": cl.forwarded,
                                       "results": cl.results})

    faults = FaultSchedule("faults")
    c = cfg["crash"]
    if c:
        nm = clusters[c["cluster"]][c["node"]].name
        faults.add(CrashNode(nm, at=c["win"][0] / 1000.0, restart_at=None if c["forever"] else c["win"][1] / 1000.0))
    obs["faults"] = stats_of(faults)

    # ------------------------------------------------------------------ LeaderElection
    def strategy():
        s = cfg["strategy"]
        if s == "bully":
            return BullyStrategy()
        if s == "ring":
            return RingStrategy()
        return RandomizedStrategy(ballot_range=cfg["ballot_range"])

    le = [LeaderElection(name=f"le-{i}", network=net, strategy=strategy(),
                         election_timeout=cfg["le_timeout_ms"] / 1000.0,
                         heartbeat_interval=cfg["le_hb_ms"] / 1000.0) for i in range(cfg["n_le"])]
    for nd in le:
        for m in le:
            nd.add_member(m)
    mesh(le)
    entities += le

    def start_le(e):
        out = []
        for nd in le:
            out.extend(nd.start())
        return out

    pre.append(_d(Event.once, time=at_s(0), event_type="StartElections", fn=start_le, daemon=True))
    le_log = []
    if cfg["le_part"]:
        a, b = cfg["le_part"]
        h2 = {}

        def le_partition(e):
            cur = [nd for nd in le if nd.is_leader]
            iso = cur[0] if cur else le[-1]
            le_log.append(["part", iso.name])
            h2["h"] = net.partition([iso], [x for x in le if x is not iso])

        def le_heal(e):
            h2["h"].heal()
            le_log.append(["heal", [nd.name for nd in le if nd.is_leader]])

        pre.append(_d(Event.once, time=at_s(a), event_type="LePartition", fn=le_partition))
        pre.append(_d(Event.once, time=at_s(b), event_type="LeHeal", fn=le_heal))
    for nd in le:
        obs[nd.name] = stats_of(nd)
        obs[nd.name + ".x"] = (lambda nd=nd: {"leader": nd.current_leader, "term": nd.current_term,
                                              "is_leader": nd.is_leader})
    obs["le_log"] = lambda: le_log

    # ------------------------------------------------------------------ DistributedLock
    lock = DistributedLock("lock-mgr", lease_duration=cfg["lease_ms"] / 1000.0, max_waiters=cfg["max_waiters"])
    entities.append(lock)
    lock_names = ["db-lock", "user-17"][: cfg["locks"]]
    protected = {"last_token": {nm: 0 for nm in lock_names}, "fenced": 0, "writes": 0}

    def take_expiry():
        ev = getattr(lock, "_pending_expiry", None)
        if ev is not None:
            lock._pending_expiry = None
            return [ev]
        return []

    class Contender(Entity):
        def __init__(self, i, cc):
            super().__init__(f"contender-{i}")
            self.i, self.cc = i, cc
            self.rng = random.Random(sub_seed(seed, "contender", i))
            self.busy = False
            self.tokens = []
            self.acquired = self.rejected = self.released = self.release_failed = self.skipped = 0
            self.try_fail = self.polls = 0
            self.old = None

        def _write(self, grant):
            # the protected resource accepts only non-decreasing fencing tokens
            protected["writes"] += 1
            if grant.fencing_token < protected["last_token"][grant.lock_name]:
                protected["fenced"] += 1
            else:
                protected["last_token"][grant.lock_name] = grant.fencing_token

        def handle_event(self, event):
            if self.busy:
                self.skipped += 1
                return None
            self.busy = True
            name = lock_names[self.rng.randrange(len(lock_names))]
            if self.cc["try"]:
                grant = lock.try_acquire(name, self.name)
                if grant is None:
                    self.try_fail += 1
                    self.busy = False
                    return None
                yield 0.0, take_expiry()
            else:
                fut = lock.acquire(name, self.name)
                if self.cc["mode"] == "poll":
                    while not fut.is_resolved:
                        self.polls += 1
                        yield cfg["poll_ms"] / 1000.0
                    grant = fut.value
                else:
                    grant = yield fut
                if grant is None:
                    self.rejected += 1
                    self.busy = False
                    return None
                yield 0.0, take_expiry()
            self.acquired += 1
            if len(self.tokens) < 40:
                self.tokens.append([name, grant.fencing_token, grant.holder, grant.expires_at])
            yield self.cc["hold_ms"] / 1000.0
            self._write(grant)
            if self.cc["stale"] and self.old is not None and self.old[0] == name:
                if lock.release(name, self.old[1]):     # an old token must not release the current holder
                    self.released += 1
                else:
                    self.release_failed += 1
            self.old = (name, grant.fencing_token)
            if not self.cc["expire"]:
                if lock.release(name, grant.fencing_token):
                    self.released += 1
                else:
                    self.release_failed += 1    # the lease had already expired
            self.busy = False
            return None

    contenders = [Contender(i, cc) for i, cc in enumerate(cfg["contenders"])]
    entities += contenders
    for i, cc in enumerate(cfg["contenders"]):
        sources.append(Source.constant(rate=cc["rate"], target=contenders[i], event_type="Tick",
                                       name=f"src-contender-{i}", stop_after=end - 0.5))
    obs["lock"] = stats_of(lock)
    obs["lock.x"] = lambda: {"holders": [[nm, lock.get_holder(nm), lock.get_fencing_token(nm)] for nm in lock_names],
                             "active": lock.active_locks, "waiters": lock.total_waiters, "protected": protected}
    for ct in contenders:
        obs[ct.name] = (lambda ct=ct: {"acq": ct.acquired, "rej": ct.rejected, "rel": ct.released,
                                       "rel_failed": ct.release_failed, "skipped": ct.skipped, "polls": ct.polls,
                                       "try_fail": ct.try_fail, "tokens": ct.tokens})

    obs["net"] = lambda: {"routed": net.events_routed, "no_route": net.events_dropped_no_route,
                          "partition": net.events_dropped_partition,
                          "matrix": [[s.source, s.destination, s.packets_sent, s.packets_dropped]
                                     for s in net.traffic_matrix()]}

    if cfg["events_before_sim"]:
        # as examples/distributed/{multi_leader_replication,flexible_paxos_quorums}.py do: the pre-run events are
        # constructed first, the Simulation afterwards
        evs = [f(**kw) for f, kw in pre]
        sim = Simulation(end_time=T(end), sources=sources, entities=entities, fault_schedule=faults)
    else:
        sim = Simulation(end_time=T(end), sources=sources, entities=entities, fault_schedule=faults)
        evs = [f(**kw) for f, kw in pre]
    for ev in evs:
        sim.schedule(ev)
    return sim, obs
