"""Supporting static audit for C07 (AST scan, not a proof and not a verdict).

Lists, in `happysimulator/components/**.py`:
  (i)  generator functions with a loop whose body yields a literal zero delay (`yield 0` / `yield 0.0`
       / `yield 0, …`) — a wait implemented as a zero-delay poll;
  (ii) generator functions that bind a name to an expression reading `.now`, then `yield`, then use
       that name as `Event(time=<name>)` (or `time=<name> + …`) without re-binding it — a stale stamp.
Its only use: point the scenario generator at those component directories first, and flag new
occurrences in the evidence.
"""
from __future__ import annotations

import ast
from pathlib import Path


def _is_zero(node) -> bool:
    if isinstance(node, ast.Constant) and isinstance(node.value, (int, float)) and not isinstance(node.value, bool):
        return node.value == 0
    if isinstance(node, ast.Tuple) and node.elts:
        return _is_zero(node.elts[0])
    return False


def _reads_now(node) -> bool:
    for n in ast.walk(node):
        if isinstance(n, ast.Attribute) and n.attr in ("now", "_now", "local_now"):
            return True
        # `now = event.time`: the arrival time is "now" only until the first yield
        if isinstance(n, ast.Attribute) and n.attr == "time" and isinstance(n.value, ast.Name) and "event" in n.value.id.lower():
            return True
        if isinstance(n, ast.Call) and isinstance(n.func, ast.Attribute) and n.func.attr in ("now", "_now"):
            return True
    return False


def _own_nodes(fn):
    """nodes of the function body, not descending into nested function definitions"""
    stack = list(fn.body)
    while stack:
        n = stack.pop()
        yield n
        for c in ast.iter_child_nodes(n):
            if isinstance(c, (ast.FunctionDef, ast.AsyncFunctionDef, ast.Lambda, ast.ClassDef)):
                continue
            stack.append(c)


def audit_function(fn, rel):
    out = []
    nodes = list(_own_nodes(fn))
    yields = [n for n in nodes if isinstance(n, (ast.Yield, ast.YieldFrom))]
    if not yields:
        return out
    # (i) zero-delay yield inside a loop
    for loop in nodes:
        if isinstance(loop, (ast.While, ast.For)):
            for n in ast.walk(loop):
                if isinstance(n, ast.Yield) and n.value is not None and _is_zero(n.value):
                    flagged = not (isinstance(loop, ast.While) and isinstance(loop.test, ast.Constant))
                    out.append({"kind": "zero-delay-loop", "where": f"{rel}:{n.lineno}", "func": fn.name,
                                "behind_flag": bool(flagged)})
                    break
    # (ii) stale stamp
    binds = {}  # name -> sorted list of binding lines that read .now
    rebinds = {}
    for n in nodes:
        if isinstance(n, ast.Assign) and len(n.targets) == 1 and isinstance(n.targets[0], ast.Name):
            nm = n.targets[0].id
            rebinds.setdefault(nm, []).append(n.lineno)
            if _reads_now(n.value):
                binds.setdefault(nm, []).append(n.lineno)
    ylines = sorted(y.lineno for y in yields)
    for n in nodes:
        if isinstance(n, ast.Call) and getattr(n.func, "id", getattr(n.func, "attr", "")) in ("Event", "ProcessContinuation"):
            for kw in n.keywords:
                if kw.arg != "time":
                    continue
                names = [x.id for x in ast.walk(kw.value) if isinstance(x, ast.Name)]
                for nm in names:
                    for b in binds.get(nm, []):
                        if b >= n.lineno:
                            continue
                        # last (re)binding before the use
                        last = max([r for r in rebinds.get(nm, []) if r < n.lineno], default=b)
                        if last != b:
                            continue
                        if any(b < y < n.lineno for y in ylines):
                            out.append({"kind": "stale-now-stamp", "where": f"{rel}:{n.lineno}", "func": fn.name,
                                        "name": nm, "bound_at": b})
    # (iii) an Event stamped with `.now` is built, kept in a name / list, and handed over after a later yield
    held = {}  # name -> line where an Event(time=…now…) was stored under that name
    for n in nodes:
        call = None
        tgt = None
        if isinstance(n, ast.Assign) and len(n.targets) == 1 and isinstance(n.targets[0], ast.Name):
            call, tgt = n.value, n.targets[0].id
        elif isinstance(n, ast.Expr) and isinstance(n.value, ast.Call) and isinstance(n.value.func, ast.Attribute) \
                and n.value.func.attr in ("append", "extend") and isinstance(n.value.func.value, ast.Name) and n.value.args:
            call, tgt = n.value.args[0], n.value.func.value.id
        if call is None:
            continue
        for c in ast.walk(call):
            if isinstance(c, ast.Call) and getattr(c.func, "id", getattr(c.func, "attr", "")) == "Event":
                if any(kw.arg == "time" and _reads_now(kw.value) for kw in c.keywords):
                    held.setdefault(tgt, n.lineno)
    # a held event appended to a list: `ev = Event(time=self.now + …)` … `events.append(ev)`
    for n in nodes:
        if isinstance(n, ast.Expr) and isinstance(n.value, ast.Call) and isinstance(n.value.func, ast.Attribute) \
                and n.value.func.attr in ("append", "extend") and isinstance(n.value.func.value, ast.Name) and n.value.args:
            for x in ast.walk(n.value.args[0]):
                if isinstance(x, ast.Name) and x.id in held and x.id != n.value.func.value.id:
                    held.setdefault(n.value.func.value.id, held[x.id])
    # simple aliases: `result = relay_events`
    for n in sorted((x for x in nodes if isinstance(x, ast.Assign)), key=lambda x: x.lineno):
        if len(n.targets) == 1 and isinstance(n.targets[0], ast.Name) and isinstance(n.value, ast.Name) \
                and n.value.id in held:
            held.setdefault(n.targets[0].id, held[n.value.id])
    for n in nodes:
        val = None
        if isinstance(n, ast.Return) and n.value is not None:
            val = n.value
        elif isinstance(n, ast.Yield) and isinstance(n.value, ast.Tuple) and len(n.value.elts) > 1:
            val = n.value.elts[1]
        if val is None:
            continue
        for x in ast.walk(val):
            if isinstance(x, ast.Name) and x.id in held:
                b = held[x.id]
                if any(b < y < n.lineno for y in ylines) or any(
                        isinstance(lp, (ast.For, ast.While)) and lp.lineno <= b <= (lp.end_lineno or b)
                        and any(lp.lineno <= y <= (lp.end_lineno or y) and y != n.lineno for y in ylines)
                        for lp in nodes):
                    out.append({"kind": "event-held-across-yield", "where": f"{rel}:{b}", "func": fn.name,
                                "name": x.id, "handed_over_at": n.lineno})
    return out


def run_audit(repo: Path):
    base = repo / "happysimulator" / "components"
    findings = []
    files = 0
    gens = 0
    for f in sorted(base.rglob("*.py")):
        try:
            tree = ast.parse(f.read_text())
        except Exception:
            continue
        files += 1
        rel = str(f.relative_to(repo / "happysimulator"))
        for n in ast.walk(tree):
            if isinstance(n, (ast.FunctionDef, ast.AsyncFunctionDef)):
                if any(isinstance(x, (ast.Yield, ast.YieldFrom)) for x in _own_nodes(n)):
                    gens += 1
                    findings += audit_function(n, rel)
    # de-duplicate
    seen, uniq = set(), []
    for x in findings:
        k = (x["kind"], x["where"])
        if k not in seen:
            seen.add(k)
            uniq.append(x)
    return {"files": files, "generator_functions": gens, "findings": uniq}


# ----------------------------------------------------------------------------- C03: nondeterminism hazards
_CLOCKS = {"time", "monotonic", "perf_counter", "time_ns", "monotonic_ns", "perf_counter_ns"}
DIR_ALIAS = {"queue_policies": "queues", "server": "queues", "rate_limiter": "ratelimit", "load_balancer": "loadbalancer",
             "consensus": "raft"}


def _hazards(tree):
    """(kind, line) of constructs whose result can depend on hash randomisation, OS entropy, wall clock or addresses"""
    out = []
    for n in ast.walk(tree):
        if isinstance(n, (ast.Set, ast.SetComp)):
            out.append(("set", n.lineno))
        elif isinstance(n, ast.Call):
            f = n.func
            name = f.id if isinstance(f, ast.Name) else (f.attr if isinstance(f, ast.Attribute) else "")
            base = f.value.id if isinstance(f, ast.Attribute) and isinstance(f.value, ast.Name) else ""
            if name in ("set", "frozenset") and isinstance(f, ast.Name):
                out.append(("set", n.lineno))
            elif name in ("hash", "id") and isinstance(f, ast.Name):
                out.append((name, n.lineno))
            elif name in ("Random", "default_rng", "RandomState", "SystemRandom") and not n.args and not n.keywords:
                out.append(("unseeded-rng", n.lineno))
            elif name in ("Random", "default_rng", "RandomState"):
                out.append(("own-rng", n.lineno))
            elif base == "time" and name in _CLOCKS:
                out.append(("wall-clock", n.lineno))
            elif name in ("uuid4", "uuid1", "urandom", "getrandbits") or (base == "datetime" and name in ("now", "utcnow")):
                out.append(("entropy", n.lineno))
        elif isinstance(n, ast.Attribute) and isinstance(n.value, ast.Name) and n.value.id == "time" and n.attr in _CLOCKS:
            out.append(("wall-clock", n.lineno))
    return out


def run_determinism_audit(repo: Path):
    """per component directory: how many hazard sites (supporting only: weights the C03 generator, recorded in the
    evidence; every hazard is legitimate if its result never reaches a delivery or a statistic)"""
    base = repo / "happysimulator"
    per_dir, sites = {}, []
    for sub in ("components", "load", "faults", "distributions", "core"):
        for f in sorted((base / sub).rglob("*.py")):
            try:
                tree = ast.parse(f.read_text())
            except Exception:
                continue
            rel = f.relative_to(base)
            d = rel.parts[1] if sub == "components" and len(rel.parts) > 2 else (
                Path(rel.parts[1]).stem if sub == "components" else sub)
            for kind, line in _hazards(tree):
                per_dir.setdefault(d, {}).setdefault(kind, 0)
                per_dir[d][kind] += 1
                sites.append(f"{rel}:{line} {kind}")
    return {"per_dir": per_dir, "sites": sites}


def hot_families_c03(repo: Path, family_names):
    """families whose component directory has hazard sites other than plain own-rng construction"""
    aud = run_determinism_audit(repo)
    hot = []
    for d, kinds in aud["per_dir"].items():
        score = sum(v for k, v in kinds.items() if k != "own-rng")
        fam = DIR_ALIAS.get(d, d)
        if score and fam in family_names and fam not in hot:
            hot.append(fam)
    return sorted(hot), aud


if __name__ == "__main__":
    import json
    import sys

    print(json.dumps(run_audit(Path(sys.argv[1] if len(sys.argv) > 1 else "/repo")), indent=1))
