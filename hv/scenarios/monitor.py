"""Run monitor installed from outside the library (no /repo edits).

Per `Simulation` instance it wraps the bound methods `EventHeap.push` and `EventHeap.pop`
(instance attributes — the run loops look the methods up on the instance, so the run itself is
untouched: no control surface, no tracing, same loop) and records

  * every push: (clock at push, event.time, emitter label);
  * every pop that the loop will deliver (not cancelled, not in the past): (time, event type, target name);
  * deliveries per clock value; above `cap` the run is aborted with `SpinAbort`;
  * "Time travel detected" warnings of `happysimulator.core.simulation` (logging handler).

Private attributes used: `Simulation._event_heap`, `Simulation._clock`, `Event._cancelled`
(named in the trusted base of C07/C03).
"""
from __future__ import annotations

import logging
import re

INF_NS = 2**63 - 1  # stands for Instant.Infinity in traces


class SpinAbort(Exception):
    """more than `cap` deliveries at one clock value"""


class RunawayAbort(Exception):
    """total delivery cap exceeded (scenario too large — harness guard, not a verdict)"""


class _TimeTravelCounter(logging.Handler):
    def __init__(self):
        super().__init__(level=logging.WARNING)
        self.count = 0
        self.first = []

    def emit(self, record):
        try:
            msg = record.getMessage()
            if "Time travel detected" in msg:
                self.count += 1
                if len(self.first) < 3:
                    m = re.search(r"event_type=(\S+)", msg)
                    self.first.append(m.group(1) if m else "?")
        except Exception:
            pass


def ns_of(instant) -> int:
    try:
        from happysimulator.core.temporal import Instant

        if instant == Instant.Infinity:
            return INF_NS
    except Exception:
        pass
    return int(instant.nanoseconds)


_SAN = re.compile(r"[^A-Za-z0-9_.:#\-]")
_DIG = re.compile(r"\d+")


def label(s) -> str:
    """stable token for signatures: no whitespace, digit runs collapsed"""
    return _DIG.sub("#", _SAN.sub("_", str(s))) or "_"


def _target_type(target) -> str:
    t = getattr(target, "_resource", None)
    if t is not None and type(target).__name__ == "_QueuedResourceWorkerAdapter":
        target = t
    return type(target).__name__


def _target_name(target) -> str:
    n = getattr(target, "name", None)
    return str(n) if n else type(target).__name__


class Monitor:
    def __init__(self, sim, cap: int = 20000, total_cap: int = 400_000, keep_pushes: bool = True,
                 keep_deliveries: bool = True):
        self.sim = sim
        self.cap = cap
        self.total_cap = total_cap
        self.keep_pushes = keep_pushes
        self.keep_deliveries = keep_deliveries
        self.pushes = []        # (clock ns, time ns, emitter label)
        self.n_pushes = 0
        self.past = []          # offending pushes (clock ns, time ns, emitter, detail)
        self.n_past = 0
        self.deliveries = []    # (time ns, event type, target name)
        self.n_deliveries = 0
        self.per_clock = []     # (clock ns, count) for each distinct clock value, in order
        self._cur_t = None
        self._cur_n = 0
        self.max_per_instant = 0
        self.n_cancelled = 0
        self.n_stale_pops = 0
        self.spin = 0
        self.spin_at = None
        self.runaway = 0
        self._emitter = "init"
        self._tt = _TimeTravelCounter()
        self._logger = logging.getLogger("happysimulator.core.simulation")
        self._attached = False

    # ------------------------------------------------------------------ attach / detach
    def attach(self):
        heap = self.sim._event_heap
        clock = self.sim._clock
        start = ns_of(clock.now)
        # events pushed before the run (sources, probes, fault schedule, sim.schedule)
        for ev in sorted(heap._heap):
            self._record_push(start, ev, "init")
        orig_push, orig_pop = heap.push, heap.pop
        mon = self

        def push(events):
            now = ns_of(clock.now)
            if isinstance(events, list):
                for ev in events:
                    mon._record_push(now, ev, mon._emitter)
            else:
                mon._record_push(now, events, mon._emitter)
            return orig_push(events)

        def pop():
            ev = orig_pop()
            if ev._cancelled:
                mon.n_cancelled += 1
                return ev
            now = clock.now
            if ev.time < now:
                mon.n_stale_pops += 1
                return ev
            t = ns_of(ev.time)
            mon.n_deliveries += 1
            if mon.keep_deliveries:
                mon.deliveries.append((t, str(ev.event_type), _target_name(ev.target)))
            if t == mon._cur_t:
                mon._cur_n += 1
            else:
                mon._flush_clock()
                mon._cur_t, mon._cur_n = t, 1
            mon._emitter = _target_type(ev.target)
            if mon._cur_n > mon.cap:
                mon.spin = 1
                mon.spin_at = (t, mon._emitter, str(ev.event_type))
                raise SpinAbort(f"more than {mon.cap} deliveries at clock {t}")
            if mon.n_deliveries > mon.total_cap:
                mon.runaway = 1
                raise RunawayAbort(f"more than {mon.total_cap} deliveries")
            return ev

        heap.push = push
        heap.pop = pop
        self._orig = (orig_push, orig_pop)
        self._logger.addHandler(self._tt)
        self._attached = True
        return self

    def detach(self):
        if not self._attached:
            return
        self._flush_clock()
        heap = self.sim._event_heap
        try:
            del heap.push
            del heap.pop
        except AttributeError:
            pass
        self._logger.removeHandler(self._tt)
        self._attached = False

    # ------------------------------------------------------------------ recording
    def _flush_clock(self):
        if self._cur_t is not None and self._cur_n:
            self.per_clock.append((self._cur_t, self._cur_n))
            if self._cur_n > self.max_per_instant:
                self.max_per_instant = self._cur_n
        self._cur_t, self._cur_n = None, 0

    def _record_push(self, now_ns, ev, emitter):
        t = ns_of(ev.time)
        self.n_pushes += 1
        if t < now_ns:
            what = f"{label(_target_type(ev.target))}.{label(ev.event_type)}"
            em = f"{label(emitter)}/{what}"      # who handed it to the engine / whose event it is
            self.n_past += 1
            if len(self.past) < 5:
                self.past.append((now_ns, t, em, what))
        else:
            em = label(emitter)
        if self.keep_pushes:
            self.pushes.append((now_ns, t, em))

    @property
    def timetravel(self) -> int:
        return self._tt.count

    @property
    def timetravel_types(self):
        return list(self._tt.first)


class MultiMonitor:
    """One Monitor per partition of a `ParallelSimulation` (its `.simulations` dict, in declaration order), presented
    with the attributes of a single Monitor: counters are summed, the delivery sequence is the concatenation of the
    partitions' sequences in declaration order (target names prefixed with the partition name — the order *within* a
    partition is the observable; partitions run in threads), per-clock delivery counts are merged by clock value."""

    def __init__(self, psim, cap=20000, total_cap=400_000, keep_pushes=True, keep_deliveries=True):
        self.sim = psim
        self.cap = cap
        self.names = list(psim.simulations)
        self.parts = [Monitor(s, cap=cap, total_cap=total_cap, keep_pushes=keep_pushes, keep_deliveries=keep_deliveries)
                      for s in psim.simulations.values()]
        self._tt = _TimeTravelCounter()
        self._logger = logging.getLogger("happysimulator.core.simulation")

    def attach(self):
        for m in self.parts:
            m.attach()
            m._logger.removeHandler(m._tt)       # one shared counter instead of one per partition
        self._logger.addHandler(self._tt)
        return self

    def detach(self):
        for m in self.parts:
            m.detach()
        self._logger.removeHandler(self._tt)

    def _sum(self, attr):
        return sum(getattr(m, attr) for m in self.parts)

    n_pushes = property(lambda self: self._sum("n_pushes"))
    n_past = property(lambda self: self._sum("n_past"))
    n_deliveries = property(lambda self: self._sum("n_deliveries"))
    n_cancelled = property(lambda self: self._sum("n_cancelled"))
    n_stale_pops = property(lambda self: self._sum("n_stale_pops"))
    spin = property(lambda self: max(m.spin for m in self.parts))
    runaway = property(lambda self: max(m.runaway for m in self.parts))
    max_per_instant = property(lambda self: max(m.max_per_instant for m in self.parts))
    timetravel = property(lambda self: self._tt.count)
    timetravel_types = property(lambda self: list(self._tt.first))

    @property
    def spin_at(self):
        return next((m.spin_at for m in self.parts if m.spin_at), None)

    @property
    def past(self):
        return [x for m in self.parts for x in m.past][:5]

    @property
    def pushes(self):
        return [x for m in self.parts for x in m.pushes]

    @property
    def deliveries(self):
        return [(t, typ, f"{name}/{tgt}") for name, m in zip(self.names, self.parts) for (t, typ, tgt) in m.deliveries]

    @property
    def per_clock(self):
        merged = {}
        for m in self.parts:
            for c, n in m.per_clock:
                merged[c] = merged.get(c, 0) + n
        return sorted(merged.items())


class RunResult:
    """what one monitored run produced"""

    def __init__(self):
        self.family = None
        self.mon: Monitor | None = None
        self.stats = None
        self.error = None      # "Type where" of an exception raised by the library during the run
        self.summary = None


def run_scenario(fam_name, cfg, seed, cap=20000, total_cap=400_000, before_run=None,
                 keep_pushes=True, keep_deliveries=True) -> RunResult:
    """build the scenario, attach the monitor, run, read the observers"""
    from hv.scenarios import family

    fam = family(fam_name)
    res = RunResult()
    res.family = fam_name
    try:
        sim, observers = fam.build(cfg, seed)
    except Exception as e:
        # the library rejected the configuration (or the builder is wrong): reported, nothing ran
        import traceback

        where = ""
        for fr in reversed(traceback.extract_tb(e.__traceback__)):
            if "/hv/" not in fr.filename:
                where = f"{fr.filename.rsplit('/', 1)[-1]}:{fr.name}"
                break
        res.mon = Monitor(None, cap=cap, total_cap=total_cap)
        res.error = f"build:{type(e).__name__} {where}".strip()
        res.stats = {}
        return res
    if before_run is not None:
        before_run(sim)
    multi = isinstance(getattr(sim, "simulations", None), dict)       # a ParallelSimulation: one monitor per partition
    mon = (MultiMonitor if multi else Monitor)(sim, cap=cap, total_cap=total_cap, keep_pushes=keep_pushes,
                                               keep_deliveries=keep_deliveries).attach()
    res.mon = mon
    try:
        sim.run()
    except (SpinAbort, RunawayAbort):
        pass
    except Exception as e:  # the library raising during a run is an observable
        import traceback

        where = ""
        for fr in reversed(traceback.extract_tb(e.__traceback__)):
            if "/hv/" not in fr.filename:
                where = f"{fr.filename.rsplit('/', 1)[-1]}:{fr.name}"
                break
        res.error = f"{type(e).__name__} {where}"
    finally:
        mon.detach()
    stats = {}
    for k in sorted(observers or {}):
        try:
            stats[k] = observers[k]()
        except Exception as e:
            stats[k] = f"observer-error {type(e).__name__}"
    res.stats = stats
    return res
