"""CRDT: groups of 2–4 `CRDTStore` replicas per CRDT type (GCounter, PNCounter, ORSet, LWWRegister), gossiping
(push-pull, random peer) over one `Network` with latency / jitter / loss; 3–6 writers issue concurrent updates
on overlapping string keys ("user-3", "k1") at different replicas — Write events with operation
increment / decrement / add / remove, reads with reply futures; LWW registers are written with explicit
`HLCTimestamp`s (`get_or_create(key).set(value, ts)`, the CRDT's public API) — and, in a few configurations, also
through the store's own Write event with the default operation "set"; a partition splits every group and heals,
extra gossip ticks are kicked at the heal.  Observers expose every replica's final values (sorted)."""
from __future__ import annotations

import random

from hv.scenarios.base import T, seed_all, stats_of, sub_seed

NAME = "crdt"
MODEL = "C18"
COMPONENTS = ["CRDTStore", "GCounter", "PNCounter", "LWWRegister", "ORSet", "HLCTimestamp", "Network", "NetworkLink",
              "Partition", "SimFuture", "Source"]

TYPES = ["gcounter", "pncounter", "orset", "lww"]


def gen_cfg(rng):
    end = rng.choice([2.0, 3.0, 4.0])
    end_ms = int(end * 1000)
    types = [t for t in TYPES if rng.random() < 0.7] or [rng.choice(TYPES)]
    a = rng.randint(300, end_ms - 1200)
    return {
        "end": end,
        "types": types,
        "replicas": {t: rng.randint(2, 4) for t in types},
        "gossip_ms": rng.choice([40, 100, 250]),
        "gossip_off": rng.random() < 0.1,          # one replica per group never starts its own gossip
        "link": rng.choice(["const", "exp", "exp-lossy", "datacenter", "jitter"]),
        "lat_ms": rng.randint(1, 30),
        "loss": rng.choice([0.05, 0.2]),
        "keys": rng.randint(1, 5),
        "elements": rng.randint(2, 6),
        "writers": [{"rate": rng.choice([10, 20, 40, 80]), "poisson": rng.random() < 0.5,
                     "read_frac": rng.choice([0.0, 0.2, 0.5]), "burst": rng.choice([1, 1, 2, 3])}
                    for _ in range(rng.randint(3, 6))],
        "part": [a, a + rng.randint(200, 900)] if rng.random() < 0.8 else None,
        "asym": rng.random() < 0.25,
        "kick": rng.randint(0, 2),
        "skew_ms": [rng.choice([0, 0, 5, -5, 50]) for _ in range(4)],   # LWW writers' clock skew per replica
        "lww_via_write_event": rng.random() < 0.1,
        "quiet_ms": rng.choice([300, 600, 1000]),  # writers stop this long before the end (convergence time)
    }


def build(cfg, seed):
    from happysimulator.components.crdt import CRDTStore, GCounter, LWWRegister, ORSet, PNCounter
    from happysimulator.components.network import Network, NetworkLink, datacenter_network
    from happysimulator.core.entity import Entity
    from happysimulator.core.event import Event
    from happysimulator.core.logical_clocks import HLCTimestamp
    from happysimulator.core.sim_future import SimFuture
    from happysimulator.core.simulation import Simulation
    from happysimulator.core.temporal import Instant
    from happysimulator.distributions import ConstantLatency, ExponentialLatency
    from happysimulator.load.source import Source

    seed_all(seed)
    end = cfg["end"]
    net = Network(name="crdt-net")

    def mk_link(name):
        lat = cfg["lat_ms"] / 1000.0
        k = cfg["link"]
        if k == "datacenter":
            return datacenter_network(name)
        if k == "const":
            return NetworkLink(name=name, latency=ConstantLatency(lat))
        if k == "exp":
            return NetworkLink(name=name, latency=ExponentialLatency(lat))
        if k == "jitter":
            return NetworkLink(name=name, latency=ConstantLatency(lat), jitter=ExponentialLatency(lat / 2))
        return NetworkLink(name=name, latency=ExponentialLatency(lat), packet_loss_rate=cfg["loss"])

    def at_s(ms):
        return Instant.from_seconds(ms / 1000.0)

    factories = {"gcounter": lambda nid: GCounter(nid), "pncounter": lambda nid: PNCounter(nid),
                 "orset": lambda nid: ORSet(nid), "lww": lambda nid: LWWRegister(nid)}
    groups = {}
    for t in cfg["types"]:
        reps = [CRDTStore(f"{t}-{'abcd'[i]}", network=net, crdt_factory=factories[t],
                          gossip_interval=cfg["gossip_ms"] / 1000.0) for i in range(cfg["replicas"][t])]
        for r in reps:
            r.add_peers([x for x in reps if x is not r])
        for i, a in enumerate(reps):
            for b in reps[i + 1:]:
                net.add_bidirectional_link(a, b, mk_link(f"l-{a.name}-{b.name}"))
        groups[t] = reps
    stores = [r for t in cfg["types"] for r in groups[t]]

    class Writer(Entity):
        def __init__(self, i, wc):
            super().__init__(f"writer-{i}")
            self.i, self.wc = i, wc
            self.rng = random.Random(sub_seed(seed, "writer", i))
            self.n = self.writes = self.reads = self.replies = 0
            self.logical = 0
            self.seen = []

        def _one(self):
            self.n += 1
            t = cfg["types"][(self.i + self.n) % len(cfg["types"])]
            reps = groups[t]
            r_i = self.rng.randrange(len(reps))
            rep = reps[r_i]
            key = self.rng.choice(["user-", "k"]) + str(self.rng.randrange(cfg["keys"]))
            if self.rng.random() < self.wc["read_frac"]:
                self.reads += 1
                fut = SimFuture()
                ev = Event(time=self.now, event_type="Read", target=rep,
                           context={"metadata": {"key": key, "reply_future": fut}})
                return ev, fut, (rep.name, key)
            self.writes += 1
            md = {"key": key}
            if t == "gcounter":
                md.update(operation="increment", value=self.rng.randint(1, 5))
            elif t == "pncounter":
                md.update(operation=self.rng.choice(["increment", "decrement"]), value=self.rng.randint(1, 5))
            elif t == "orset":
                md.update(operation=self.rng.choice(["add", "add", "remove"]),
                          value=f"user-{self.rng.randrange(cfg['elements'])}")
            else:
                if cfg["lww_via_write_event"]:
                    md.update(operation="set", value=f"{self.name}:{self.n}")     # the store's default operation
                else:
                    self.logical += 1
                    ts = HLCTimestamp(self.now.nanoseconds + cfg["skew_ms"][r_i] * 1_000_000, self.logical, rep.name)
                    rep.get_or_create(key).set(f"{self.name}:{self.n}", ts)
                    return None, None, None
            fut = SimFuture() if self.n % 2 else None
            if fut is not None:
                md["reply_future"] = fut
            return Event(time=self.now, event_type="Write", target=rep, context={"metadata": md}), fut, None

        def handle_event(self, event):
            for _ in range(self.wc["burst"]):
                ev, fut, what = self._one()
                if ev is None:
                    continue
                if fut is None:
                    yield 0.0, [ev]
                    continue
                yield 0.0, [ev]
                res = yield fut
                self.replies += 1
                if what is not None and len(self.seen) < 25:
                    v = res.get("value")
                    if isinstance(v, (set, frozenset)):
                        v = sorted(v)
                    self.seen.append([what[0], what[1], v])
            return None

    writers = [Writer(i, wc) for i, wc in enumerate(cfg["writers"])]
    sources = []
    stop = end - cfg["quiet_ms"] / 1000.0
    for i, wc in enumerate(cfg["writers"]):
        mk = Source.poisson if wc["poisson"] else Source.constant
        sources.append(mk(rate=wc["rate"], target=writers[i], event_type="Tick", name=f"src-writer-{i}",
                          stop_after=stop))

    sim = Simulation(end_time=T(end), sources=sources, entities=[net, *stores, *writers])
    for t in cfg["types"]:
        for i, r in enumerate(groups[t]):
            if cfg["gossip_off"] and i == 0:
                continue
            ev = r.get_gossip_event()
            if ev is not None:
                sim.schedule(ev)
    log = []
    if cfg["part"]:
        a, b = cfg["part"]
        hs = []

        def split(e):
            for t in cfg["types"]:
                reps = groups[t]
                k = max(1, len(reps) // 2)
                hs.append(net.partition(reps[:k], reps[k:], asymmetric=cfg["asym"]))

        def heal(e):
            log.append([[r.name, r.convergence_lag] for r in stores])
            for h in hs:
                h.heal()
            out = []
            for t in cfg["types"]:
                for r in groups[t][: cfg["kick"]]:
                    out.append(Event(time=e.time, event_type="GossipTick", target=r, daemon=True))
            return out

        sim.schedule(Event.once(time=at_s(a), event_type="Split", fn=split))
        sim.schedule(Event.once(time=at_s(b), event_type="HealAll", fn=heal))

    def value_of(c):
        v = c.value
        if isinstance(v, (set, frozenset)):
            return sorted(v)
        return v

    def detail(c):
        d = {"value": value_of(c), "node": c.node_id}
        if isinstance(c, GCounter):
            d["per_node"] = [[r.name, c.node_value(r.name)] for r in stores if c.node_value(r.name)]
        elif isinstance(c, PNCounter):
            d["inc"], d["dec"] = c.increments, c.decrements
        elif isinstance(c, ORSet):
            d["len"] = len(c)
            d["has_user_0"] = c.contains("user-0")
        else:
            ts = c.timestamp
            d["ts"] = None if ts is None else [ts.physical_ns, ts.logical, ts.node_id]
        return d

    obs = {"log": lambda: log,
           "net": lambda: {"routed": net.events_routed, "no_route": net.events_dropped_no_route,
                           "partition": net.events_dropped_partition,
                           "matrix": [[s.source, s.destination, s.packets_sent, s.packets_dropped]
                                      for s in net.traffic_matrix()]}}
    for r in stores:
        obs[r.name] = stats_of(r)
        obs[r.name + ".x"] = (lambda r=r: {"lag": r.convergence_lag,
                                           "data": [[k, detail(c)] for k, c in sorted(r.crdts.items())]})
    for t in cfg["types"]:
        obs["converged-" + t] = (lambda t=t: [
            [k, all(r.crdts.get(k) is not None and groups[t][0].crdts.get(k) is not None
                    and value_of(r.crdts[k]) == value_of(groups[t][0].crdts[k]) for r in groups[t])]
            for k in sorted(dict.fromkeys(k for r in groups[t] for k in r.crdts))])
    for w in writers:
        obs[w.name] = (lambda w=w: {"n": w.n, "w": w.writes, "r": w.reads, "replies": w.replies, "seen": w.seen})
    return sim, obs
