"""CRDT: groups of 2–4 `CRDTStore` replicas per CRDT type (GCounter, PNCounter, ORSet, LWWRegister), gossiping
(push-pull, random peer) over one `Network` with latency / jitter / loss; 3–6 writers issue concurrent updates
on overlapping string keys ("user-3", "k1") at different replicas — Write events with operation
increment / decrement / add / remove, reads with reply futures; LWW registers are written with explicit
`HLCTimestamp`s (`get_or_create(key).set(value, ts)`, the CRDT's public API) — and, in a few configurations, also
through the store's own Write event with the default operation "set"; a partition splits every group and heals,
extra gossip ticks are kicked at the heal.  Observers expose every replica's final values (sorted).

Widened configuration space: gossip intervals from a boundary palette (5 ms … longer than the run, 0 = disabled, values
that lose a nanosecond in `Instant.from_seconds`, a different interval per CRDT type), the store's default
`crdt_factory`, `LWWRegister(node_id, value, timestamp)` with initial contents, a replica without peers, a replica that
starts gossiping in the middle of the run (`get_gossip_event()` at now > 0), zero-latency / always-lossy / never-lossy
links, bursts of same-instant writes, heavy write load, large key spaces, operations the CRDT type does not offer,
partition windows on lossy instants that may outlive the run, an occasional long run."""
from __future__ import annotations

import random

from hv.scenarios.base import T, dur_ms, seed_all, stats_of, sub_seed

NAME = "crdt"
MODEL = "C18"
COMPONENTS = ["CRDTStore", "GCounter", "PNCounter", "LWWRegister", "ORSet", "HLCTimestamp", "Network", "NetworkLink",
              "Partition", "SimFuture", "Source"]

TYPES = ["gcounter", "pncounter", "orset", "lww"]


def gen_cfg(rng):
    end = rng.choice([2.0, 3.0, 4.0]) if rng.random() > 0.1 else rng.choice([8.0, 10.0])
    end_ms = int(end * 1000)
    # prefer all four CRDT types side by side in one run; single-type scenarios still occur
    r = rng.random()
    if r < 0.55:
        types = list(TYPES)
    elif r < 0.75:
        types = [rng.choice(TYPES)]
    else:
        types = [t for t in TYPES if rng.random() < 0.7] or [rng.choice(TYPES)]
    a = dur_ms(rng, 100, end_ms - 600)
    heavy = rng.random() < 0.2
    many_keys = rng.random() < 0.15
    gossip = dur_ms(rng, 5, 1500, zero=True) if rng.random() < 0.8 else dur_ms(rng, 1000, end_ms + 500)
    cfg = {
        "end": end,
        "types": types,
        "replicas": {t: rng.choice([1, 2, 2, 3, 3, 4, 5]) for t in types},
        "gossip_ms": gossip,
        # a different interval for some types (the order gossip-interval / latency / partition length varies per group)
        "gossip_by_type": {t: dur_ms(rng, 5, 1200)
                           for t in types if rng.random() < 0.3},
        "gossip_off": rng.random() < 0.1,          # one replica per group never starts its own gossip
        "late_gossip_ms": dur_ms(rng, 50, end_ms - 300) if rng.random() < 0.3 else None,   # replica 0 starts mid-run
        "isolated": rng.random() < 0.15,           # the last replica of every group has no peers of its own
        "link": rng.choice(["const", "exp", "exp-lossy", "datacenter", "jitter", "zero", "const-lossy"]),
        "lat_ms": dur_ms(rng, 0.1, 30) if rng.random() < 0.7 else dur_ms(rng, 30, 600),
        "loss": rng.choice([0.0, 0.05, 0.2, 0.5, 1.0]),
        "keys": rng.randint(1, 5) if not many_keys else rng.choice([20, 40, 64]),
        "elements": rng.randint(2, 6) if rng.random() < 0.8 else rng.choice([1, 30]),
        "writers": [{"rate": rng.choice([10, 20, 40, 80]) if not heavy else rng.choice([150, 300, 600]),
                     "poisson": rng.random() < 0.5,
                     "read_frac": rng.choice([0.0, 0.2, 0.5, 1.0]),
                     "burst": rng.choice([1, 1, 2, 3, 8, 25]) if not heavy else rng.choice([1, 2]),
                     "bad_op": rng.random() < 0.08}
                    for _ in range(rng.randint(3, 6) if not heavy else rng.randint(1, 3))],
        "part": [a, dur_ms(rng, a + 1, min(a + 1500, end_ms + 400))] if rng.random() < 0.8 else None,
        "asym": rng.random() < 0.25,
        "kick": rng.randint(0, 2),
        "skew_ms": [rng.choice([0, 0, 5, -5, 50]) for _ in range(5)],   # LWW writers' clock skew per replica
        "lww_via_write_event": rng.random() < 0.04,
        "lww_factory": rng.choice(["plain", "plain", "default", "initial"]),
        "quiet_ms": dur_ms(rng, 100, 1200),       # writers stop this long before the end (convergence time)
    }
    return _fit(cfg)


def _fit(cfg):
    """run-time budget (C03 runs every scenario in 6 environments): bound the number of write/read operations and the
    number of full-state gossip exchanges; the *shape* of the configuration (orders of durations, regimes) is kept"""
    end = cfg["end"]
    ws = cfg["writers"]

    def ops():
        return sum(w["rate"] * w["burst"] for w in ws) * max(0.2, end - cfg["quiet_ms"] / 1000.0)

    budget = 2500 if end <= 5 else 1800
    while ops() > budget:
        w = max(ws, key=lambda w: w["rate"] * w["burst"])
        if w["burst"] > 1:
            w["burst"] = max(1, w["burst"] // 2)
        elif w["rate"] > 10:
            w["rate"] = max(10, w["rate"] // 2)
        else:
            break
    n_rep = sum(cfg["replicas"].values())

    def floor_iv(iv):
        # at most ~1200 gossip rounds per run, fewer when the gossiped state is large
        lo = end * 1000.0 * n_rep / (1200 if cfg["keys"] <= 5 and ops() <= 1200 else 400)
        return iv if (iv == 0 or iv >= lo) else int(lo) + 1
    cfg["gossip_ms"] = floor_iv(cfg["gossip_ms"])
    cfg["gossip_by_type"] = {t: floor_iv(v) for t, v in cfg["gossip_by_type"].items()}
    return cfg


def build(cfg, seed):
    from happysimulator.components.crdt import CRDTStore, GCounter, LWWRegister, ORSet, PNCounter
    from happysimulator.components.network import Network, NetworkLink, datacenter_network
    from happysimulator.core.entity import Entity
    from happysimulator.core.event import Event
    from happysimulator.core.logical_clocks import HLCTimestamp
    from happysimulator.core.sim_future import SimFuture
    from happysimulator.core.simulation import Simulation
    from happysimulator.core.temporal import Instant
    from happysimulator.distributions import ConstantLatency, ExponentialLatency
    from happysimulator.load.source import Source

    seed_all(seed)
    end = cfg["end"]
    net = Network(name="crdt-net")

    def mk_link(name):
        lat = cfg["lat_ms"] / 1000.0
        k = cfg["link"]
        if k == "datacenter":
            return datacenter_network(name)
        if k == "const":
            return NetworkLink(name=name, latency=ConstantLatency(lat))
        if k == "exp":
            return NetworkLink(name=name, latency=ExponentialLatency(lat))
        if k == "jitter":
            return NetworkLink(name=name, latency=ConstantLatency(lat), jitter=ExponentialLatency(lat / 2))
        if k == "zero":
            return NetworkLink(name=name, latency=ConstantLatency(0.0))
        if k == "const-lossy":
            return NetworkLink(name=name, latency=ConstantLatency(lat), packet_loss_rate=cfg["loss"])
        return NetworkLink(name=name, latency=ExponentialLatency(lat), packet_loss_rate=cfg["loss"])

    def at_s(ms):
        return Instant.from_seconds(ms / 1000.0)

    lww_factory = cfg.get("lww_factory", "plain")
    factories = {"gcounter": lambda nid: GCounter(nid), "pncounter": lambda nid: PNCounter(nid),
                 "orset": lambda nid: ORSet(nid), "lww": lambda nid: LWWRegister(nid)}
    if lww_factory == "initial":
        # registers are born with contents: every replica's initial value carries its own node id in the timestamp
        factories["lww"] = lambda nid: LWWRegister(nid, value="init:" + nid, timestamp=HLCTimestamp(0, 0, nid))
    groups = {}
    for t in cfg["types"]:
        g_iv = cfg.get("gossip_by_type", {}).get(t, cfg["gossip_ms"]) / 1000.0
        if t == "lww" and lww_factory == "default":
            reps = [CRDTStore(f"{t}-{'abcde'[i]}", network=net, gossip_interval=g_iv)     # the default crdt_factory
                    for i in range(cfg["replicas"][t])]
        else:
            reps = [CRDTStore(f"{t}-{'abcde'[i]}", network=net, crdt_factory=factories[t], gossip_interval=g_iv)
                    for i in range(cfg["replicas"][t])]
        for i, r in enumerate(reps):
            if cfg.get("isolated") and len(reps) > 1 and i == len(reps) - 1:
                r.add_peers([])       # knows nobody: receives pushes, cannot answer them, never gossips itself
                continue
            r.add_peers([x for x in reps if x is not r])
        for i, a in enumerate(reps):
            for b in reps[i + 1:]:
                net.add_bidirectional_link(a, b, mk_link(f"l-{a.name}-{b.name}"))
        groups[t] = reps
    stores = [r for t in cfg["types"] for r in groups[t]]

    class Writer(Entity):
        def __init__(self, i, wc):
            super().__init__(f"writer-{i}")
            self.i, self.wc = i, wc
            self.rng = random.Random(sub_seed(seed, "writer", i))
            self.n = self.writes = self.reads = self.replies = self.bad = 0
            self.logical = 0
            self.seen = []

        def _one(self):
            self.n += 1
            t = cfg["types"][(self.i + self.n) % len(cfg["types"])]
            reps = groups[t]
            r_i = self.rng.randrange(len(reps))
            rep = reps[r_i]
            key = self.rng.choice(["user-", "k"]) + str(self.rng.randrange(cfg["keys"]))
            if self.rng.random() < self.wc["read_frac"]:
                self.reads += 1
                fut = SimFuture()
                ev = Event(time=self.now, event_type="Read", target=rep,
                           context={"metadata": {"key": key, "reply_future": fut}})
                return ev, fut, (rep.name, key)
            self.writes += 1
            md = {"key": key}
            if self.wc.get("bad_op") and self.rng.random() < 0.2:
                # an operation this CRDT type does not offer (the store logs a warning and ignores it) / a default amount
                self.bad += 1
                if t in ("gcounter", "pncounter") and self.rng.random() < 0.5:
                    md.update(operation="increment")              # value None: the method's default argument
                else:
                    md.update(operation="no_such_operation", value=1)
            elif t == "gcounter":
                md.update(operation="increment", value=self.rng.randint(1, 5))
            elif t == "pncounter":
                md.update(operation=self.rng.choice(["increment", "decrement"]), value=self.rng.randint(1, 5))
            elif t == "orset":
                md.update(operation=self.rng.choice(["add", "add", "remove"]),
                          value=f"user-{self.rng.randrange(cfg['elements'])}")
            else:
                if cfg["lww_via_write_event"]:
                    md.update(operation="set", value=f"{self.name}:{self.n}")     # the store's default operation
                else:
                    self.logical += 1
                    ts = HLCTimestamp(self.now.nanoseconds + cfg["skew_ms"][r_i] * 1_000_000, self.logical, rep.name)
                    rep.get_or_create(key).set(f"{self.name}:{self.n}", ts)
                    return None, None, None
            fut = SimFuture() if self.n % 2 else None
            if fut is not None:
                md["reply_future"] = fut
            return Event(time=self.now, event_type="Write", target=rep, context={"metadata": md}), fut, None

        def handle_event(self, event):
            for _ in range(self.wc["burst"]):
                ev, fut, what = self._one()
                if ev is None:
                    continue
                if fut is None:
                    yield 0.0, [ev]
                    continue
                yield 0.0, [ev]
                res = yield fut
                self.replies += 1
                if what is not None and len(self.seen) < 25:
                    v = res.get("value")
                    if isinstance(v, (set, frozenset)):
                        v = sorted(v)
                    self.seen.append([what[0], what[1], v])
            return None

    writers = [Writer(i, wc) for i, wc in enumerate(cfg["writers"])]
    sources = []
    stop = end - cfg["quiet_ms"] / 1000.0
    for i, wc in enumerate(cfg["writers"]):
        mk = Source.poisson if wc["poisson"] else Source.constant
        sources.append(mk(rate=wc["rate"], target=writers[i], event_type="Tick", name=f"src-writer-{i}",
                          stop_after=stop))

    sim = Simulation(end_time=T(end), sources=sources, entities=[net, *stores, *writers])
    late = cfg.get("late_gossip_ms")
    for t in cfg["types"]:
        for i, r in enumerate(groups[t]):
            if cfg["gossip_off"] and i == 0:
                continue
            if late is not None and i == (1 if cfg["gossip_off"] else 0):
                # this replica starts gossiping during the run: `get_gossip_event()` at now > 0 stamps the tick "now"
                def start_late(e, r=r):
                    g = r.get_gossip_event()
                    return [g] if g is not None else []
                sim.schedule(Event.once(time=at_s(late), event_type="LateGossipStart", fn=start_late, daemon=True))
                continue
            ev = r.get_gossip_event()
            if ev is not None:
                sim.schedule(ev)
    log = []
    if cfg["part"]:
        a, b = cfg["part"]
        hs = []

        def split(e):
            for t in cfg["types"]:
                reps = groups[t]
                k = max(1, len(reps) // 2)
                hs.append(net.partition(reps[:k], reps[k:], asymmetric=cfg["asym"]))

        def heal(e):
            log.append([[r.name, r.convergence_lag] for r in stores])
            for h in hs:
                h.heal()
            out = []
            for t in cfg["types"]:
                for r in groups[t][: cfg["kick"]]:
                    out.append(Event(time=e.time, event_type="GossipTick", target=r, daemon=True))
            return out

        sim.schedule(Event.once(time=at_s(a), event_type="Split", fn=split))
        sim.schedule(Event.once(time=at_s(b), event_type="HealAll", fn=heal))

    def value_of(c):
        v = c.value
        if isinstance(v, (set, frozenset)):
            return sorted(v)
        return v

    def detail(c):
        d = {"value": value_of(c), "node": c.node_id}
        if isinstance(c, GCounter):
            d["per_node"] = [[r.name, c.node_value(r.name)] for r in stores if c.node_value(r.name)]
        elif isinstance(c, PNCounter):
            d["inc"], d["dec"] = c.increments, c.decrements
        elif isinstance(c, ORSet):
            d["len"] = len(c)
            d["has_user_0"] = c.contains("user-0")
        else:
            ts = c.timestamp
            d["ts"] = None if ts is None else [ts.physical_ns, ts.logical, ts.node_id]
        return d

    obs = {"log": lambda: log,
           "net": lambda: {"routed": net.events_routed, "no_route": net.events_dropped_no_route,
                           "partition": net.events_dropped_partition,
                           "matrix": [[s.source, s.destination, s.packets_sent, s.packets_dropped]
                                      for s in net.traffic_matrix()]}}
    for r in stores:
        obs[r.name] = stats_of(r)
        obs[r.name + ".x"] = (lambda r=r: {"lag": r.convergence_lag,
                                           "data": [[k, detail(c)] for k, c in sorted(r.crdts.items())]})
    for t in cfg["types"]:
        obs["converged-" + t] = (lambda t=t: [
            [k, all(r.crdts.get(k) is not None and groups[t][0].crdts.get(k) is not None
                    and value_of(r.crdts[k]) == value_of(groups[t][0].crdts[k]) for r in groups[t])]
            for k in sorted(dict.fromkeys(k for r in groups[t] for k in r.crdts))])
    for w in writers:
        obs[w.name] = (lambda w=w: {"n": w.n, "w": w.writes, "r": w.reads, "replies": w.replies, "bad": w.bad,
                                    "seen": w.seen})
    return sim, obs
