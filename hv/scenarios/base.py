"""Helpers shared by the scenario families."""
from __future__ import annotations

import hashlib
import random


def sub_seed(seed: int, *tags) -> int:
    """independent 31-bit seed derived from the case seed (process-independent: sha256, not hash()).
    One derived seed in eight is 0 and one in sixteen is 1: perfectly valid seeds that look falsy / trivial (a library
    test `if not seed` / `seed or default` would treat 0 as "unseeded")."""
    h = hashlib.sha256(repr((seed,) + tuple(tags)).encode()).digest()
    if h[4] % 8 == 0:
        return 0
    if h[4] % 16 == 1:
        return 1
    return int.from_bytes(h[:4], "big") & 0x7FFFFFFF


# ----------------------------------------------------------------------------- shared configuration objects
_SHARED: dict = {}


def shared(key: str, value):
    """The SAME list / dict object for equal (`key`, `value`) in every build of this interpreter — the way a model
    module passes a module-level constant (NODES = [...]) to every build.  A component that mutates its argument in
    place (shuffle, sort, pop, setdefault) thereby changes what the next build in the process receives; the harness
    itself never mutates these objects."""
    import json

    return _SHARED.setdefault((key, json.dumps(value, sort_keys=True, default=str)), value)


def seed_all(seed: int) -> None:
    """seed every module-level RNG the library draws from"""
    random.seed(seed)
    try:
        import numpy as np

        np.random.seed(seed % (2**32))
    except Exception:
        pass


def T(seconds: float):
    from happysimulator.core.temporal import Instant

    return Instant.from_seconds(seconds)


def grid(rng: random.Random, lo_ms: int, hi_ms: int) -> float:
    """a latency in seconds on a millisecond grid, never zero"""
    return rng.randint(max(1, lo_ms), max(1, hi_ms)) / 1000.0


# ----------------------------------------------------------------------------- boundary palettes
def is_lossy(seconds: float) -> bool:
    """does the library's seconds -> integer-nanoseconds conversion (`int(s * 1e9)`) lose a nanosecond, so that the
    instant read back with `.to_seconds()` is strictly *earlier* than `seconds`?  (1.001, 1.003, 2.05, ...)"""
    return int(seconds * 1_000_000_000) / 1_000_000_000 < seconds


# integer millisecond values whose seconds form is lossy (all lie above 1 s: 1001, 1003, ..., 2050, ...)
LOSSY_MS = [ms for ms in range(1, 30001) if is_lossy(ms / 1000.0)]


def dur_ms(rng: random.Random, lo_ms: float, hi_ms: float, zero: bool = False):
    """A duration / period / interval / timeout / schedule boundary in *milliseconds* for a cfg entry that the
    builder divides by 1000.0.  Draws from a boundary palette instead of a plain integer grid:

      40 %  an integer number of ms in [lo, hi];
      20 %  a value whose seconds form does not survive `Instant.from_seconds` / `Duration.from_seconds`
            (int(s*1e9)/1e9 < s: the instant lies a nanosecond *before* the nominal time: 1.001 s, 2.05 s, 0.0573 s);
      20 %  1-4 decimal digits of a second that are not whole ms (0.1 ms / 0.01 ms grid: 0.0125 s, 1.0001 s);
      10 %  lo or hi exactly;
      10 %  a "round" value (multiple of 50 / 100 / 250 / 1000 ms) inside the range.
    `zero=True` additionally allows 0 (5 %).  The result is an int or a float with at most 3 decimals (JSON exact).
    """
    lo, hi = float(lo_ms), float(max(lo_ms, hi_ms))
    if zero and rng.random() < 0.05:
        return 0
    r = rng.random()
    ilo, ihi = int(-(-lo // 1)), int(hi // 1)
    if ihi < ilo:
        ilo = ihi = max(1, int(round(lo)))
    if r < 0.40:
        return rng.randint(ilo, ihi)
    if r < 0.60:
        cands = [m for m in LOSSY_MS if lo <= m <= hi]
        if cands and rng.random() < 0.7:
            return rng.choice(cands)
        for _ in range(60):
            x = round(rng.uniform(lo, hi), rng.choice([1, 2, 3]))
            if lo <= x <= hi and is_lossy(x / 1000.0):
                return x
        return rng.randint(ilo, ihi)
    if r < 0.80:
        x = round(rng.uniform(lo, hi), rng.choice([1, 1, 2, 3]))
        return x if lo <= x <= hi and x > 0 else rng.randint(ilo, ihi)
    if r < 0.90:
        x = rng.choice([lo, hi])
        return int(x) if float(x).is_integer() else x
    rounds = [m for step in (50, 100, 250, 1000) for m in range(step, int(hi) + 1, step) if lo <= m <= hi]
    return rng.choice(rounds) if rounds else rng.randint(ilo, ihi)


def size_over(rng: random.Random, small, limit: int):
    """A capacity / key-space / population size: mostly one of `small`, sometimes just below, at, just above and well
    above an internal constant of the library (`limit`: a hard-coded ghost-list length, batch size, history cap...)."""
    if rng.random() < 0.6:
        return rng.choice(list(small))
    return rng.choice([max(1, limit - 1), limit, limit + 1, limit + 10, 2 * limit + 3])


# ----------------------------------------------------------------------------- wall-time perturbation (threads)
# Set by the C03 environments (hv/scenarios/envs.py) for the duration of one run: index of the partition / worker whose
# handlers are slowed in *wall* time by a real sleep; None = nobody.  Simulated time is not touched, so a correct model
# gives the same run whatever the value.
WALL_SLOW = None
_real_sleep = __import__("time").sleep


def wall_slow(index: int, n: int, seconds: float = 0.0015) -> None:
    """called by harness entities that live in partition / worker `index` of `n`"""
    if WALL_SLOW is not None and WALL_SLOW % n == index:
        _real_sleep(seconds)


def make_recorder(name: str = "rec"):
    """A sink entity that records (time ns, event type) of everything it receives."""
    from happysimulator.core.entity import Entity

    class Recorder(Entity):
        def __init__(self, nm):
            super().__init__(nm)
            self.seen = []

        def handle_event(self, event):
            self.seen.append((self.now.nanoseconds, event.event_type))
            return None

        def stats(self):
            return {"n": len(self.seen), "first": self.seen[:5], "last": self.seen[-3:]}

    return Recorder(name)


def pre_events(sim, events):
    """schedule pre-run events"""
    for e in events:
        sim.schedule(e)


def dataclass_stats(obj):
    """public statistics of a stats dataclass / object as a plain dict"""
    import dataclasses

    if obj is None:
        return None
    if dataclasses.is_dataclass(obj) and not isinstance(obj, type):
        return {f.name: getattr(obj, f.name) for f in dataclasses.fields(obj)}
    if isinstance(obj, dict):
        return obj
    return {k: v for k, v in vars(obj).items() if not k.startswith("_")}


def stats_of(component):
    """observer reading `component.stats` (property or method) generically"""

    def read():
        s = getattr(component, "stats", None)
        if callable(s):
            s = s()
        return dataclass_stats(s)

    return read
