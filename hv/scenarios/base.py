"""Helpers shared by the scenario families."""
from __future__ import annotations

import hashlib
import random


def sub_seed(seed: int, *tags) -> int:
    """independent 31-bit seed derived from the case seed (process-independent: sha256, not hash())"""
    h = hashlib.sha256(repr((seed,) + tuple(tags)).encode()).digest()
    return int.from_bytes(h[:4], "big") & 0x7FFFFFFF


def seed_all(seed: int) -> None:
    """seed every module-level RNG the library draws from"""
    random.seed(seed)
    try:
        import numpy as np

        np.random.seed(seed % (2**32))
    except Exception:
        pass


def T(seconds: float):
    from happysimulator.core.temporal import Instant

    return Instant.from_seconds(seconds)


def grid(rng: random.Random, lo_ms: int, hi_ms: int) -> float:
    """a latency in seconds on a millisecond grid, never zero"""
    return rng.randint(max(1, lo_ms), max(1, hi_ms)) / 1000.0


def make_recorder(name: str = "rec"):
    """A sink entity that records (time ns, event type) of everything it receives."""
    from happysimulator.core.entity import Entity

    class Recorder(Entity):
        def __init__(self, nm):
            super().__init__(nm)
            self.seen = []

        def handle_event(self, event):
            self.seen.append((self.now.nanoseconds, event.event_type))
            return None

        def stats(self):
            return {"n": len(self.seen), "first": self.seen[:5], "last": self.seen[-3:]}

    return Recorder(name)


def pre_events(sim, events):
    """schedule pre-run events"""
    for e in events:
        sim.schedule(e)


def dataclass_stats(obj):
    """public statistics of a stats dataclass / object as a plain dict"""
    import dataclasses

    if obj is None:
        return None
    if dataclasses.is_dataclass(obj) and not isinstance(obj, type):
        return {f.name: getattr(obj, f.name) for f in dataclasses.fields(obj)}
    if isinstance(obj, dict):
        return obj
    return {k: v for k, v in vars(obj).items() if not k.startswith("_")}


def stats_of(component):
    """observer reading `component.stats` (property or method) generically"""

    def read():
        s = getattr(component, "stats", None)
        if callable(s):
            s = s()
        return dataclass_stats(s)

    return read
