"""Streaming: producers append string-keyed records to a partitioned EventLog (retention by time / size) and
feed a windowed StreamProcessor with jittered (partly late) event times; a ConsumerGroup (range / round-robin /
sticky assignment) whose members join, leave and re-join (rebalances), poll, commit every n-th poll and feed a
second StreamProcessor from the polled records; a direct partition reader.  All under the engine.

Configuration coverage (widened):
  * EventLog: every constructor parameter — 1..12 partitions, `sharding_strategy` None (library default) /
    HashSharding / RangeSharding (alphabetical and with boundaries) / ConsistentHashSharding (virtual nodes, seed),
    TimeRetention / SizeRetention / none, append / read latency incl. 0, retention check interval from 5 ms to longer
    than the run (shorter / longer than the maximum age; lossy values);
  * ConsumerGroup: `assignment_strategy` None (library default) / Range / RoundRobin / Sticky — `strategy = "all"`
    runs one group per strategy over the SAME log with the same membership script in ONE run — rebalance delay from 0
    to longer than the gaps of the membership script (overlapping rebalances), poll latency incl. 0, session_timeout;
    membership scripts with same-instant joins, double joins, leaves of non-members, polls of non-members;
    `max_records` 1 .. above the library default 100 and the default itself;
  * StreamProcessor: a bank of processors (all three window kinds, all three late-event policies, with and without
    side output) fed by the same producers in ONE run; window size / slide / gap / allowed lateness / watermark
    interval from `dur_ms` with varying order (slide longer than size, watermark interval longer than the window,
    lateness longer than the window, tiny session gap); event time as float seconds, as Instant, exact clock reading
    (lossy floats) or absent (processor falls back to its clock);
  * load regimes: light, sustained overload of the consumers (append rate far above what the polls take out: lag
    grows for the whole run; with retention the unread records expire), bursts of same-instant appends;
  * key spaces from 1 to 200 keys, alphabetic key prefixes (so that RangeSharding spreads them);
  * occasional long run (8-12 s).
"""
from __future__ import annotations

import random

from hv.scenarios.base import T, dur_ms, seed_all, stats_of, sub_seed

NAME = "streaming"
MODEL = "C19"
COMPONENTS = ["EventLog", "TimeRetention", "SizeRetention", "HashSharding", "RangeSharding",
              "ConsistentHashSharding", "ConsumerGroup", "RangeAssignment",
              "RoundRobinAssignment", "StickyAssignment", "StreamProcessor", "TumblingWindow", "SlidingWindow",
              "SessionWindow", "LateEventPolicy", "Source"]

WINDOWS = ["tumbling", "sliding", "session"]
POLICIES = ["DROP", "UPDATE", "SIDE_OUTPUT"]
STRATEGIES = ["range", "roundrobin", "sticky"]


def _gen_window(rng, kind=None, policy=None, src=None, long=False):
    size = dur_ms(rng, 20, rng.choice([300, 1000, 2500]))
    # slide between size/8 (at most 8 windows per event) and twice the size (gaps between windows)
    slide = dur_ms(rng, max(10, size / 8.0), rng.choice([size, 2 * size]))
    w = {"kind": kind or rng.choice(WINDOWS), "size_ms": size, "slide_ms": slide,
         "gap_ms": dur_ms(rng, 1, rng.choice([30, 150, 600])),
         "lateness_ms": 0 if rng.random() < 0.4 else dur_ms(rng, 1, rng.choice([100, 400, 2500])),
         "policy": policy or rng.choice(POLICIES),
         "side": rng.random() < 0.8,
         "wm_ms": dur_ms(rng, 60 if long else 20, rng.choice([120, 400, 1500])),
         "agg": rng.choice(["count", "sum", "keys"])}
    if src is not None:
        w["src"] = src
    return w


def _gen_sharding(rng, partitions):
    k = rng.choice(["none", "none", "hash", "range", "range_b", "consistent"])
    if k == "range_b":
        # boundaries over the alphabetic key prefixes; at most partitions-1 boundaries (shard index < partitions)
        nb = rng.randint(0, partitions - 1)
        return {"kind": k, "boundaries": sorted(rng.sample("bcdefghijklmnopqrstuvwxy", nb))}
    if k == "consistent":
        return {"kind": k, "vnodes": rng.choice([1, 3, 20, 100]), "seed": rng.choice([None, 0, 7])}
    return {"kind": k}


def gen_cfg(rng):
    long = rng.random() < 0.12
    end = rng.choice([8.0, 10.0, 12.0]) if long else rng.choice([2.0, 3.0, 4.0])
    regime = rng.choice(["light", "light", "overload", "burst"])
    n_cons = rng.randint(1, 4)
    end_ms = int(end * 1000)
    partitions = rng.choice([1, 2, 3, 4, 5, 6, 6, 12])
    # membership script: everyone joins early (two at the same instant), then leaves / re-joins
    t0 = dur_ms(rng, 20, 150)
    members = [[t0 if i < 2 else dur_ms(rng, t0, t0 + 400), i, "join"] for i in range(n_cons)]
    state = [True] * n_cons
    for _ in range(rng.choice([0, 1, 2, 3, 5, 8])):
        i = rng.randrange(n_cons)
        t = dur_ms(rng, 500, end_ms - 500)
        if rng.random() < 0.15:
            members.append([t, i, "join" if state[i] else "leave"])      # double join / leave of a non-member
            continue
        members.append([t, i, "leave" if state[i] else "join"])
        state[i] = not state[i]
        if rng.random() < 0.25:                                           # somebody else changes at the same instant
            j = rng.randrange(n_cons)
            if j != i:
                members.append([t, j, "leave" if state[j] else "join"])
                state[j] = not state[j]
    members.sort(key=lambda m: (m[0], m[1]))
    if long:
        rates = [5, 10, 20]
    elif regime == "overload":
        rates = [150, 250, 400]
    else:
        rates = [20, 40, 80]
    n_prod = rng.randint(1, 2) if regime == "overload" else rng.randint(1, 3)
    strategy = rng.choice(["all", "all", "default", "range", "roundrobin", "sticky"])
    if regime == "overload":
        poll_rate, max_records = rng.choice([5, 10, 20]), rng.choice([1, 2, 5, 5, 100, None])
    else:
        poll_rate = rng.choice([5, 10] if long else [10, 20, 40])
        max_records = rng.choice([1, 5, 20, 100, 101, 250, None])          # None: library default (100)
    if rng.random() < 0.5:
        # bank: every window kind and every late-event policy fed by the producers, one processor fed by the consumers
        pol = POLICIES[:]
        rng.shuffle(pol)
        win = [_gen_window(rng, kind=k, policy=p, src="prod", long=long) for k, p in zip(WINDOWS, pol)]
        win.insert(1, _gen_window(rng, src="cons", long=long))
    else:
        win = [_gen_window(rng, long=long), _gen_window(rng, long=long)]
    ret_kind = rng.choice([None, "time", "size"])
    retention = None
    if ret_kind == "time":
        retention = ["time", dur_ms(rng, 5, rng.choice([150, 1000, 3000]))]
    elif ret_kind == "size":
        retention = ["size", rng.choice([1, 3, 10, 40, 200])]
    bursts = []
    if regime == "burst" or rng.random() < 0.2:
        bursts = [[dur_ms(rng, 50, end_ms - 700), rng.randrange(n_prod), rng.choice([5, 20, 60, 150])]
                  for _ in range(rng.randint(1, 3))]
    cfg = {
        "end": end,
        "regime": regime,
        "partitions": partitions,
        "sharding": _gen_sharding(rng, partitions),
        "retention": retention,
        "ret_check_ms": dur_ms(rng, 5, rng.choice([100, 400, 2500])) if rng.random() < 0.9 else dur_ms(rng, end_ms, 2 * end_ms),
        "append_ms": dur_ms(rng, 0.1, rng.choice([10, 60]), zero=True),
        "read_ms": dur_ms(rng, 0.1, rng.choice([5, 40]), zero=True),
        "n_keys": rng.choice([1, 3, 8, 20, 200]),
        "key_style": rng.choice(["user", "alpha"]),
        "producers": [{"rate": rng.choice(rates), "poisson": rng.random() < 0.5} for _ in range(n_prod)],
        "bursts": bursts,
        "jitter_ms": rng.choice([0, 30, 150, 600, 2500]),
        "late_pct": rng.choice([0, 10, 30, 100]),
        "et_instant": rng.random() < 0.3,
        # the accepted forms of a record's event time: float `event_time_s`, Instant `event_time`, absent; "mix" draws the
        # form per record so that late records of every form reach every late-event policy in one run (None: the
        # per-scenario switches et_instant / et_none_pct decide, as before)
        "et_form": rng.choice([None, "mix", "mix"]),
        "et_exact": rng.random() < 0.4,
        "et_none_pct": rng.choice([0, 0, 20, 100]),
        "strategy": strategy,
        "rebalance_ms": dur_ms(rng, 1, rng.choice([50, 300, 1200]), zero=True),
        "poll_ms": dur_ms(rng, 0.1, rng.choice([8, 60]), zero=True),
        "session_timeout_ms": rng.choice([None, dur_ms(rng, 10, 3000)]),
        "n_cons": n_cons,
        "members": members,
        "poll_rate": poll_rate,
        "poll_unjoined": rng.random() < 0.2,
        "max_records": max_records,
        "proc_ms": dur_ms(rng, 0.1, rng.choice([15, 120]), zero=True),
        "commit_every": rng.randint(1, 3),
        "reader_rate": rng.choice([0, 5, 20]),
        "read_max": rng.choice([7, 7, 1, 100, 150, None, 0]),              # None: library default (100)
        "win": win,
    }
    # A daemon interval below one nanosecond (EventLog.retention_check_interval, StreamProcessor.watermark_interval_s
    # = 1e-10 s; also 0 / negative) is rejected by the constructors since fix 3e54509
    # (fixes/C07-streaming-subnanosecond-interval.*) and is never generated; the regression inputs are
    # corpus/C07/eventlog-subnanosecond-retention-interval.json and
    # corpus/C07/streamprocessor-subnanosecond-watermark-interval.json.
    return cfg


def gen_cfg_wide(rng):
    """maximum-coverage configuration: a processor for every (window kind x late-event policy) with a side output, event
    times in every accepted form per record, a good share of records late beyond the allowed lateness"""
    cfg = gen_cfg(rng)
    long = cfg["end"] > 6
    win = []
    for k_i, kind in enumerate(WINDOWS):
        for p_i, pol in enumerate(POLICIES):
            if (k_i + p_i) % len(WINDOWS) == 0 or pol == "SIDE_OUTPUT":
                w = _gen_window(rng, kind=kind, policy=pol, src="prod", long=long)
                w["side"] = True
                w["lateness_ms"] = rng.choice([0, dur_ms(rng, 1, 100)])
                win.append(w)
    win.insert(1, _gen_window(rng, src="cons", long=long))
    cfg.update({"win": win, "et_form": "mix", "late_pct": rng.choice([30, 60]), "jitter_ms": rng.choice([600, 2500])})
    return cfg


def build(cfg, seed):
    from happysimulator.components.datastore.sharded_store import ConsistentHashSharding, HashSharding, RangeSharding
    from happysimulator.components.streaming import (
        ConsumerGroup, EventLog, LateEventPolicy, RangeAssignment, RoundRobinAssignment, SessionWindow,
        SizeRetention, SlidingWindow, StickyAssignment, StreamProcessor, TimeRetention, TumblingWindow)
    from happysimulator.core.entity import Entity
    from happysimulator.core.event import Event
    from happysimulator.core.simulation import Simulation
    from happysimulator.core.temporal import Instant
    from happysimulator.load.source import Source

    seed_all(seed)
    end = cfg["end"]
    stop = end - 0.5
    n_parts = cfg["partitions"]

    ret = cfg["retention"]
    policy = None
    if ret is not None:
        policy = TimeRetention(max_age_s=ret[1] / 1000.0) if ret[0] == "time" else SizeRetention(max_records=ret[1])
    sh = cfg.get("sharding") or {"kind": "none"}
    sharding = None
    if sh["kind"] == "hash":
        sharding = HashSharding()
    elif sh["kind"] == "range":
        sharding = RangeSharding()
    elif sh["kind"] == "range_b":
        sharding = RangeSharding(boundaries=list(sh["boundaries"])[:max(0, n_parts - 1)])
    elif sh["kind"] == "consistent":
        sharding = ConsistentHashSharding(virtual_nodes=sh["vnodes"], seed=sh["seed"])
    log = EventLog("events", num_partitions=n_parts, sharding_strategy=sharding, retention_policy=policy,
                   append_latency=cfg["append_ms"] / 1000.0, read_latency=cfg["read_ms"] / 1000.0,
                   retention_check_interval=cfg["ret_check_ms"] / 1000.0)
    strat_cls = {"range": RangeAssignment, "roundrobin": RoundRobinAssignment, "sticky": StickyAssignment}
    strat_names = STRATEGIES if cfg["strategy"] == "all" else [cfg["strategy"]]
    sess = cfg.get("session_timeout_ms")
    groups = []
    for gi, sn in enumerate(strat_names):
        groups.append(ConsumerGroup("group" if gi == 0 else f"group-{sn}", event_log=log,
                                    assignment_strategy=None if sn == "default" else strat_cls[sn](),
                                    rebalance_delay=cfg["rebalance_ms"] / 1000.0,
                                    poll_latency=cfg["poll_ms"] / 1000.0,
                                    session_timeout=None if sess is None else sess / 1000.0))

    class Results(Entity):
        def __init__(self, name):
            super().__init__(name)
            self.rows = []

        def handle_event(self, event):
            c = event.context
            if event.event_type == "WindowResult":
                self.rows.append([c["key"], c["window_start"], c["window_end"], c["result"], c["record_count"]])
            else:
                self.rows.append([c["key"], c["event_time_s"], str(c["value"])])
            return None

    def make_proc(i, w):
        if w["kind"] == "tumbling":
            wt = TumblingWindow(size_s=w["size_ms"] / 1000.0)
        elif w["kind"] == "sliding":
            wt = SlidingWindow(size_s=w["size_ms"] / 1000.0, slide_s=w["slide_ms"] / 1000.0)
        else:
            wt = SessionWindow(gap_s=w["gap_ms"] / 1000.0)
        agg = {"count": len, "sum": lambda rs: sum(r["seq"] for r in rs),
               "keys": lambda rs: sorted(dict.fromkeys(r["src"] for r in rs))}[w["agg"]]
        out, side = Results(f"results-{i}"), Results(f"late-{i}")
        p = StreamProcessor(f"proc-{i}", window_type=wt, aggregate_fn=agg, downstream=out,
                            allowed_lateness_s=w["lateness_ms"] / 1000.0,
                            late_event_policy={"DROP": LateEventPolicy.DROP, "UPDATE": LateEventPolicy.UPDATE,
                                               "SIDE_OUTPUT": LateEventPolicy.SIDE_OUTPUT}[w["policy"]],
                            side_output=side if w["side"] else None,
                            watermark_interval_s=w["wm_ms"] / 1000.0)
        return p, out, side

    procs = [make_proc(i, w) for i, w in enumerate(cfg["win"])]
    srcs = [w.get("src", "cons" if i == 1 else "prod") for i, w in enumerate(cfg["win"])]
    prod_procs = [p[0] for p, s in zip(procs, srcs) if s == "prod"]
    cons_procs = [p[0] for p, s in zip(procs, srcs) if s == "cons"]
    key_style = cfg.get("key_style", "user")
    et_exact = cfg.get("et_exact", False)
    et_none_pct = cfg.get("et_none_pct", 0)

    def key_of(k):
        return f"user-{k}" if key_style == "user" else f"{chr(97 + (k * 7) % 26)}{k}-user"

    class Producer(Entity):
        def __init__(self, i):
            super().__init__(f"producer-{i}")
            self.i = i
            self.rng = random.Random(sub_seed(seed, "prod", i))
            self.n = 0
            self.appended = []

        def handle_event(self, event):
            self.n += 1
            key = key_of(self.rng.randrange(cfg["n_keys"]))
            value = {"seq": self.n, "src": self.name}
            t_ms = self.now.nanoseconds // 1_000_000
            if et_exact:
                t_ms = self.now.to_seconds() * 1000.0
            if self.rng.randrange(100) < cfg["late_pct"]:
                t_ms -= self.rng.randint(0, cfg["jitter_ms"])
            t_ms = max(0, t_ms)
            no_et = et_none_pct and self.rng.randrange(100) < et_none_pct
            rec = yield from log.append(key, value)
            if len(self.appended) < 6:
                self.appended.append([rec.key, rec.partition, rec.offset, rec.timestamp])
            out = []
            for proc in prod_procs:
                ctx = {"key": key, "value": value}
                form = None
                if cfg.get("et_form") == "mix":
                    form = self.rng.choice(["float", "instant", "instant", "none"])
                if form == "none" or (form is None and no_et):
                    pass                                      # the processor uses its own clock
                elif form == "instant" or (form is None and cfg["et_instant"]):
                    ctx["event_time"] = Instant.from_seconds(t_ms / 1000.0)
                else:
                    ctx["event_time_s"] = t_ms / 1000.0
                out.append(Event(time=self.now, event_type="Process", target=proc, context=ctx))
            return out

    class Consumer(Entity):
        def __init__(self, i, gi, group):
            super().__init__(f"consumer-{i}" if gi == 0 else f"consumer-{strat_names[gi]}-{i}")
            self.i, self.gi, self.group = i, gi, group
            self.joined = False
            self.assigned_log = []
            self.polls = 0
            self.records = 0
            self.dups = 0
            self.seen = {}
            self.max_off = {}
            self.last = None

        def handle_event(self, event):
            typ = event.event_type
            group = self.group
            if typ == "DoJoin":
                assigned = yield from group.join(self.name, self)
                self.joined = True
                self.assigned_log.append([self.now.nanoseconds, list(assigned)])
                return None
            if typ == "DoLeave":
                self.joined = False
                yield from group.leave(self.name)
                self.assigned_log.append([self.now.nanoseconds, None])
                return None
            if typ != "PollCycle" or not (self.joined or cfg.get("poll_unjoined", False)):
                return None
            if cfg["max_records"] is None:
                records = yield from group.poll(self.name)
            else:
                records = yield from group.poll(self.name, cfg["max_records"])
            self.polls += 1
            if not records:
                return None
            if cfg["proc_ms"]:
                yield cfg["proc_ms"] / 1000.0
            offsets = {}
            out = []
            for rec in records:
                self.records += 1
                k = f"{rec.partition}:{rec.offset}"
                if k in self.seen:
                    self.dups += 1
                self.seen[k] = self.seen.get(k, 0) + 1
                if rec.offset + 1 > offsets.get(rec.partition, 0):
                    offsets[rec.partition] = rec.offset + 1
                self.last = [rec.key, rec.partition, rec.offset]
            if self.polls % cfg["commit_every"] == 0:
                yield from group.commit(self.name, offsets)
            if self.gi == 0:
                for rec in records:
                    for proc in cons_procs:
                        out.append(Event(time=self.now, event_type="Process", target=proc,
                                         context={"key": rec.key, "value": rec.value,
                                                  "event_time_s": rec.timestamp}))
            return out

    class Reader(Entity):
        def __init__(self):
            super().__init__("reader")
            self.next = {}
            self.n = 0
            self.gaps = 0
            self.reads = 0

        def handle_event(self, event):
            pid = self.reads % cfg["partitions"]
            self.reads += 1
            off = self.next.get(pid, 0)
            rm = cfg.get("read_max", 7)
            if rm is None:
                recs = yield from log.read(pid, off)
            else:
                recs = yield from log.read(pid, off, rm)
            for r in recs:
                if r.offset != off:
                    self.gaps += 1  # records expired by retention before being read
                off = r.offset + 1
                self.n += 1
            self.next[pid] = off
            return None

    producers = [Producer(i) for i in range(len(cfg["producers"]))]
    consumers = [Consumer(i, gi, g) for gi, g in enumerate(groups) for i in range(cfg["n_cons"])]
    reader = Reader()
    sources = []
    for i, p in enumerate(cfg["producers"]):
        mk = Source.poisson if p["poisson"] else Source.constant
        sources.append(mk(rate=p["rate"], target=producers[i], event_type="Tick", name=f"src-prod-{i}",
                          stop_after=stop))
    for c in consumers:
        sources.append(Source.constant(rate=cfg["poll_rate"], target=c, event_type="PollCycle",
                                       name=f"src-poll-{c.name}" if c.gi else f"src-poll-{c.i}",
                                       stop_after=end - 0.1))
    if cfg["reader_rate"]:
        sources.append(Source.constant(rate=cfg["reader_rate"], target=reader, event_type="ReadTick",
                                       name="src-reader", stop_after=end - 0.1))
    ents = [log, *groups, reader, *producers, *consumers]
    for p, out, side in procs:
        ents += [p, out, side]
    sim = Simulation(end_time=T(end), sources=sources, entities=ents)
    for t_ms, i, what in cfg["members"]:
        for c in consumers:
            if c.i == i:
                sim.schedule(Event(time=Instant.from_seconds(t_ms / 1000.0),
                                   event_type="DoJoin" if what == "join" else "DoLeave", target=c))
    for t_ms, i, n in cfg.get("bursts", []):
        for _ in range(n):
            sim.schedule(Event(time=Instant.from_seconds(t_ms / 1000.0), event_type="Tick",
                               target=producers[i % len(producers)]))

    def log_obs():
        return {"hw": log.high_watermarks(), "total": log.total_records, "n": log.num_partitions,
                "parts": [[p.id, len(p.records), p.records[0].offset if p.records else None,
                           p.records[-1].key if p.records else None, p.high_watermark] for p in log.partitions],
                "avg_append": log.stats.avg_append_latency}

    def group_obs(group, gi):
        mine = [c for c in consumers if c.gi == gi]
        return {"assignments": group.assignments, "generation": group.generation, "consumers": group.consumers,
                "count": group.consumer_count, "total_lag": group.total_lag(),
                "lag": {c.name: group.consumer_lag(c.name) for c in mine}}

    obs = {"log": stats_of(log), "log.x": log_obs,
           "reader": lambda: {"n": reader.n, "gaps": reader.gaps, "reads": reader.reads,
                              "next": sorted(reader.next.items())}}
    for gi, g in enumerate(groups):
        obs[g.name] = stats_of(g)
        obs[g.name + ".x"] = (lambda g=g, gi=gi: group_obs(g, gi))
    for p, out, side in procs:
        obs[p.name] = stats_of(p)
        obs[p.name + ".x"] = (lambda p=p: {"watermark": p.watermark_s, "active": p.active_windows,
                                           "emitted": p.total_windows_emitted})
        obs[out.name] = (lambda out=out: {"n": len(out.rows), "rows": out.rows})
        obs[side.name] = (lambda side=side: {"n": len(side.rows), "rows": side.rows[:50]})
    for p in producers:
        obs[p.name] = (lambda p=p: {"n": p.n, "appended": p.appended})
    for c in consumers:
        obs[c.name] = (lambda c=c: {"joined": c.joined, "assigned": c.assigned_log, "polls": c.polls,
                                    "records": c.records, "dups": c.dups, "distinct": len(c.seen), "last": c.last})
    return sim, obs
