"""Streaming: producers append string-keyed records to a partitioned EventLog (retention by time / size) and
feed a windowed StreamProcessor with jittered (partly late) event times; a ConsumerGroup (range / round-robin /
sticky assignment) whose members join, leave and re-join (rebalances), poll, commit every n-th poll and feed a
second StreamProcessor from the polled records; a direct partition reader.  All under the engine."""
from __future__ import annotations

import random

from hv.scenarios.base import T, seed_all, stats_of, sub_seed

NAME = "streaming"
MODEL = "C19"
COMPONENTS = ["EventLog", "TimeRetention", "SizeRetention", "HashSharding", "ConsumerGroup", "RangeAssignment",
              "RoundRobinAssignment", "StickyAssignment", "StreamProcessor", "TumblingWindow", "SlidingWindow",
              "SessionWindow", "LateEventPolicy", "Source"]

WINDOWS = ["tumbling", "sliding", "session"]
POLICIES = ["DROP", "UPDATE", "SIDE_OUTPUT"]


def _gen_window(rng):
    return {"kind": rng.choice(WINDOWS), "size_ms": rng.choice([100, 200, 250, 500]),
            "slide_ms": rng.choice([50, 100, 200]), "gap_ms": rng.choice([20, 50, 120]),
            "lateness_ms": rng.choice([0, 0, 50, 200]), "policy": rng.choice(POLICIES),
            "side": rng.random() < 0.8, "wm_ms": rng.choice([50, 100, 250]),
            "agg": rng.choice(["count", "sum", "keys"])}


def gen_cfg(rng):
    end = rng.choice([2.0, 3.0, 4.0])
    n_cons = rng.randint(2, 4)
    end_ms = int(end * 1000)
    # membership script: everyone joins early (two at the same instant), then leaves / re-joins
    t0 = rng.randint(20, 150)
    members = [[t0 if i < 2 else t0 + rng.randint(1, 400), i, "join"] for i in range(n_cons)]
    state = [True] * n_cons
    for _ in range(rng.randint(1, 5)):
        i = rng.randrange(n_cons)
        t = rng.randint(500, end_ms - 500)
        members.append([t, i, "leave" if state[i] else "join"])
        state[i] = not state[i]
    members.sort(key=lambda m: (m[0], m[1]))
    return {
        "end": end,
        "partitions": rng.randint(1, 6),
        "retention": rng.choice([None, ["time", rng.choice([150, 400, 1000])], ["size", rng.choice([3, 10, 40])]]),
        "ret_check_ms": rng.choice([50, 100, 300]),
        "append_ms": rng.randint(1, 10),
        "read_ms": rng.randint(1, 5),
        "n_keys": rng.choice([3, 8, 20]),
        "producers": [{"rate": rng.choice([20, 40, 80]), "poisson": rng.random() < 0.5}
                      for _ in range(rng.randint(1, 3))],
        "jitter_ms": rng.choice([0, 30, 150, 600]),
        "late_pct": rng.choice([0, 10, 30]),
        "et_instant": rng.random() < 0.3,
        "strategy": rng.choice(["range", "roundrobin", "sticky"]),
        "rebalance_ms": rng.choice([10, 50, 200]),
        "poll_ms": rng.randint(1, 8),
        "n_cons": n_cons,
        "members": members,
        "poll_rate": rng.choice([10, 20, 40]),
        "max_records": rng.choice([1, 5, 20, 100]),
        "proc_ms": rng.randint(0, 15),
        "commit_every": rng.randint(1, 3),
        "reader_rate": rng.choice([0, 5, 20]),
        "win": [_gen_window(rng), _gen_window(rng)],
    }


def build(cfg, seed):
    from happysimulator.components.streaming import (
        ConsumerGroup, EventLog, LateEventPolicy, RangeAssignment, RoundRobinAssignment, SessionWindow,
        SizeRetention, SlidingWindow, StickyAssignment, StreamProcessor, TimeRetention, TumblingWindow)
    from happysimulator.core.entity import Entity
    from happysimulator.core.event import Event
    from happysimulator.core.simulation import Simulation
    from happysimulator.core.temporal import Instant
    from happysimulator.load.source import Source

    seed_all(seed)
    end = cfg["end"]
    stop = end - 0.5

    ret = cfg["retention"]
    policy = None
    if ret is not None:
        policy = TimeRetention(max_age_s=ret[1] / 1000.0) if ret[0] == "time" else SizeRetention(max_records=ret[1])
    log = EventLog("events", num_partitions=cfg["partitions"], retention_policy=policy,
                   append_latency=cfg["append_ms"] / 1000.0, read_latency=cfg["read_ms"] / 1000.0,
                   retention_check_interval=cfg["ret_check_ms"] / 1000.0)
    strategy = {"range": RangeAssignment, "roundrobin": RoundRobinAssignment, "sticky": StickyAssignment}[cfg["strategy"]]()
    group = ConsumerGroup("group", event_log=log, assignment_strategy=strategy,
                          rebalance_delay=cfg["rebalance_ms"] / 1000.0, poll_latency=cfg["poll_ms"] / 1000.0)

    class Results(Entity):
        def __init__(self, name):
            super().__init__(name)
            self.rows = []

        def handle_event(self, event):
            c = event.context
            if event.event_type == "WindowResult":
                self.rows.append([c["key"], c["window_start"], c["window_end"], c["result"], c["record_count"]])
            else:
                self.rows.append([c["key"], c["event_time_s"], str(c["value"])])
            return None

    def make_proc(i, w):
        if w["kind"] == "tumbling":
            wt = TumblingWindow(size_s=w["size_ms"] / 1000.0)
        elif w["kind"] == "sliding":
            wt = SlidingWindow(size_s=w["size_ms"] / 1000.0, slide_s=w["slide_ms"] / 1000.0)
        else:
            wt = SessionWindow(gap_s=w["gap_ms"] / 1000.0)
        agg = {"count": len, "sum": lambda rs: sum(r["seq"] for r in rs),
               "keys": lambda rs: sorted(dict.fromkeys(r["src"] for r in rs))}[w["agg"]]
        out, side = Results(f"results-{i}"), Results(f"late-{i}")
        p = StreamProcessor(f"proc-{i}", window_type=wt, aggregate_fn=agg, downstream=out,
                            allowed_lateness_s=w["lateness_ms"] / 1000.0,
                            late_event_policy=LateEventPolicy[w["policy"]],
                            side_output=side if w["side"] else None,
                            watermark_interval_s=w["wm_ms"] / 1000.0)
        return p, out, side

    procs = [make_proc(i, w) for i, w in enumerate(cfg["win"])]
    proc0, proc1 = procs[0][0], procs[1][0]

    class Producer(Entity):
        def __init__(self, i):
            super().__init__(f"producer-{i}")
            self.i = i
            self.rng = random.Random(sub_seed(seed, "prod", i))
            self.n = 0
            self.appended = []

        def handle_event(self, event):
            self.n += 1
            key = f"user-{self.rng.randrange(cfg['n_keys'])}"
            value = {"seq": self.n, "src": self.name}
            t_ms = self.now.nanoseconds // 1_000_000
            if self.rng.randrange(100) < cfg["late_pct"]:
                t_ms -= self.rng.randint(0, cfg["jitter_ms"])
            t_ms = max(0, t_ms)
            rec = yield from log.append(key, value)
            if len(self.appended) < 6:
                self.appended.append([rec.key, rec.partition, rec.offset, rec.timestamp])
            ctx = {"key": key, "value": value}
            if cfg["et_instant"]:
                ctx["event_time"] = Instant.from_seconds(t_ms / 1000.0)
            else:
                ctx["event_time_s"] = t_ms / 1000.0
            return [Event(time=self.now, event_type="Process", target=proc0, context=ctx)]

    class Consumer(Entity):
        def __init__(self, i):
            super().__init__(f"consumer-{i}")
            self.i = i
            self.joined = False
            self.assigned_log = []
            self.polls = 0
            self.records = 0
            self.dups = 0
            self.seen = {}
            self.max_off = {}
            self.last = None

        def handle_event(self, event):
            typ = event.event_type
            if typ == "DoJoin":
                assigned = yield from group.join(self.name, self)
                self.joined = True
                self.assigned_log.append([self.now.nanoseconds, list(assigned)])
                return None
            if typ == "DoLeave":
                self.joined = False
                yield from group.leave(self.name)
                self.assigned_log.append([self.now.nanoseconds, None])
                return None
            if typ != "PollCycle" or not self.joined:
                return None
            records = yield from group.poll(self.name, cfg["max_records"])
            self.polls += 1
            if not records:
                return None
            if cfg["proc_ms"]:
                yield cfg["proc_ms"] / 1000.0
            offsets = {}
            out = []
            for rec in records:
                self.records += 1
                k = f"{rec.partition}:{rec.offset}"
                if k in self.seen:
                    self.dups += 1
                self.seen[k] = self.seen.get(k, 0) + 1
                if rec.offset + 1 > offsets.get(rec.partition, 0):
                    offsets[rec.partition] = rec.offset + 1
                self.last = [rec.key, rec.partition, rec.offset]
            if self.polls % cfg["commit_every"] == 0:
                yield from group.commit(self.name, offsets)
            for rec in records:
                out.append(Event(time=self.now, event_type="Process", target=proc1,
                                 context={"key": rec.key, "value": rec.value, "event_time_s": rec.timestamp}))
            return out

    class Reader(Entity):
        def __init__(self):
            super().__init__("reader")
            self.next = {}
            self.n = 0
            self.gaps = 0
            self.reads = 0

        def handle_event(self, event):
            pid = self.reads % cfg["partitions"]
            self.reads += 1
            off = self.next.get(pid, 0)
            recs = yield from log.read(pid, off, 7)
            for r in recs:
                if r.offset != off:
                    self.gaps += 1  # records expired by retention before being read
                off = r.offset + 1
                self.n += 1
            self.next[pid] = off
            return None

    producers = [Producer(i) for i in range(len(cfg["producers"]))]
    consumers = [Consumer(i) for i in range(cfg["n_cons"])]
    reader = Reader()
    sources = []
    for i, p in enumerate(cfg["producers"]):
        mk = Source.poisson if p["poisson"] else Source.constant
        sources.append(mk(rate=p["rate"], target=producers[i], event_type="Tick", name=f"src-prod-{i}",
                          stop_after=stop))
    for c in consumers:
        sources.append(Source.constant(rate=cfg["poll_rate"], target=c, event_type="PollCycle",
                                       name=f"src-poll-{c.i}", stop_after=end - 0.1))
    if cfg["reader_rate"]:
        sources.append(Source.constant(rate=cfg["reader_rate"], target=reader, event_type="ReadTick",
                                       name="src-reader", stop_after=end - 0.1))
    ents = [log, group, reader, *producers, *consumers]
    for p, out, side in procs:
        ents += [p, out, side]
    sim = Simulation(end_time=T(end), sources=sources, entities=ents)
    for t_ms, i, what in cfg["members"]:
        sim.schedule(Event(time=Instant.from_seconds(t_ms / 1000.0),
                           event_type="DoJoin" if what == "join" else "DoLeave", target=consumers[i]))

    def log_obs():
        return {"hw": log.high_watermarks(), "total": log.total_records,
                "parts": [[p.id, len(p.records), p.records[0].offset if p.records else None,
                           p.records[-1].key if p.records else None, p.high_watermark] for p in log.partitions],
                "avg_append": log.stats.avg_append_latency}

    def group_obs():
        return {"assignments": group.assignments, "generation": group.generation, "consumers": group.consumers,
                "count": group.consumer_count, "total_lag": group.total_lag(),
                "lag": {c.name: group.consumer_lag(c.name) for c in consumers}}

    obs = {"log": stats_of(log), "log.x": log_obs, "group": stats_of(group), "group.x": group_obs,
           "reader": lambda: {"n": reader.n, "gaps": reader.gaps, "reads": reader.reads,
                              "next": sorted(reader.next.items())}}
    for p, out, side in procs:
        obs[p.name] = stats_of(p)
        obs[p.name + ".x"] = (lambda p=p: {"watermark": p.watermark_s, "active": p.active_windows,
                                           "emitted": p.total_windows_emitted})
        obs[out.name] = (lambda out=out: {"n": len(out.rows), "rows": out.rows})
        obs[side.name] = (lambda side=side: {"n": len(side.rows), "rows": side.rows[:50]})
    for p in producers:
        obs[p.name] = (lambda p=p: {"n": p.n, "appended": p.appended})
    for c in consumers:
        obs[c.name] = (lambda c=c: {"joined": c.joined, "assigned": c.assigned_log, "polls": c.polls,
                                    "records": c.records, "dups": c.dups, "distinct": len(c.seen), "last": c.last})
    return sim, obs
