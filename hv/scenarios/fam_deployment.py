"""Deployment: AutoScaler (TargetUtilization / StepScaling / QueueDepthScaling / default policy; a load spike
makes it scale out, the quiet tail makes it scale in; short cooldowns that block), CanaryDeployer (2–4 traffic
stages on a WeightedRoundRobin / RoundRobin load balancer; ErrorRate / Latency / default evaluator; a good canary
is promoted, a slow or rejecting canary is rolled back; optional second deploy) and RollingDeployer (batch size
1–3, healthy_threshold, a v2 build whose health probe is slower than the check interval → failures → rollback).
Each part has its own LoadBalancer over library `Server`s (concurrency 1–2, bounded queues) feeding a shared
Sink, its own spike-profile Source, and an operator entity that calls `start()` / `deploy()` under the engine,
as /repo/examples/performance/auto_scaler.py and /repo/examples/deployment/*_deployment.py do."""
from __future__ import annotations

from hv.scenarios.base import T, dataclass_stats, dur_ms, seed_all, stats_of

NAME = "deployment"
MODEL = None
COMPONENTS = ["AutoScaler", "TargetUtilization", "StepScaling", "QueueDepthScaling", "CanaryDeployer", "CanaryStage",
              "ErrorRateEvaluator", "LatencyEvaluator", "RollingDeployer", "LoadBalancer", "RoundRobin",
              "WeightedRoundRobin", "LeastConnections", "Server", "Source", "Sink"]

PARTS = ["autoscale", "canary", "rolling"]


def _server_cfg(rng):
    return {"conc": rng.randint(1, 2), "svc_ms": dur_ms(rng, 2, 40), "exp": rng.random() < 0.5,
            "qcap": rng.choice([None, 0, 2, 5, 20])}


def _traffic(rng):
    return {"base": rng.choice([10, 20, 30]), "spike": rng.choice([80, 150, 300]),
            "from_ms": rng.randint(300, 900), "len_ms": rng.randint(400, 1200),
            # sustained overload for the whole run instead of a spike window
            "sustained": rng.random() < 0.15}


def _steps(rng):
    """StepScaling table: (utilisation lower bound, adjustment), highest bound first"""
    return rng.choice([
        [[0.9, 2], [0.5, 1], [0.2, 0], [0.0, -1]],
        [[0.8, 3], [0.0, 0]],
        [[0.5, 1], [0.1, -2]],
        [[0.0, 1]],
    ])


def gen_cfg(rng):
    k = rng.randint(1, 3)
    parts = sorted(rng.sample(PARTS, k))
    n_stages = rng.randint(1, 4)
    end = rng.choice([3.0, 4.0, 5.0]) if rng.random() < 0.85 else rng.choice([8.0, 10.0])
    end_ms = int(end * 1000)
    return {
        "end": end,
        "parts": parts,
        "poisson": rng.random() < 0.6,
        "autoscale": {
            "policy": rng.choice(["target", "step", "queue", "default"]),
            "target": rng.choice([0.05, 0.3, 0.6, 0.9, 1.0]),
            "steps": _steps(rng),
            "q_out": rng.choice([1, 2, 5, 10]), "q_in": rng.choice([0, 1]),
            "min": rng.randint(1, 2), "max": rng.randint(2, 8), "initial": rng.randint(1, 3),
            "eval_ms": dur_ms(rng, 10, 400) if rng.random() < 0.8 else dur_ms(rng, 1000, 1500),
            "out_cd_ms": dur_ms(rng, 10, 1200, zero=True), "in_cd_ms": dur_ms(rng, 10, 1500, zero=True),
            "lb": rng.choice(["rr", "least", "wrr"]),
            "server": _server_cfg(rng), "traffic": _traffic(rng),
            "stop_at_ms": rng.choice([None, None, dur_ms(rng, 1000, end_ms - 500)]),
            "restart_at_ms": rng.choice([None, None, end_ms - 400]),
        },
        "canary": {
            # evaluation periods: shorter than / equal to / a multiple of / NOT a multiple of the evaluation interval,
            # with values that lose a nanosecond in the seconds -> ns conversion (1.001 s, 1.003 s, 2.05 s ...)
            "stages": [[rng.choice([0, 1, 5, 25, 50, 100]),
                        dur_ms(rng, 20, 600) if rng.random() < 0.5 else dur_ms(rng, 1000, 1300)]
                       for _ in range(n_stages)],
            "eval_ms": dur_ms(rng, 20, 400),
            "evaluator": rng.choice(["error", "latency", "default"]),
            "max_err": rng.choice([0.0, 0.05, 0.5, 1.0]), "max_lat_ms": dur_ms(rng, 5, 600),
            "thr_mult": rng.choice([1.0, 1.5, 2.0, 10.0]),
            "canary_kind": rng.choice(["good", "good", "slow", "rejecting"]),
            "lb": rng.choice(["wrr", "wrr", "rr"]),
            "n_base": rng.randint(1, 3),
            "deploy_ms": dur_ms(rng, 100, 1200),
            "redeploy": rng.random() < 0.3,
            "default_stages": rng.random() < 0.05,       # the constructor's default stage list (30 s periods)
            "server": _server_cfg(rng), "traffic": _traffic(rng),
        },
        "rolling": {
            "batch": rng.randint(1, 4),
            "hc_ms": dur_ms(rng, 10, 400) if rng.random() < 0.8 else dur_ms(rng, 1000, 1200),
            "healthy_thr": rng.randint(1, 3),
            "max_fail": rng.randint(0, 3),
            "v2_kind": rng.choice(["good", "good", "slow", "mixed"]),
            "n_base": rng.randint(1, 4),
            "deploy_ms": dur_ms(rng, 100, 1200),
            "redeploy": rng.random() < 0.3,
            "lb": rng.choice(["rr", "least"]),
            "server": _server_cfg(rng), "traffic": _traffic(rng),
        },
    }


def gen_cfg_wide(rng):
    """maximum-coverage configuration: all three controllers, canary stages whose periods are not multiples of the
    evaluation interval and lose a nanosecond in the seconds -> ns conversion"""
    from hv.scenarios.base import LOSSY_MS

    cfg = gen_cfg(rng)
    cfg["parts"] = list(PARTS)
    cfg["end"] = max(cfg["end"], 5.0)
    c = cfg["canary"]
    c["default_stages"] = False
    c["canary_kind"] = "good"
    c["stages"] = [[rng.choice([5, 25, 50]), rng.choice([m for m in LOSSY_MS if m < 1300])] for _ in range(2)]
    c["deploy_ms"] = rng.randint(100, 400)
    return cfg


def build(cfg, seed):
    from happysimulator.components.common import Sink
    from happysimulator.components.deployment import (
        AutoScaler, CanaryDeployer, CanaryStage, ErrorRateEvaluator, LatencyEvaluator, QueueDepthScaling,
        RollingDeployer, StepScaling, TargetUtilization,
    )
    from happysimulator.components.load_balancer import LeastConnections, LoadBalancer, RoundRobin, WeightedRoundRobin
    from happysimulator.components.server import Server
    from happysimulator.core.entity import Entity
    from happysimulator.core.event import Event
    from happysimulator.core.simulation import Simulation
    from happysimulator.core.temporal import Instant
    from happysimulator.distributions import ConstantLatency, ExponentialLatency
    from happysimulator.load.source import Source

    seed_all(seed)
    end = cfg["end"]
    stop = end - 0.8
    parts = cfg["parts"]
    sink = Sink("sink")
    entities = [sink]
    sources = []
    scheduled = []
    obs = {"sink": lambda: {"n": sink.events_received, "lat": sink.latency_stats()}}

    class Gate(Entity):
        """lets the spike source through only during the spike window (a step rate profile would do the same,
        but the library integrates step profiles numerically, which is far too slow for a test scenario)"""

        def __init__(self, name, lb, tc):
            super().__init__(name)
            self.lb, self.lo, self.hi = lb, tc["from_ms"] * 1_000_000, (tc["from_ms"] + tc["len_ms"]) * 1_000_000
            self.passed = 0

        def handle_event(self, event):
            if self.lo <= self.now.nanoseconds < self.hi:
                self.passed += 1
                return [self.forward(event, self.lb)]
            return None

    def mk_server(name, sc, slow=1.0, qcap="cfg"):
        lat = sc["svc_ms"] / 1000.0 * slow
        dist = ExponentialLatency(lat) if sc["exp"] else ConstantLatency(lat)
        return Server(name=name, concurrency=sc["conc"], service_time=dist,
                      queue_capacity=sc["qcap"] if qcap == "cfg" else qcap, downstream=sink)

    def mk_lb(name, kind, backends):
        strat = {"rr": RoundRobin, "wrr": WeightedRoundRobin, "least": LeastConnections}[kind]()
        return LoadBalancer(name=name, backends=backends, strategy=strat)

    def traffic(name, lb, tc):
        mk = Source.poisson if cfg["poisson"] else Source.constant
        gate = Gate(name + "-gate", lb, tc)
        entities.append(gate)
        sources.append(mk(rate=tc["base"], target=lb, event_type="Request", name=name, stop_after=stop))
        if tc.get("sustained"):
            gate.lo, gate.hi = 0, int(stop * 1e9)
        sources.append(mk(rate=tc["spike"], target=gate, event_type="Request", name=name + "-spike",
                          stop_after=stop if tc.get("sustained")
                          else min(stop, (tc["from_ms"] + tc["len_ms"]) / 1000.0 + 0.05)))
        obs[gate.name] = lambda: gate.passed

    class Operator(Entity):
        """runs control-plane calls (start / stop / deploy) at scheduled instants"""

        def __init__(self):
            super().__init__("operator")
            self.log = []

        def handle_event(self, event):
            fn = event.context["fn"]
            self.log.append([self.now.nanoseconds, event.event_type])
            return fn()

    op = Operator()
    entities.append(op)

    def at(ms, what, fn):
        scheduled.append(Event(time=Instant.from_seconds(ms / 1000.0), event_type=what, target=op,
                               context={"fn": fn}))

    def server_obs(servers):
        def read():
            return [[s.name, dataclass_stats(s.stats), s.depth, s.utilization, s.average_service_time]
                    for s in servers]
        return read

    def lb_obs(lb):
        return lambda: {"stats": dataclass_stats(lb.stats), "backends": [b.name for b in lb.all_backends],
                        "healthy": lb.healthy_count}

    # ------------------------------------------------------------------ AutoScaler
    if "autoscale" in parts:
        a = cfg["autoscale"]
        made = []

        def factory(name):
            s = mk_server(name, a["server"])
            made.append(s)
            return s

        initial = [mk_server(f"web-{i}", a["server"]) for i in range(a["initial"])]
        lb = mk_lb("lb-as", a["lb"], initial)
        policy = {"target": lambda: TargetUtilization(target=a["target"]),
                  "step": lambda: StepScaling([(float(u), int(d)) for u, d in
                                               a.get("steps", [[0.9, 2], [0.5, 1], [0.2, 0], [0.0, -1]])]),
                  "queue": lambda: QueueDepthScaling(scale_out_threshold=a["q_out"], scale_in_threshold=a["q_in"]),
                  "default": lambda: None}[a["policy"]]()
        scaler = AutoScaler("scaler", load_balancer=lb, server_factory=factory, policy=policy,
                            min_instances=a["min"], max_instances=a["max"],
                            evaluation_interval=a["eval_ms"] / 1000.0, scale_out_cooldown=a["out_cd_ms"] / 1000.0,
                            scale_in_cooldown=a["in_cd_ms"] / 1000.0)
        entities += [lb, scaler, *initial]
        traffic("src-as", lb, a["traffic"])
        at(0, "scaler.start", lambda: [scaler.start()])
        if a["stop_at_ms"] is not None:
            at(a["stop_at_ms"], "scaler.stop", lambda: scaler.stop())
            if a.get("restart_at_ms") is not None and a["restart_at_ms"] > a["stop_at_ms"]:
                at(a["restart_at_ms"], "scaler.restart", lambda: [scaler.start()])
        obs["scaler"] = stats_of(scaler)
        obs["scaler.x"] = lambda: {"count": scaler.current_count, "running": scaler.is_running,
                                   "history": [[h.time.nanoseconds, h.action, h.from_count, h.to_count, h.reason]
                                               for h in scaler.scaling_history]}
        obs["lb-as"] = lb_obs(lb)
        obs["as.servers"] = server_obs(initial)
        obs["as.made"] = server_obs(made)

    # ------------------------------------------------------------------ CanaryDeployer
    if "canary" in parts:
        c = cfg["canary"]
        made_c = []

        def canary_factory(name):
            kind = c["canary_kind"]
            if kind == "slow":
                s = mk_server(name, c["server"], slow=6.0)
            elif kind == "rejecting":
                s = mk_server(name, dict(c["server"], conc=1), slow=15.0, qcap=1)
            else:
                s = mk_server(name, c["server"], slow=0.8)
            made_c.append(s)
            return s

        base = [mk_server(f"baseline-{i}", c["server"]) for i in range(c["n_base"])]
        lbc = mk_lb("lb-canary", c["lb"], base)
        evaluator = {"error": lambda: ErrorRateEvaluator(max_error_rate=c.get("max_err", 0.05),
                                                         threshold_multiplier=c.get("thr_mult", 2.0)),
                     "latency": lambda: LatencyEvaluator(max_latency=c.get("max_lat_ms", 500) / 1000.0,
                                                         threshold_multiplier=c.get("thr_mult", 1.5)),
                     "default": lambda: None}[c["evaluator"]]()
        stages = None if c.get("default_stages") else [
            CanaryStage(traffic_percentage=p / 100.0, evaluation_period=per / 1000.0) for p, per in c["stages"]]
        canary = CanaryDeployer("canary", load_balancer=lbc, server_factory=canary_factory, stages=stages,
                                metric_evaluator=evaluator, evaluation_interval=c["eval_ms"] / 1000.0)
        entities += [lbc, canary, *base]
        traffic("src-canary", lbc, c["traffic"])
        at(c["deploy_ms"], "canary.deploy", lambda: [canary.deploy()])
        if c["redeploy"]:
            at(int(end * 1000) - 1200, "canary.redeploy", lambda: [canary.deploy()])
        obs["canary"] = stats_of(canary)
        obs["canary.x"] = lambda: {"state": dataclass_stats(canary.state),
                                   "canary": canary.canary.name if canary.canary is not None else None}
        obs["lb-canary"] = lb_obs(lbc)
        obs["canary.servers"] = server_obs(base)
        obs["canary.made"] = server_obs(made_c)

    # ------------------------------------------------------------------ RollingDeployer
    if "rolling" in parts:
        r = cfg["rolling"]
        made_r = []

        def v2_factory(name):
            kind = r["v2_kind"]
            slow = 1.0
            if kind == "slow" or (kind == "mixed" and len(made_r) % 2 == 1):
                # the health probe takes longer than the check interval -> "_rolling_health_timeout" wins
                slow = max(2.0, 3.0 * r["hc_ms"] / r["server"]["svc_ms"])
            s = mk_server(name, dict(r["server"], exp=False) if slow > 1.0 else r["server"], slow=slow)
            made_r.append(s)
            return s

        v1 = [mk_server(f"v1-{i}", r["server"]) for i in range(r["n_base"])]
        lbr = mk_lb("lb-rolling", r["lb"], v1)
        rolling = RollingDeployer("rolling", load_balancer=lbr, server_factory=v2_factory, batch_size=r["batch"],
                                  health_check_interval=r["hc_ms"] / 1000.0, healthy_threshold=r["healthy_thr"],
                                  max_failures=r["max_fail"])
        entities += [lbr, rolling, *v1]
        traffic("src-rolling", lbr, r["traffic"])
        at(r["deploy_ms"], "rolling.deploy", lambda: [rolling.deploy()])
        if r["redeploy"]:
            at(int(end * 1000) - 1200, "rolling.redeploy", lambda: [rolling.deploy()])
        obs["rolling"] = stats_of(rolling)
        obs["rolling.x"] = lambda: {"state": dataclass_stats(rolling.state)}
        obs["lb-rolling"] = lb_obs(lbr)
        obs["rolling.servers"] = server_obs(v1)
        obs["rolling.made"] = server_obs(made_r)

    obs["operator"] = lambda: op.log
    sim = Simulation(end_time=T(end), sources=sources, entities=entities)
    for e in scheduled:
        sim.schedule(e)
    return sim, obs
