"""Industrial components in three small plants (cfg["layout"] = line | service | supply | all).

line    : Source → Tagger → GateController (closed windows, bounded queue) → ConveyorBelt (capacity 1–2)
          → WorkStation (QueuedResource harness, broken by a BreakdownScheduler) → InspectionStation
          (fail → rework conveyor → WorkStation, or scrap) → BatchProcessor (size + timeout) → Sink
service : AppointmentScheduler (same-instant appointments, no-shows) + walk-in Source → Tagger →
          ConditionalRouter.by_context_field → { RenegingQueuedResource subclass behind a BalkingQueue,
          ShiftedServer (capacity changes incl. 0), PooledCycleResource (bounded queue) } → Sink / Counter
supply  : Source → Tagger (quantity) → ConditionalRouter (predicates) → InventoryBuffer (s,Q; stockouts)
          → SplitMerge → workers holding a PreemptibleResource at different priorities (+ an urgent
          Source whose worker preempts them);  PerishableInventory (shelf life, spoilage sweeps, reorders)
"""
from __future__ import annotations

import random

from hv.scenarios.base import LOSSY_MS, T, dur_ms, seed_all, stats_of, sub_seed

NAME = "industrial"
MODEL = None
COMPONENTS = ["BalkingQueue", "RenegingQueuedResource", "ConveyorBelt", "InspectionStation", "BatchProcessor",
              "ShiftSchedule", "ShiftedServer", "Shift", "BreakdownScheduler", "InventoryBuffer",
              "PerishableInventory", "AppointmentScheduler", "ConditionalRouter", "PooledCycleResource",
              "GateController", "SplitMerge", "PreemptibleResource", "PreemptibleGrant", "QueuedResource",
              "FIFOQueue", "Source", "Sink", "Counter"]

LAYOUTS = ["line", "service", "supply", "all"]


def _instants(rng, lo_ms, hi_ms, n):
    """n distinct absolute instants (ms) in [lo, hi), sorted: a 10 ms grid mixed with values that lose a nanosecond in
    `Instant.from_seconds` (1001, 1003, ..., 2050, ...) and values with sub-millisecond digits"""
    pool = set(rng.sample(range(int(lo_ms), int(hi_ms), 10), min(2 * n + 2, (int(hi_ms) - int(lo_ms)) // 10)))
    lossy = [m for m in LOSSY_MS if lo_ms <= m < hi_ms]
    out = set()
    while len(out) < n:
        r = rng.random()
        if r < 0.3 and lossy:
            out.add(rng.choice(lossy))
        elif r < 0.45:
            out.add(round(rng.uniform(lo_ms, hi_ms - 1), rng.choice([1, 2, 3])))
        else:
            out.add(pool.pop() if pool else rng.randrange(int(lo_ms), int(hi_ms)))
    return sorted(out)


def _windows(rng, end_ms, n):
    """n disjoint (a, b) ms windows inside (0, end_ms), sorted"""
    pts = _instants(rng, 50, int(end_ms) - 50, 2 * n)
    return [[pts[2 * i], pts[2 * i + 1]] for i in range(n)]


def gen_cfg(rng):
    end = rng.choice([2.0, 3.0, 4.0]) if rng.random() < 0.9 else rng.choice([8.0, 10.0])
    end_ms = end * 1000
    n_shift = rng.randint(2, 4)
    bounds = _instants(rng, 100, int(end_ms), n_shift + 1)
    shifts = []
    t0 = 0
    for i in range(n_shift + 1):
        shifts.append([t0, bounds[i], rng.choice([0, 1, 1, 2, 3])])
        t0 = bounds[i] + (rng.choice([0, 0, 100]))  # sometimes a gap (default capacity)
    appts = sorted(rng.choice(range(0, int(end_ms) - 300, 50)) if rng.random() < 0.8
                   else dur_ms(rng, 1, int(end_ms) - 300) for _ in range(rng.randint(5, 25)))
    return {
        "layout": rng.choice(LAYOUTS),
        "end": end,
        "early_events": rng.random() < 0.25,
        # ---- line
        "l_rate": rng.choice([20, 40, 80, 150]),
        "l_poisson": rng.random() < 0.6,
        "gate_sched": _windows(rng, end_ms, rng.randint(1, 3)),
        "gate_open0": rng.random() < 0.5,
        "gate_qcap": rng.choice([0, 3, 10]),
        "belt_ms": dur_ms(rng, 1, 60),
        "belt_cap": rng.choice([0, 1, 2, 2]),
        "st_ms": dur_ms(rng, 2, 30),
        "st_conc": rng.randint(1, 2),
        "mttf_ms": dur_ms(rng, 50, 1500),
        "broken_mode": rng.choice(["capacity", "poll", "poll", "none"]),
        "mttr_ms": dur_ms(rng, 10, 400),
        "insp_ms": dur_ms(rng, 1, 20, zero=True),
        "pass_rate": rng.choice([0.0, 0.5, 0.8, 0.95, 1.0]),
        "rework": rng.random() < 0.6,
        "batch": rng.choice([1, 2, 4, 7]),
        "batch_ms": dur_ms(rng, 1, 50, zero=True),
        "batch_to_ms": dur_ms(rng, 5, 1200, zero=True),
        # ---- service
        "s_rate": rng.choice([20, 50, 100, 200]),
        "s_poisson": rng.random() < 0.6,
        "kinds": rng.randint(2, 5),
        "appts_ms": appts,
        "no_show": rng.choice([0.0, 0.2, 0.5, 1.0]),
        "balk_thr": rng.randint(0, 4),
        "balk_p": rng.choice([0.0, 0.3, 0.7, 1.0]),
        "desk_qcap": rng.choice([None, 3, 8]),
        "desk_ms": dur_ms(rng, 5, 60),
        "desk_conc": rng.randint(1, 2),
        "patience_ms": dur_ms(rng, 1, 1100),
        "own_patience": rng.random() < 0.5,
        "shifts": shifts,
        "shift_default": rng.choice([0, 0, 1]),
        "shift_ms": dur_ms(rng, 5, 50),
        "pool_n": rng.randint(1, 2),
        "pool_ms": dur_ms(rng, 5, 80),
        "pool_qcap": rng.choice([0, 2, 5]),
        # ---- supply
        "d_rate": rng.choice([20, 50, 100]),
        "d_poisson": rng.random() < 0.6,
        "qty_max": rng.randint(1, 4),
        "inv0": rng.randint(0, 30),
        "inv_s": rng.randint(0, 10),
        "inv_q": rng.randint(3, 30),
        "inv_lead_ms": dur_ms(rng, 1, 1200),
        "per0": rng.randint(0, 30),
        "per_life_ms": dur_ms(rng, 50, 1500),
        "per_check_ms": dur_ms(rng, 10, 1100),
        "per_s": rng.randint(0, 10),
        "per_q": rng.randint(3, 20),
        "per_lead_ms": dur_ms(rng, 1, 1200),
        "per_t0": rng.choice([None, 0.0, 0.0005]),
        "res_cap": rng.randint(1, 2),
        "workers": [{"prio": rng.randint(1, 9), "hold_ms": dur_ms(rng, 2, 25), "amount": 1}
                    for _ in range(rng.randint(2, 4))],
        "retries": rng.randint(0, 2),
        "u_rate": rng.choice([2, 5, 10, 20]),
        "u_hold_ms": dur_ms(rng, 5, 60),
        "u_preempt": rng.random() < 0.8,
        "p_preempt": rng.random() < 0.5,
        # optional constructor parameters (None = the constructor default)
        "insp_policy": rng.choice([None, None, "lifo", "fifo-cap"]),
        "shift_policy": rng.choice([None, None, "lifo", "fifo-cap"]),
        "inv_supplier": rng.random() < 0.4,
        "sm_types": rng.choice([None, None, ["Pick", "Assembled"]]),
    }


def gen_cfg_wide(rng):
    """maximum-coverage configuration: all three plants; on the line the items really reach the end (open gate, a belt
    with room, mostly passing inspection) and meet a batcher whose partial-batch timeout is SHORTER than the time the
    items spent upstream (queueing / transit / service), next to shift boundaries on lossy instants"""
    cfg = gen_cfg(rng)
    cfg.update({"layout": "all", "gate_open0": True, "gate_qcap": 10, "belt_cap": rng.choice([0, 2]),
                "broken_mode": rng.choice(["none", "capacity"]), "pass_rate": rng.choice([0.8, 0.95, 1.0]),
                "batch": rng.choice([2, 4, 7]), "batch_to_ms": dur_ms(rng, 2, 60), "l_rate": rng.choice([20, 40])})
    return cfg


def build(cfg, seed):
    from happysimulator.components.common import Counter, Sink
    from happysimulator.components.industrial import (
        AppointmentScheduler, BalkingQueue, BatchProcessor, BreakdownScheduler, ConditionalRouter, ConveyorBelt,
        GateController, InspectionStation, InventoryBuffer, PerishableInventory, PooledCycleResource,
        PreemptibleResource, RenegingQueuedResource, Shift, ShiftedServer, ShiftSchedule, SplitMerge,
    )
    from happysimulator.components.queue_policy import FIFOQueue
    from happysimulator.components.queued_resource import QueuedResource
    from happysimulator.core.entity import Entity
    from happysimulator.core.event import Event
    from happysimulator.core.simulation import Simulation
    from happysimulator.load.source import Source

    seed_all(seed)
    end = cfg["end"]
    stop = end - 0.5
    layout = cfg["layout"]
    entities, sources, pre, obs = [], [], [], {}

    class Tagger(Entity):
        """adds string keys / quantities / patience to the context and forwards at the same instant"""

        def __init__(self, name, downstream, kinds, tag):
            super().__init__(name)
            self.downstream = downstream
            self.kinds = kinds
            self.rng = random.Random(sub_seed(seed, "tagger", tag))
            self.n = 0

        def handle_event(self, event):
            self.n += 1
            ctx = event.context
            ctx["kind"] = self.kinds[self.rng.randrange(len(self.kinds))]
            ctx["customer"] = f"user-{self.rng.randrange(40)}"
            ctx["quantity"] = self.rng.randint(1, cfg["qty_max"])
            if cfg["own_patience"] and self.n % 3 == 0:
                ctx["patience_s"] = self.rng.choice([1, 5, 20, 100]) / 1000.0
            return [self.forward(event, self.downstream)]

    def opt_policy(kind):
        from happysimulator.components.queue_policy import LIFOQueue

        if kind == "lifo":
            return {"policy": LIFOQueue()}
        if kind == "fifo-cap":
            return {"policy": FIFOQueue(capacity=3)}
        return {}

    # ------------------------------------------------------------------ line
    def build_line():
        sink = Sink("line-sink")
        scrap = Counter("scrap")
        batcher = BatchProcessor("packer", downstream=sink, batch_size=cfg["batch"],
                                 process_time=cfg["batch_ms"] / 1000.0, timeout_s=cfg["batch_to_ms"] / 1000.0)

        class WorkStation(QueuedResource):
            def __init__(self, name, service_time, downstream, conc):
                super().__init__(name, policy=FIFOQueue())
                self.service_time_s = service_time
                self.downstream = downstream
                self.conc = conc
                self._active = 0
                self._broken = False
                self.parts = 0
                self.waits = 0

            def has_capacity(self):
                # "capacity": the way examples/industrial/manufacturing_line.py consults the breakdown flag
                if cfg["broken_mode"] == "capacity" and self._broken:
                    return False
                return self._active < self.conc

            def handle_queued_event(self, event):
                self._active += 1
                try:
                    while cfg["broken_mode"] == "poll" and self._broken:
                        self.waits += 1
                        yield 0.005
                    yield self.service_time_s
                finally:
                    self._active -= 1
                self.parts += 1
                return [self.forward(event, self.downstream)]

        station = WorkStation("cut", cfg["st_ms"] / 1000.0, None, cfg["st_conc"])
        rework_belt = ConveyorBelt("belt-rework", station, cfg["belt_ms"] / 1000.0, capacity=0)
        insp = InspectionStation("inspect", pass_target=batcher,
                                 fail_target=rework_belt if cfg["rework"] else scrap,
                                 inspection_time=cfg["insp_ms"] / 1000.0, pass_rate=cfg["pass_rate"],
                                 **opt_policy(cfg.get("insp_policy")))
        station.downstream = insp
        belt = ConveyorBelt("belt-in", station, cfg["belt_ms"] / 1000.0, capacity=cfg["belt_cap"])
        gate = GateController("gate", belt, schedule=[(a / 1000.0, b / 1000.0) for a, b in cfg["gate_sched"]],
                              initially_open=cfg["gate_open0"], queue_capacity=cfg["gate_qcap"])
        tagger = Tagger("line-tagger", gate, ["k0", "k1", "k2"], "line")
        breaker = BreakdownScheduler("breaker", station, mean_time_to_failure=cfg["mttf_ms"] / 1000.0,
                                     mean_repair_time=cfg["mttr_ms"] / 1000.0)
        mk = Source.poisson if cfg["l_poisson"] else Source.constant
        sources.append(mk(rate=cfg["l_rate"], target=tagger, event_type="Part", name="src-parts", stop_after=stop))
        entities.extend([sink, scrap, batcher, station, rework_belt, insp, belt, gate, tagger, breaker])
        pre.append(gate.start_events)
        if cfg["broken_mode"] != "none":
            pre.append(lambda: [breaker.start_event()])
        obs.update({
            "line.sink": lambda: {"n": sink.events_received, "lat": sink.latency_stats()},
            "line.scrap": lambda: {"total": scrap.total, "by_type": scrap.by_type},
            "line.batcher": stats_of(batcher),
            "line.batcher.x": lambda: batcher.buffer_depth,
            "line.station": lambda: {"parts": station.parts, "waits": station.waits, "depth": station.depth, "acc": station.stats_accepted,
                                     "drop": station.stats_dropped, "broken": station._broken},
            "line.insp": stats_of(insp),
            "line.belt": stats_of(belt),
            "line.rework": stats_of(rework_belt),
            "line.gate": stats_of(gate),
            "line.gate.x": lambda: gate.queue_depth,
            "line.breaker": stats_of(breaker),
            "line.breaker.x": lambda: {"down": breaker.is_down, "avail": breaker.stats.availability},
            "line.tagger": lambda: tagger.n,
        })

    # ------------------------------------------------------------------ service
    def build_service():
        sink = Sink("svc-sink")
        reneged = Counter("reneged")

        class Desk(RenegingQueuedResource):
            def __init__(self, name, service_time, conc, downstream, reneged_target, policy):
                super().__init__(name, reneged_target=reneged_target,
                                 default_patience_s=cfg["patience_ms"] / 1000.0, policy=policy)
                self.service_time_s = service_time
                self.conc = conc
                self._active = 0
                self.downstream = downstream
                self.handled = 0

            def has_capacity(self):
                return self._active < self.conc

            def _handle_served_event(self, event):
                self._active += 1
                try:
                    yield self.service_time_s
                finally:
                    self._active -= 1
                self.handled += 1
                return [self.forward(event, self.downstream, event_type="Served")]

        inner = FIFOQueue() if cfg["desk_qcap"] is None else FIFOQueue(capacity=cfg["desk_qcap"])
        balking = BalkingQueue(inner, balk_threshold=cfg["balk_thr"], balk_probability=cfg["balk_p"])
        desk = Desk("desk", cfg["desk_ms"] / 1000.0, cfg["desk_conc"], sink, reneged, balking)
        schedule = ShiftSchedule([Shift(a / 1000.0, b / 1000.0, c) for a, b, c in cfg["shifts"] if b > a],
                                 default_capacity=cfg["shift_default"])
        shifted = ShiftedServer("shifted", schedule, service_time=cfg["shift_ms"] / 1000.0, downstream=sink,
                                **opt_policy(cfg.get("shift_policy")))
        pool = PooledCycleResource("washers", pool_size=cfg["pool_n"], cycle_time=cfg["pool_ms"] / 1000.0,
                                   downstream=sink, queue_capacity=cfg["pool_qcap"])
        kinds = [f"k{i}" for i in range(cfg["kinds"])]
        targets = [desk, shifted, pool]
        mapping = {}
        for i, k in enumerate(kinds[:-1] if len(kinds) > 3 else kinds):  # the last kind of many → default
            mapping[k] = targets[i % 3]
        router = ConditionalRouter.by_context_field("router", "kind", mapping, default=desk)
        tagger = Tagger("svc-tagger", router, kinds, "svc")
        appts = AppointmentScheduler("appts", router, [a / 1000.0 for a in cfg["appts_ms"]],
                                     no_show_rate=cfg["no_show"], event_type="Appointment")
        mk = Source.poisson if cfg["s_poisson"] else Source.constant
        sources.append(mk(rate=cfg["s_rate"], target=tagger, event_type="WalkIn", name="src-walkin",
                          stop_after=stop))
        entities.extend([sink, reneged, desk, shifted, pool, router, tagger, appts])
        pre.append(appts.start_events)
        obs.update({
            "svc.sink": lambda: {"n": sink.events_received, "lat": sink.latency_stats()},
            "svc.reneged": lambda: {"total": reneged.total, "by_type": reneged.by_type},
            "svc.desk": lambda: {"served": desk.served, "reneged": desk.reneged, "handled": desk.handled,
                                 "depth": desk.depth, "acc": desk.stats_accepted, "drop": desk.stats_dropped,
                                 "balked": balking.balked, "rs": [desk.reneging_stats.served,
                                                                  desk.reneging_stats.reneged]},
            "svc.shifted": lambda: {"processed": shifted.processed, "cap": shifted.current_capacity,
                                    "depth": shifted.depth, "acc": shifted.stats_accepted,
                                    "transitions": schedule.transition_times()},
            "svc.pool": stats_of(pool),
            "svc.router": stats_of(router),
            "svc.appts": stats_of(appts),
            "svc.tagger": lambda: tagger.n,
        })

    # ------------------------------------------------------------------ supply
    def build_supply():
        sink = Sink("merged-sink")
        fresh = Sink("fresh-sink")
        misc = Counter("stockouts-waste")
        urgent_done = Counter("urgent-done")
        res = PreemptibleResource("crane", capacity=cfg["res_cap"])

        class Picker(Entity):
            """SplitMerge target: holds the crane at its priority, retries after a preemption"""

            def __init__(self, name, prio, hold, amount):
                super().__init__(name)
                self.prio, self.hold, self.amount = prio, hold, amount
                self.done = self.preempted = self.gave_up = 0

            def handle_event(self, event):
                reply = event.context.get("reply_future")
                outcome = "gave-up"
                for _attempt in range(cfg["retries"] + 1):
                    flag = []
                    grant = yield res.acquire(amount=self.amount, priority=float(self.prio),
                                              preempt=cfg["p_preempt"], on_preempt=lambda flag=flag: flag.append(1))
                    yield self.hold
                    if not grant.preempted:
                        grant.release()
                        outcome = "ok"
                        break
                    self.preempted += 1
                if outcome == "ok":
                    self.done += 1
                else:
                    self.gave_up += 1
                if reply is not None:
                    reply.resolve({"worker": self.name, "result": outcome,
                                   "customer": event.context.get("customer")})
                return []

        class Urgent(Entity):
            def __init__(self, name):
                super().__init__(name)
                self.n = self.preempted = 0

            def handle_event(self, event):
                self.n += 1
                flag = []
                grant = yield res.acquire(amount=1, priority=0.0, preempt=cfg["u_preempt"],
                                          on_preempt=lambda: flag.append(1))
                yield cfg["u_hold_ms"] / 1000.0
                if grant.preempted:
                    self.preempted += 1
                    return []
                grant.release()
                return [self.forward(event, urgent_done, event_type="UrgentDone")]

        pickers = [Picker(f"picker-{i}", w["prio"], w["hold_ms"] / 1000.0, min(w["amount"], cfg["res_cap"]))
                   for i, w in enumerate(cfg["workers"])]
        urgent = Urgent("urgent")
        smt = cfg.get("sm_types")
        sm = SplitMerge("split", targets=pickers, downstream=sink,
                        **({} if smt is None else {"split_event_type": smt[0], "merge_event_type": smt[1]}))
        supplier = Counter("supplier") if cfg.get("inv_supplier") else None
        inv = InventoryBuffer("inv", initial_stock=cfg["inv0"], reorder_point=cfg["inv_s"],
                              order_quantity=cfg["inv_q"], lead_time=cfg["inv_lead_ms"] / 1000.0,
                              downstream=sm, stockout_target=misc,
                              **({} if supplier is None else {"supplier": supplier}))
        per = PerishableInventory("fridge", initial_stock=cfg["per0"], shelf_life_s=cfg["per_life_ms"] / 1000.0,
                                  spoilage_check_interval_s=cfg["per_check_ms"] / 1000.0,
                                  reorder_point=cfg["per_s"], order_quantity=cfg["per_q"],
                                  lead_time=cfg["per_lead_ms"] / 1000.0, downstream=fresh, waste_target=misc,
                                  initial_stock_time=cfg["per_t0"])
        router = ConditionalRouter(
            "demand-router",
            routes=[(lambda e: e.context.get("kind") == "cold", per),
                    (lambda e: e.context.get("quantity", 1) >= 1 and e.context.get("kind") != "void", inv)],
            default=None, drop_unmatched=True)
        tagger = Tagger("demand-tagger", router, ["cold", "dry", "dry", "void"], "supply")
        mk = Source.poisson if cfg["d_poisson"] else Source.constant
        sources.append(mk(rate=cfg["d_rate"], target=tagger, event_type="Demand", name="src-demand",
                          stop_after=stop))
        sources.append(Source.poisson(rate=cfg["u_rate"], target=urgent, event_type="Urgent", name="src-urgent",
                                      stop_after=stop))
        entities.extend([sink, fresh, misc, urgent_done, res, *pickers, urgent, sm, inv, per, router, tagger])
        if supplier is not None:
            entities.append(supplier)
            obs["sup.supplier"] = lambda: {"total": supplier.total, "by_type": supplier.by_type}
        pre.append(lambda: [per.start_event()])

        def sink_obs():
            return {"n": sink.events_received, "lat": sink.latency_stats()}

        obs.update({
            "sup.sink": sink_obs,
            "sup.fresh": lambda: {"n": fresh.events_received, "lat": fresh.latency_stats()},
            "sup.misc": lambda: {"total": misc.total, "by_type": misc.by_type},
            "sup.urgent_done": lambda: urgent_done.total,
            "sup.urgent": lambda: {"n": urgent.n, "preempted": urgent.preempted},
            "sup.crane": stats_of(res),
            "sup.split": stats_of(sm),
            "sup.inv": stats_of(inv),
            "sup.inv.x": lambda: {"stock": inv.stock, "fill": inv.stats.fill_rate},
            "sup.fridge": stats_of(per),
            "sup.fridge.x": lambda: {"stock": per.stock, "waste": per.stats.waste_rate},
            "sup.router": stats_of(router),
            "sup.tagger": lambda: tagger.n,
            "sup.pickers": lambda: [[p.name, p.done, p.preempted, p.gave_up] for p in pickers],
        })

    if layout in ("line", "all"):
        build_line()
    if layout in ("service", "all"):
        build_service()
    if layout in ("supply", "all"):
        build_supply()

    # start events (gate schedule, breakdown cycle, appointments, spoilage sweep) are created by the
    # components' start_event(s)() helpers: after the Simulation exists (as in /repo/examples/industrial),
    # or — cfg["early_events"] — before it (as in tests/test_event_cancellation.py) and scheduled afterwards
    early = [e for mk in pre for e in mk()] if cfg.get("early_events") else None
    sim = Simulation(end_time=T(end), sources=sources, entities=entities)
    for e in (early if early is not None else [e for mk in pre for e in mk()]):
        sim.schedule(e)
    return sim, obs
