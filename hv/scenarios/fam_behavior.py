"""Behavioral agents + advertising economics.

A Population (uniform / from_segments / hand-built, 20–40 Agents with string names) lives in an Environment
(DeGroot / bounded-confidence / voter influence model, SocialGraph small-world / Erdős–Rényi / complete, either
built by the Population or explicitly with a seeded rng and re-weighted edges).  Agents decide with every
DecisionModel (UtilityModel argmax and softmax, RuleBasedModel, BoundedRationalityModel, SocialInfluenceModel,
CompositeModel), have heartbeats and action delays, and their action handlers emit events: purchases to a Shop
harness entity (which feeds StateChange / price_change broadcasts back into the Environment), SocialMessages with
knowledge to graph neighbours, referral cascades (targeted stimuli) and events to a Sink / Counter.  The stimulus
schedule puts several broadcast / targeted / price-change / policy / influence-propagation / state-change /
direct stimuli at the same instants.  A Pollster harness entity maps the mean belief to a consumer sentiment and
drives one or two Advertisers (audience tiers, periodic evaluation) reporting to an AdPlatform.

Widened configuration space (new cfg keys are optional; old cfgs keep their meaning): population sizes 1-3 and
60-80 besides 20-40; every heartbeat / action delay / influence period / payment, message and shop latency / poll
period / advertiser evaluation interval / stimulus and sentiment time comes from the boundary palette `dur_ms`
(values that lose a nanosecond in Instant.from_seconds such as 1.001 s, 1-4 decimals, action delay longer than the
heartbeat, evaluation interval that is no multiple of anything else); a "hot" agent receives more stimuli than the
episodic memory holds (AgentState._memories: deque(maxlen=100)) so that the memory wraps around; softmax
temperatures / aspiration levels / conformity weights at and beyond the ends of their ranges; Environment built
with defaults (no influence model, no shared state) or by late register_agent(); Agents without a decision
model; segment fractions 0 and 1; graph generators with k odd / larger than the population, rewiring and edge
probabilities 0 and 1; an occasional 8-10 s run."""
from __future__ import annotations

import random

from hv.scenarios.base import T, dur_ms, seed_all, size_over, stats_of, sub_seed

NAME = "behavior"
MODEL = None
COMPONENTS = ["Agent", "AgentState", "Memory", "Population", "DemographicSegment", "Environment", "SocialGraph",
              "Relationship", "UtilityModel", "RuleBasedModel", "Rule", "BoundedRationalityModel",
              "SocialInfluenceModel", "CompositeModel", "Choice", "DeGrootModel", "BoundedConfidenceModel",
              "VoterModel", "PersonalityTraits", "NormalTraitDistribution", "UniformTraitDistribution",
              "AdPlatform", "Advertiser", "AudienceTier", "Sink", "Counter", "Data"]

TOPICS = ["brand", "policy-7", "rumor"]
BIG5 = ["openness", "conscientiousness", "extraversion", "agreeableness", "neuroticism"]
MODEL_KINDS = ["utility0", "utilityT", "rule", "bounded", "social", "composite"]
GRAPHS = ["pop_small_world", "pop_complete", "pop_random", "sw", "er", "complete"]
INFLUENCE = ["degroot", "bounded", "voter"]
STIM_KINDS = ["bcast", "bcast", "target", "target", "price", "policy", "infl", "infl", "state", "social", "direct"]
CHOICE_SETS = [["buy", "wait", "switch"], ["buy", "wait", "share"], ["adopt", "ignore", "share"],
               ["accept", "protest", "ignore"], ["buy", "protest"], ["adopt", "share"], ["wait"]]
FORMS = ["str", "dict", "choice", "mixed"]

# per-action constants (a table, not hash()): base attractiveness, "activeness" sign
_BASE = {"buy": 0.55, "wait": 0.45, "switch": 0.30, "accept": 0.50, "protest": 0.35, "ignore": 0.40,
         "share": 0.42, "adopt": 0.48}
_SIGN = {"buy": 1.0, "wait": -0.5, "switch": 0.5, "accept": 0.6, "protest": -1.0, "ignore": -0.2,
         "share": 0.8, "adopt": 1.0}


# --------------------------------------------------------------------------------------------- cfg
def _model_spec(rng, depth=0):
    kind = rng.choice(MODEL_KINDS if depth == 0 else MODEL_KINDS[:5])
    spec = {"kind": kind,
            "w": [rng.randint(-5, 10) / 10.0 for _ in range(6)],
            "topic": rng.choice(TOPICS)}
    if kind == "utilityT":
        spec["temp"] = rng.choice([0.001, 0.05, 0.2, 0.5, 1.0, 2.0, 10.0])
    if kind == "bounded":
        spec["asp"] = rng.choice([0.0, 0.2, 0.4, 0.55, 0.7, 0.95, 2.0])
    if kind == "social":
        spec["conf"] = rng.choice([0.0, 0.3, 0.6, 0.9, 1.0])
    if kind == "rule":
        spec["rules"] = [{"cond": rng.choice(["mood_hi", "mood_lo", "belief_hi", "belief_lo", "cheap", "peers",
                                              "needy", "always", "bad_memories"]),
                          "thr": rng.randint(1, 9) / 10.0,
                          "action": rng.choice(sorted(_BASE)),
                          "prio": rng.randint(0, 3)} for _ in range(rng.randint(2, 6))]
        spec["default"] = rng.choice([None, "wait", "ignore", "buy", "adopt"])
    if kind == "composite":
        spec["parts"] = [[_model_spec(rng, 1), rng.randint(0, 5) / 2.0] for _ in range(rng.randint(1, 4))]
    return spec


def _stim(rng, n, end_ms, t):
    k = rng.choice(STIM_KINDS)
    s = {"k": k, "t": t}
    if k in ("bcast", "target", "direct"):
        s["type"] = rng.choice(["Promo", "Referral", "Survey", "Alert"])
        s["choices"] = rng.choice(CHOICE_SETS)
        s["form"] = rng.choice(FORMS)
        s["valence"] = rng.choice([0.0, 0.0, 0.3, -0.3, 0.8, -0.9])
        s["price"] = rng.choice([20.0, 45.0, 60.0, 90.0, 120.0])
    if k == "target":
        s["idx"] = [rng.randrange(n) for _ in range(rng.randint(1, 8))]  # duplicates allowed
        s["ghost"] = rng.random() < 0.3
    if k == "direct":
        s["idx"] = [rng.randrange(n)]
    if k == "price":
        s["old"] = rng.choice([50.0, 80.0, 100.0])
        s["new"] = rng.choice([30.0, 50.0, 70.0, 100.0, 130.0])
    if k == "policy":
        s["valence"] = rng.choice([-0.8, -0.2, 0.0, 0.4, 1.0])
    if k == "infl":
        s["topic"] = rng.choice(TOPICS)
    if k == "state":
        s["key"] = rng.choice(["price", "demand", "bank_health", "mood-index"])
        s["value"] = rng.randint(0, 100) / 100.0 if s["key"] != "price" else float(rng.randint(20, 120))
    if k == "social":
        s["idx"] = [rng.randrange(n) for _ in range(rng.randint(1, 4))]
        s["topic"] = rng.choice(TOPICS + ["new-topic"])
        s["opinion"] = rng.randint(-10, 10) / 10.0
        s["cred"] = rng.randint(0, 10) / 10.0
        s["know"] = [f"fact-{rng.randint(0, 9)}" for _ in range(rng.randint(0, 3))]
    return s


def _r3(x):
    x = round(float(x), 3)
    return int(x) if x.is_integer() else x


def _maybe0(rng, p0, lo, hi):
    return 0 if rng.random() < p0 else _r3(dur_ms(rng, lo, hi))


def gen_cfg(rng):
    r = rng.random()
    n = rng.randint(20, 40) if r < 0.78 else (rng.choice([1, 2, 3, 5]) if r < 0.9 else rng.randint(60, 80))
    big = n > 40
    end = rng.choice([2.0, 3.0, 4.0]) if big or rng.random() > 0.1 else rng.choice([8.0, 10.0])
    long_run = end > 6
    end_ms = int(end * 1000)
    stimuli = []
    n_slots = rng.randint(8, 18) if not big else rng.randint(5, 9)
    for _ in range(n_slots):
        if rng.random() < 0.5:
            t = rng.randrange(50, end_ms - 250, 50)  # 50 ms grid → slots collide, several stimuli per instant
        else:
            t = _r3(dur_ms(rng, 1, end_ms - 100))     # boundary palette: lossy absolute times above 1 s, decimals
        for _ in range(rng.choice([1, 1, 2, 3, 4])):
            stimuli.append(_stim(rng, n, end_ms, t))
    n_seg = rng.randint(2, 3)
    fr = [[0.25, 0.55, 0.2], [0.5, 0.5], [0.33, 0.33, 0.33], [0.1, 0.7, 0.2], [0.6, 0.3], [1.0, 0.0],
          [0.0, 1.0, 0.0], [0.5, 0.25, 0.25]][rng.randrange(8)]
    n_adv = rng.randint(1, 2)
    hb_lo = 20 if not (big or long_run) else 150
    graphs = GRAPHS if not big else [g for g in GRAPHS if "complete" not in g]
    cfg = {
        "n": n,
        "end": end,
        "pop_mode": rng.choice(["uniform", "segments", "segments", "manual", "manual", "uniform-nomodel"]),
        "prefix": rng.choice(["agent", "user", "cust-x", "p"]),
        "models": [_model_spec(rng) for _ in range(rng.randint(1, 3))],
        "segments": [{"frac": f,
                      "dist": rng.choice(["normal", "normal-std", "uniform", "none"]),
                      "means": [rng.randint(0, 10) / 10.0 for _ in range(5)],
                      "std": rng.choice([0.0, 0.05, 0.15, 0.3, 1.0]),
                      "own_seed": rng.random() < 0.6,
                      "state": rng.random() < 0.8} for f in fr[:max(n_seg, 2)]],
        "graph": rng.choice(graphs),
        "sw_k": rng.choice([2, 3, 4, 6, 50]) if not big else rng.choice([2, 3, 4, 6]),
        "sw_p": rng.choice([0.0, 0.1, 0.3, 0.8, 1.0]),
        "er_p": rng.choice([0.0, 0.05, 0.1, 0.25, 1.0]) if not big else rng.choice([0.0, 0.05, 0.1]),
        "g_weight": rng.choice([0.5, 1.0, 0.25, 0.0]),
        "g_trust": rng.choice([0.5, 1.0, 0.1, 0.0]),
        "extra_edges": [[rng.randrange(n), rng.randrange(n), rng.randint(0, 10) / 10.0, rng.randint(0, 10) / 10.0]
                        for _ in range(rng.randint(0, 12))],
        "ghost_node": rng.random() < 0.3,
        "influence": rng.choice(INFLUENCE),
        "self_w": rng.choice([0.0, 0.3, 0.5, 0.9, 1.0]),
        "eps": rng.choice([0.0, 0.1, 0.3, 0.6, 2.0]),
        "infl_every_ms": _maybe0(rng, 0.2, 40 if not (big or long_run) else 250, 800),
        "infl_topic": rng.choice(TOPICS),
        "hb_ms": [_maybe0(rng, 0.35, hb_lo, 1500) for _ in range(rng.randint(1, 4))],
        "delay_ms": [_maybe0(rng, 0.4, 0.5, 1500) for _ in range(rng.randint(1, 4))],
        "float_times": rng.random() < 0.5,
        "early_events": rng.random() < 0.25,
        "stimuli": stimuli,
        "pay_ms": _r3(dur_ms(rng, 0.5, 60, zero=True)),
        "msg_ms": _maybe0(rng, 0.2, 0.5, 40),
        "share_budget": rng.randint(0, 2),
        "shop_stock": rng.choice([0, 5, 20, 60, 150, 400]),
        "shop_every": rng.randint(1, 6),
        "shop_reprices": rng.randint(0, 3),
        "shop_ms": _r3(dur_ms(rng, 0.5, 80, zero=True)),
        "poll_ms": _maybe0(rng, 0.25, 30 if not long_run else 200, 1200),
        "advertisers": [{"price": float(rng.choice([60, 100, 150])), "cost": float(rng.choice([20, 50, 55, 150])),
                         "every_ms": _r3(dur_ms(rng, 50 if not long_run else 250, 2500)),
                         "tiers": [[rng.randint(0, 1000), rng.randint(5, 90) * 1.0]
                                   for _ in range(rng.randint(0, 5))]} for _ in range(n_adv)],
        "sentiment": [[_r3(dur_ms(rng, 1, end_ms - 100)), rng.randint(-2, 12) / 10.0, rng.randrange(n_adv)]
                      for _ in range(rng.randint(0, 6))],
        # one agent receives more stimuli than AgentState keeps memories (deque(maxlen=100)): wrap-around
        "hot": {"idx": rng.randrange(n), "n": size_over(rng, [0, 0, 0, 10, 40], 100),
                "start_ms": _r3(dur_ms(rng, 0, 900, zero=True)), "gap_ms": _r3(dur_ms(rng, 0.5, 12, zero=True)),
                "via_env": rng.random() < 0.5, "choices": rng.choice(CHOICE_SETS), "valence": rng.choice([0.0, 0.5, -0.7])},
        "env_ctor": rng.choice(["full", "full", "late", "defaults"]),
        # every DecisionModel kind in one population (agents get the models round-robin) and every InfluenceModel in
        # one run (Environment.influence_model is swapped at these times)
        "mix_models": rng.random() < 0.5,
        "infl_switch": [[_r3(dur_ms(rng, 100, end_ms - 100)), k] for k in rng.sample(INFLUENCE, 3)]
                       if rng.random() < 0.5 else [],
        "bare_agents": rng.random() < 0.3,
        "seed_memories": rng.choice([0, 0, 1, 3, 99]),   # Memory records present before the run (99: almost full)
    }
    if cfg["mix_models"]:
        specs = []
        for kind in MODEL_KINDS:
            for _ in range(200):
                sp = _model_spec(rng)
                if sp["kind"] == kind:
                    specs.append(sp)
                    break
        cfg["models"] = specs
    return cfg


# --------------------------------------------------------------------------------------------- decision models
def _peer_fraction(ctx, action):
    peers = ctx.social_context.get("peer_actions", {})
    tot = 0
    for a in sorted(peers):
        tot += peers[a]
    return (peers.get(action, 0) / tot) if tot else 0.0


def make_utility(w, topic):
    """deterministic utility in [0, 1.5] from traits, state, memories, environment and peers"""

    def utility(choice, ctx):
        a = choice.action
        sg = _SIGN.get(a, 0.0)
        tr, st = ctx.traits, ctx.state
        u = _BASE.get(a, 0.3)
        u += 0.3 * w[0] * (tr.get("openness") - 0.5) * sg
        u += 0.3 * w[1] * (st.mood - 0.5) * sg
        price = choice.context.get("price", ctx.environment.get("price"))
        if price is not None and a == "buy":
            u += 0.4 * w[2] * (1.0 - float(price) / 100.0)
        u += 0.3 * w[3] * st.beliefs.get(topic, 0.0) * sg
        u += 0.5 * w[4] * _peer_fraction(ctx, a)
        u += 0.2 * w[5] * (float(ctx.environment.get("demand", 0.5)) - 0.5) * sg
        u += 0.1 * st.average_recent_valence(5) * sg
        u += 0.1 * st.needs.get("product", 0.0) * (1.0 if a in ("buy", "adopt") else 0.0)
        u -= 0.1 * (1.0 - st.energy) * abs(sg)
        u -= 0.1 * tr.get("neuroticism") * (1.0 if a == "switch" else 0.0)
        return max(0.0, min(1.5, u))

    return utility


def _condition(rule, topic):
    cond, thr = rule["cond"], rule["thr"]

    def check(ctx):
        st = ctx.state
        if cond == "mood_hi":
            return st.mood > thr
        if cond == "mood_lo":
            return st.mood < thr
        if cond == "belief_hi":
            return st.beliefs.get(topic, 0.0) > thr - 0.5
        if cond == "belief_lo":
            return st.beliefs.get(topic, 0.0) < thr - 0.5
        if cond == "cheap":
            p = ctx.stimulus.get("new_price", ctx.environment.get("price"))
            return p is not None and float(p) < thr * 120.0
        if cond == "peers":
            return _peer_fraction(ctx, rule["action"]) >= thr
        if cond == "needy":
            return st.needs.get("product", 0.0) > thr
        if cond == "bad_memories":
            return st.average_recent_valence(3) < 0.0 and len(st.recent_memories(3)) >= 2
        return True

    return check


def make_model(spec):
    from happysimulator.components.behavior import (BoundedRationalityModel, CompositeModel, Rule, RuleBasedModel,
                                                    SocialInfluenceModel, UtilityModel)

    kind = spec["kind"]
    fn = make_utility(spec["w"], spec["topic"])
    if kind == "utility0":
        return UtilityModel(fn)
    if kind == "utilityT":
        return UtilityModel(utility_fn=fn, temperature=spec["temp"])
    if kind == "bounded":
        return BoundedRationalityModel(utility_fn=fn, aspiration=spec["asp"])
    if kind == "social":
        return SocialInfluenceModel(individual_fn=fn, conformity_weight=spec["conf"])
    if kind == "rule":
        rules = [Rule(condition=_condition(r, spec["topic"]), action=r["action"], priority=r["prio"])
                 for r in spec["rules"]]
        return RuleBasedModel(rules, default_action=spec["default"])
    return CompositeModel([(make_model(p), wt) for p, wt in spec["parts"]])


def _choices(form, names, price):
    from happysimulator.components.behavior import Choice

    out = []
    for i, a in enumerate(names):
        f = form if form != "mixed" else FORMS[i % 3]
        if f == "str":
            out.append(a)
        elif f == "dict":
            out.append({"action": a, "context": {"price": price, "product": "gadget"}})
        else:
            out.append(Choice(action=a, context={"price": price}))
    return out


# --------------------------------------------------------------------------------------------- build
def build(cfg, seed):
    from happysimulator.components.advertising import AdPlatform, Advertiser, AudienceTier
    from happysimulator.components.behavior import (Agent, AgentState, BoundedConfidenceModel, DeGrootModel,
                                                    DemographicSegment, Environment, Memory, NormalTraitDistribution,
                                                    PersonalityTraits, Population, SocialGraph,
                                                    UniformTraitDistribution, VoterModel)
    from happysimulator.components.behavior.stimulus import (broadcast_stimulus, influence_propagation,
                                                             policy_announcement, price_change, targeted_stimulus)
    from happysimulator.components.common import Counter, Sink
    from happysimulator.core.entity import Entity
    from happysimulator.core.event import Event
    from happysimulator.core.simulation import Simulation
    from happysimulator.core.temporal import Instant

    seed_all(seed)
    n, end = cfg["n"], cfg["end"]
    end_ms = int(end * 1000)
    prefix = cfg["prefix"]
    models = cfg["models"]
    srng = random.Random(sub_seed(seed, "state"))

    def I(ms):
        """exact Instant of a (possibly fractional) millisecond value"""
        return Instant(int(round(ms * 1_000_000)))

    def at(ms):
        """stimulus time: float seconds (library truncates to ns) or an exact Instant"""
        return ms / 1000.0 if cfg["float_times"] else I(ms)

    def fresh_state():
        st = AgentState(
            satisfaction=srng.randint(2, 9) / 10.0,
            mood=srng.randint(0, 10) / 10.0,
            beliefs={tp: srng.randint(-10, 10) / 10.0 for tp in TOPICS[:srng.randint(1, 3)]},
            needs={"product": srng.randint(0, 10) / 10.0, "security": srng.randint(0, 5) / 10.0},
        )
        for j in range(cfg.get("seed_memories", 0)):
            st.add_memory(Memory(time=-1.0 - j, event_type="Childhood", source=f"past-{j}",
                                 valence=(j % 5 - 2) / 4.0, details={"j": j}))
        return st

    # ------------------------------------------------------------------ population
    gkind = cfg["graph"]
    pop_graph = {"pop_small_world": "small_world", "pop_complete": "complete", "pop_random": "random"}.get(
        gkind, "small_world")
    mode = cfg["pop_mode"]
    bare = cfg.get("bare_agents", False)
    if mode in ("uniform", "uniform-nomodel"):
        pop = Population.uniform(size=n, decision_model=make_model(models[0]) if mode == "uniform" else None,
                                 graph_type=pop_graph, seed=sub_seed(seed, "pop"), name_prefix=prefix)
        for a in pop.agents:  # uniform() gives default states; opinions are seeded like the examples do
            st = fresh_state()
            a.state.beliefs.update(st.beliefs)
            a.state.needs.update(st.needs)
            a.state.mood = st.mood
    elif mode == "segments":
        segs = []
        for j, sc in enumerate(cfg["segments"]):
            means = dict(zip(BIG5, sc["means"]))
            if sc["dist"] == "normal":
                dist = NormalTraitDistribution(means=means)
            elif sc["dist"] == "normal-std":
                dist = NormalTraitDistribution(means=means, stds={"neuroticism": sc["std"], "openness": sc["std"]})
            elif sc["dist"] == "uniform":
                dist = UniformTraitDistribution(BIG5[: 3 + j])
            else:
                dist = None
            spec = models[j % len(models)]
            segs.append(DemographicSegment(
                name=f"seg-{j}", fraction=sc["frac"], trait_distribution=dist,
                decision_model_factory=(lambda spec=spec: make_model(spec)),
                initial_state_factory=fresh_state if sc["state"] else None,
                seed=sub_seed(seed, "seg", j) if sc["own_seed"] else None))
        pop = Population.from_segments(total_size=n, segments=segs, graph_type=pop_graph,
                                       seed=sub_seed(seed, "pop"), name_prefix=prefix)
    else:
        trng = random.Random(sub_seed(seed, "traits"))
        agents = []
        for i in range(n):
            nm = f"{prefix}-{(i * 37 + 11) % 101}"
            if bare and i % 5 == 3:   # constructor defaults: default traits / state, no model, no heartbeat
                agents.append(Agent(nm, seed=sub_seed(seed, "agent", i)))
                continue
            agents.append(Agent(
                name=nm,
                traits=PersonalityTraits.big_five(*[trng.randint(0, 10) / 10.0 for _ in range(5)]),
                decision_model=make_model(models[i % len(models)]),
                state=fresh_state(),
                seed=sub_seed(seed, "agent", i),
                heartbeat_interval=cfg["hb_ms"][i % len(cfg["hb_ms"])] / 1000.0,
                action_delay=cfg["delay_ms"][i % len(cfg["delay_ms"])] / 1000.0))
        pop = Population(agents, SocialGraph.small_world([a.name for a in agents], k=4, p_rewire=0.1,
                                                         rng=random.Random(sub_seed(seed, "popgraph"))))
    agents = pop.agents
    names = [a.name for a in agents]
    n = len(agents)
    if cfg.get("mix_models", False) and mode != "uniform-nomodel":
        for i, a in enumerate(agents):
            if a.decision_model is not None:
                a.decision_model = make_model(models[i % len(models)])
    if mode != "manual":
        for i, a in enumerate(agents):
            a.heartbeat_interval = cfg["hb_ms"][i % len(cfg["hb_ms"])] / 1000.0
            a.action_delay = cfg["delay_ms"][i % len(cfg["delay_ms"])] / 1000.0

    # ------------------------------------------------------------------ social graph
    grng = random.Random(sub_seed(seed, "graph"))
    if gkind == "sw":
        graph = SocialGraph.small_world(names, k=cfg["sw_k"], p_rewire=cfg["sw_p"], weight=cfg["g_weight"],
                                        trust=cfg["g_trust"], rng=grng)
    elif gkind == "er":
        graph = SocialGraph.random_erdos_renyi(names, p=cfg["er_p"], weight=cfg["g_weight"], trust=cfg["g_trust"],
                                               rng=grng)
    elif gkind == "complete":
        graph = SocialGraph.complete(names, weight=cfg["g_weight"], trust=cfg["g_trust"], rng=grng)
    else:
        graph = pop.social_graph
    for i, j, w, tr in cfg["extra_edges"]:
        if i % n != j % n:
            graph.add_edge(names[i % n], names[j % n], weight=w, trust=tr)
    if cfg["ghost_node"]:  # a graph node that is not a registered agent (the Environment skips it)
        graph.add_bidirectional_edge("outsider-1", names[n // 2], weight=0.9, trust=0.2)
        graph.add_edge("outsider-1", names[0], weight=0.4, trust=0.9)

    def make_influence(infl):
        if infl == "degroot":
            return DeGrootModel(self_weight=cfg["self_w"])
        if infl == "bounded":
            return BoundedConfidenceModel(epsilon=cfg["eps"], self_weight=cfg["self_w"])
        return VoterModel()

    imodel = make_influence(cfg["influence"])
    env_ctor = cfg.get("env_ctor", "full")
    if env_ctor == "full":
        env = Environment(name="market", agents=agents, social_graph=graph,
                          shared_state={"price": 80.0, "demand": 0.5}, influence_model=imodel,
                          seed=sub_seed(seed, "env"))
    elif env_ctor == "late":
        env = Environment(name="market", social_graph=graph, shared_state={"price": 80.0, "demand": 0.5},
                          influence_model=imodel, seed=sub_seed(seed, "env"))
        for a in agents:
            env.register_agent(a)
    else:   # constructor defaults: DeGrootModel(), empty shared state
        env = Environment("market", agents, graph, seed=sub_seed(seed, "env"))

    # ------------------------------------------------------------------ harness entities
    sink = Sink("adoptions")
    counter = Counter("tally")
    pay_lat = cfg["pay_ms"] / 1000.0
    msg_lat = cfg["msg_ms"] / 1000.0
    shop_lat = cfg["shop_ms"] / 1000.0

    class Shop(Entity):
        """sells a product; publishes stock to the environment and re-prices every k purchases"""

        def __init__(self):
            super().__init__("shop")
            self.stock = cfg["shop_stock"]
            self.sold = 0
            self.refused = 0
            self.reprices = 0
            self.price = 80.0
            self.buyers = []
            self.revenue = 0.0

        def handle_event(self, event):
            meta = event.context.get("metadata", {})
            if self.stock <= 0:
                self.refused += 1
                return [Event(time=self.now, event_type="SoldOut", target=counter)]
            self.stock -= 1
            self.sold += 1
            self.buyers.append(meta.get("agent", "?"))
            self.revenue += float(meta.get("price", self.price))
            out = [Event(time=self.now, event_type="StateChange", target=env,
                         context={"metadata": {"key": "stock", "value": self.stock}}),
                   Event(time=self.now + shop_lat, event_type="Receipt", target=counter)]
            if self.sold % cfg["shop_every"] == 0 and self.reprices < cfg["shop_reprices"]:
                self.reprices += 1
                old = self.price
                self.price = old + 10.0 if self.reprices % 2 else old - 15.0
                out.append(Event(time=self.now, event_type="StateChange", target=env,
                                 context={"metadata": {"key": "price", "value": self.price}}))
                out.append(price_change(self.now + shop_lat, env, "gadget", old, self.price))
            return out

    shop = Shop()

    platform = AdPlatform("AdGiant")
    advertisers = []
    for i, ac in enumerate(cfg["advertisers"]):
        tiers = [AudienceTier(f"ring-{j}", base_monthly_sales=s, base_cpa=c) for j, (s, c) in enumerate(ac["tiers"])]
        advertisers.append(Advertiser(f"seller-{i}", product_price=ac["price"], production_cost=ac["cost"],
                                      tiers=tiers, platform=platform, evaluation_interval=ac["every_ms"] / 1000.0))

    class Pollster(Entity):
        """maps the population's mean belief about the brand to consumer sentiment for the advertisers"""

        def __init__(self):
            super().__init__("pollster")
            self.series = []

        def handle_event(self, event):
            vals = [a.state.beliefs.get(TOPICS[0], 0.0) for a in env.agents]
            mean = sum(vals) / len(vals)
            sentiment = max(0.0, min(1.0, (mean + 1.0) / 2.0 + 0.25))
            self.series.append(sentiment)
            out = [Event(time=self.now, event_type="SentimentChange", target=adv,
                         context={"metadata": {"sentiment": sentiment}}) for adv in advertisers]
            out.append(Event(time=self.now, event_type="StateChange", target=env,
                             context={"metadata": {"key": "sentiment", "value": sentiment}}))
            out.append(Event(time=self.now + cfg["poll_ms"] / 1000.0, event_type="Poll", target=self, daemon=True))
            return out

    pollster = Pollster()

    # ------------------------------------------------------------------ action handlers
    share_left = {nm: cfg["share_budget"] for nm in names}
    handled = {"n": 0}

    def h_buy(ag, choice, event):
        handled["n"] += 1
        price = choice.context.get("price", env.shared_state.get("price", 50.0))
        ag.state.needs["product"] = max(0.0, ag.state.needs.get("product", 0.5) - 0.3)
        ag.state.satisfaction = min(1.0, ag.state.satisfaction + 0.05)
        return Event(time=ag.now + pay_lat, event_type="Purchase", target=shop,
                     context={"metadata": {"agent": ag.name, "price": price}})

    def h_wait(ag, choice, event):
        handled["n"] += 1
        ag.state.needs["product"] = min(1.0, ag.state.needs.get("product", 0.0) + 0.05)
        return None

    def h_switch(ag, choice, event):
        handled["n"] += 1
        ag.state.beliefs[TOPICS[0]] = max(-1.0, ag.state.beliefs.get(TOPICS[0], 0.0) - 0.2)
        return [Event(time=ag.now, event_type="Churn", target=counter)]

    def h_accept(ag, choice, event):
        handled["n"] += 1
        ag.state.satisfaction = min(1.0, ag.state.satisfaction + 0.1)
        ag.state.beliefs[TOPICS[1]] = min(1.0, ag.state.beliefs.get(TOPICS[1], 0.0) + 0.1)
        return Event(time=ag.now + msg_lat, event_type="Accepted", target=counter)

    def h_protest(ag, choice, event):
        handled["n"] += 1
        topic = TOPICS[1] if "policy" in choice.context else TOPICS[2]
        ag.state.beliefs[topic] = max(-1.0, ag.state.beliefs.get(topic, 0.0) - 0.3)
        out = [Event(time=ag.now, event_type="Protest", target=counter)]
        for nb in env.social_graph.neighbors(ag.name):
            rel = env.social_graph.get_edge(ag.name, nb)
            env.social_graph.record_interaction(ag.name, nb)
            target = agent_by_name.get(nb)
            if target is None:
                continue
            out.append(Event(time=ag.now + msg_lat, event_type="SocialMessage", target=target,
                             context={"metadata": {"topic": topic, "opinion": ag.state.beliefs[topic],
                                                   "credibility": rel.trust if rel else 0.5,
                                                   "knowledge": [f"heard-from-{ag.name}"]}}))
        return out

    def h_ignore(ag, choice, event):
        handled["n"] += 1
        return None

    def h_share(ag, choice, event):
        handled["n"] += 1
        if share_left[ag.name] <= 0:
            return None
        share_left[ag.name] -= 1
        nbs = env.social_graph.neighbors(ag.name)[:12]  # bounded fan-out (complete graphs)
        if not nbs:
            return None
        return targeted_stimulus(ag.now + (msg_lat or 0.001), env, nbs, "Referral",
                                 choices=["adopt", "share", "ignore"], source=ag.name, valence=0.2)

    def h_adopt(ag, choice, event):
        handled["n"] += 1
        ag.state.knowledge.add("gadget")
        ag.state.beliefs[TOPICS[0]] = min(1.0, ag.state.beliefs.get(TOPICS[0], 0.0) + 0.25)
        return Event(time=ag.now + pay_lat, event_type="Adopted", target=sink,
                     context={"created_at": event.time, "metadata": {"agent": ag.name}})

    agent_by_name = {a.name: a for a in agents}
    handlers = {"buy": h_buy, "wait": h_wait, "switch": h_switch, "accept": h_accept, "protest": h_protest,
                "share": h_share, "adopt": h_adopt}  # "ignore" only for every other agent (no-handler path)
    for i, a in enumerate(agents):
        for act in sorted(handlers):
            a.on_action(act, handlers[act])
        if i % 2 == 0:
            a.on_action("ignore", h_ignore)

    # ------------------------------------------------------------------ simulation + schedule
    def stimulus_events():
        evs = []
        for s in cfg["stimuli"]:
            k, t = s["k"], s["t"]
            exact = I(t)
            if k in ("bcast", "target", "direct"):
                ch = _choices(s["form"], s["choices"], s["price"])
            if k == "bcast":
                evs.append(broadcast_stimulus(at(t), env, s["type"], choices=ch, valence=s["valence"],
                                              source="campaign"))
            elif k == "target":
                tg = [names[i] for i in s["idx"]]
                if s["ghost"]:
                    tg.insert(1, "nobody-99")
                evs.append(targeted_stimulus(at(t), env, tg, s["type"], choices=ch, valence=s["valence"],
                                             source="crm"))
            elif k == "direct":
                evs.append(Event(time=exact, event_type=s["type"], target=agents[s["idx"][0]],
                                 context={"metadata": {"choices": ch, "valence": s["valence"], "source": "direct"}}))
            elif k == "price":
                evs.append(price_change(at(t), env, "gadget", s["old"], s["new"]))
            elif k == "policy":
                evs.append(policy_announcement(at(t), env, "policy-7", "a new rule", valence=s["valence"]))
            elif k == "infl":
                evs.append(influence_propagation(at(t), env, s["topic"]))
            elif k == "state":
                evs.append(Event(time=exact, event_type="StateChange", target=env,
                                 context={"metadata": {"key": s["key"], "value": s["value"]}}))
            elif k == "social":
                for i in s["idx"]:
                    evs.append(Event(time=exact, event_type="SocialMessage", target=agents[i],
                                     context={"metadata": {"topic": s["topic"], "opinion": s["opinion"],
                                                           "credibility": s["cred"], "knowledge": list(s["know"])}}))
        return evs

    class Switcher(Entity):
        """swaps the Environment's influence model (public attribute) in the middle of the run"""

        def __init__(self):
            super().__init__("switcher")
            self.log = []

        def handle_event(self, event):
            kind = event.context["metadata"]["kind"]
            env.influence_model = make_influence(kind)
            self.log.append([self.now.nanoseconds, kind])
            return None

    switcher = Switcher()
    # cfg["early_events"]: the stimulus events are created before the Simulation object exists and scheduled
    # afterwards (as tests/test_event_cancellation.py does); otherwise they are created after it (as the examples do)
    early = stimulus_events() if cfg["early_events"] else None
    sim = Simulation(end_time=T(end), entities=[env, *agents, shop, sink, counter, pollster, platform, *advertisers, switcher])
    sim.schedule(early if early is not None else stimulus_events())

    for a in agents:
        hb = a.schedule_first_heartbeat(Instant.Epoch)
        if hb is not None:
            sim.schedule(hb)
    if cfg["infl_every_ms"]:
        k = 1
        while k * cfg["infl_every_ms"] < end_ms:
            t = k * cfg["infl_every_ms"]
            sim.schedule(influence_propagation(at(t if isinstance(t, int) else round(t, 3)), env, cfg["infl_topic"]))
            k += 1
    if cfg["poll_ms"]:
        sim.schedule(Event(time=I(cfg["poll_ms"]), event_type="Poll", target=pollster, daemon=True))
    for t, kind in cfg.get("infl_switch", []):
        sim.schedule(Event(time=I(t), event_type="SwitchInfluence", target=switcher, daemon=True,
                           context={"metadata": {"kind": kind}}))
    hot = cfg.get("hot")
    if hot and hot["n"]:
        # more stimuli for one agent than its episodic memory holds (wrap-around of deque(maxlen=100))
        hname = names[hot["idx"] % n]
        for j in range(hot["n"]):
            t = round(hot["start_ms"] + j * hot["gap_ms"], 3)
            if t >= end_ms:
                break
            if hot["via_env"] and j % 2 == 0:
                sim.schedule(targeted_stimulus(at(t), env, [hname], "Nudge", choices=list(hot["choices"]),
                                               valence=hot["valence"], source=f"hot-{j}"))
            else:
                sim.schedule(Event(time=I(t), event_type="Nudge", target=agent_by_name[hname],
                                   context={"metadata": {"choices": list(hot["choices"]), "valence": hot["valence"],
                                                         "source": f"hot-{j}"}}))
    for adv in advertisers:
        for e in adv.start_events():
            sim.schedule(e)
    for t, val, i in cfg["sentiment"]:
        sim.schedule(Event(time=I(t), event_type="SentimentChange", target=advertisers[i],
                           context={"metadata": {"sentiment": val}}))

    # ------------------------------------------------------------------ observers
    def agent_view(a):
        st = a.state
        mem = st.recent_memories(3)
        return {"stats": stats_of(a)(),
                "beliefs": [[k, st.beliefs[k]] for k in sorted(st.beliefs)],
                "needs": [[k, st.needs[k]] for k in sorted(st.needs)],
                "mood": st.mood, "satisfaction": st.satisfaction, "energy": st.energy,
                "knowledge": sorted(st.knowledge),
                "n_mem": len(st.recent_memories(1000)),
                "oldest_mem": [[m.time, m.source] for m in st.recent_memories(1000)[-1:]],
                "mem": [[m.time, m.event_type, m.source, m.valence] for m in mem],
                "avg_valence": st.average_recent_valence(5),
                "traits": [[k, a.traits.get(k)] for k in sorted(a.traits.names())],
                "share_left": share_left[a.name]}

    def graph_view():
        g = env.social_graph
        edges = []
        for src in sorted(names):
            for dst in sorted(g.neighbors(src)):
                r = g.get_edge(src, dst)
                edges.append([src, dst, r.weight, r.trust, r.interaction_count])
        return {"nodes": sorted(g.nodes), "edge_count": g.edge_count, "edges": edges,
                "neighbors_order": [[nm, g.neighbors(nm)] for nm in names[:5]],
                "influencers_order": [[nm, g.influencers(nm)] for nm in names[:5]],
                "influence_weights": [[k, v] for k, v in sorted(g.influence_weights(names[0]).items())]}

    def adv_view(adv):
        return {"stats": stats_of(adv)(), "sentiment": adv.sentiment, "margin": adv.margin,
                "active": [t.name for t in adv.active_tiers],
                "profit": list(adv.profit_data.values), "rev": adv.platform_revenue_data.values,
                "tiers": adv.active_tier_data.values, "cpa": adv.blended_cpa_data.values,
                "margin_pct": adv.margin_pct_data.values, "sales": adv.total_sales_data.values,
                "sentiment_series": adv.sentiment_data.values, "gross": adv.gross_revenue_data.values,
                "spend": adv.ad_spend_data.values,
                "sensitivity": [[r["sentiment"], r["advertiser_profit"], r["platform_revenue"], r["tier_names"]]
                                for r in adv.sensitivity_analysis(steps=4)],
                "breakeven": [[t.name, t.breakeven_sentiment(adv.margin), t.monthly_ad_spend] for t in adv.tiers]}

    obs = {
        "agents": lambda: [[nm, agent_view(agent_by_name[nm])] for nm in sorted(names)],
        "agent_order": lambda: [a.name for a in env.agents],
        "population": lambda: {"size": pop.size, "stats": stats_of(pop)()},
        "environment": lambda: {"stats": stats_of(env)(),
                                "shared": [[k, env.shared_state[k]] for k in sorted(env.shared_state)]},
        "graph": graph_view,
        "shop": lambda: {"stock": shop.stock, "sold": shop.sold, "refused": shop.refused, "price": shop.price,
                         "reprices": shop.reprices, "buyers": list(shop.buyers), "revenue": shop.revenue},
        "sink": lambda: {"n": sink.events_received, "lat": sink.latency_stats()},
        "counter": lambda: {"total": counter.total,
                            "by_type": [[k, counter.by_type[k]] for k in sorted(counter.by_type)]},
        "handled": lambda: handled["n"],
        "switcher": lambda: {"log": list(switcher.log), "model": type(env.influence_model).__name__},
        "pollster": lambda: list(pollster.series),
        "platform": lambda: {"stats": stats_of(platform)(), "rev": platform.revenue_data.values},
    }
    for adv in advertisers:
        obs[adv.name] = (lambda adv=adv: adv_view(adv))
    return sim, obs
