"""Messaging: producers → MessageQueue (delivery latency, capacity, round-robin consumers that ack / reject /
let the visibility timeout fire → schedule_redelivery, max_redeliveries → DeadLetterQueue with capacity +
retention, reprocess_all) and Topic (several subscribers, per-subscriber delivery latency, unsubscribe /
re-subscribe window, retained history replayed to a late subscriber, a bridge subscriber that republishes
into the queue).  Everything is driven by Sources and small harness entities under the engine."""
from __future__ import annotations

import random

from hv.scenarios.base import T, seed_all, stats_of, sub_seed

NAME = "messaging"
MODEL = "C19"
COMPONENTS = ["MessageQueue", "DeadLetterQueue", "Topic", "Source", "NullEntity"]


def gen_cfg(rng):
    end = rng.choice([2.0, 3.0, 4.0])
    n_cons = rng.randint(2, 4)
    n_subs = rng.randint(2, 5)
    # consumer behaviour weights: ack / reject+requeue / reject+drop / ignore (visibility timeout) / slow ack
    beh = [rng.randint(2, 8), rng.randint(0, 4), rng.randint(0, 2), rng.randint(0, 4), rng.randint(0, 3)]
    return {
        "end": end,
        "lat_ms": rng.randint(1, 20),
        "redelay_ms": rng.randint(10, 200),
        "max_redeliveries": rng.randint(0, 3),
        "capacity": rng.choice([None, None, 4, 8, 20]),
        "n_cons": n_cons,
        "proc_ms": [rng.randint(1, 30) for _ in range(n_cons)],
        "beh": beh,
        "vis_ms": rng.randint(5, 80),
        "producers": [{"rate": rng.choice([10, 20, 40, 80]), "poisson": rng.random() < 0.5,
                       "batch": rng.choice([1, 1, 2, 3])} for _ in range(rng.randint(1, 3))],
        "poll_rate": rng.choice([0, 20, 50, 100]),
        "poll_after_publish": rng.random() < 0.8,
        "unsub": [rng.randint(0, n_cons - 1), rng.randint(300, 900), rng.randint(1000, 1800)]
                 if rng.random() < 0.6 else None,
        "dlq_cap": rng.choice([None, 2, 5]),
        "dlq_retention_ms": rng.choice([None, 200, 800]),
        "dlq_reprocess_ms": rng.choice([None, 1500, 1900]),
        "dlq_cleanup_rate": rng.choice([0, 5]),
        # topic
        "n_subs": n_subs,
        "t_lat_ms": rng.randint(0, 15),
        "t_rate": rng.choice([10, 20, 50]),
        "t_poisson": rng.random() < 0.5,
        "t_mode": rng.choice(["direct", "event", "sync"]),
        "t_unsub": [rng.randint(0, n_subs - 1), rng.randint(300, 900), rng.randint(1000, 1800)]
                   if rng.random() < 0.7 else None,
        "t_retain": rng.choice([0, 5, 50]),
        "t_late_ms": rng.randint(500, 1500),
        "t_max_subs": rng.choice([None, n_subs, n_subs + 1]),
        "sub_proc_ms": rng.randint(0, 10),
        "bridge": rng.random() < 0.5,
    }


def build(cfg, seed):
    from happysimulator.components.messaging import DeadLetterQueue, MessageQueue, Topic
    from happysimulator.core.callback_entity import NullEntity
    from happysimulator.core.entity import Entity
    from happysimulator.core.event import Event
    from happysimulator.core.simulation import Simulation
    from happysimulator.core.temporal import Instant
    from happysimulator.load.source import Source

    seed_all(seed)
    null = NullEntity()
    end = cfg["end"]
    stop = end - 0.6

    dlq = DeadLetterQueue("orders-dlq", capacity=cfg["dlq_cap"],
                          retention_period=None if cfg["dlq_retention_ms"] is None else cfg["dlq_retention_ms"] / 1000.0)
    queue = MessageQueue("orders", delivery_latency=cfg["lat_ms"] / 1000.0,
                         redelivery_delay=cfg["redelay_ms"] / 1000.0, max_redeliveries=cfg["max_redeliveries"],
                         capacity=cfg["capacity"], dead_letter_queue=dlq)
    topic = Topic("notify", delivery_latency=cfg["t_lat_ms"] / 1000.0, max_subscribers=cfg["t_max_subs"])
    if cfg["t_retain"]:
        topic.set_retain_messages(True, max_history=cfg["t_retain"])

    def poll_event(ent):
        return Event(time=ent.now, event_type="poll", target=queue)

    class Producer(Entity):
        def __init__(self, i, batch):
            super().__init__(f"producer-{i}")
            self.i, self.batch = i, batch
            self.n = 0
            self.published = 0
            self.full = 0

        def handle_event(self, event):
            polls = 0
            for _ in range(self.batch):
                self.n += 1
                payload = Event(time=self.now, event_type=f"order-{self.i}-{self.n}", target=null,
                                context={"customer": f"user-{(self.n * 7 + self.i) % 23}"})
                try:
                    mid = yield from queue.publish(payload)
                except RuntimeError:
                    self.full += 1
                    continue
                if mid is not None:
                    self.published += 1
                if cfg["poll_after_publish"]:
                    polls += 1
            # events are created when the generator returns, so they are stamped with the current clock
            return [poll_event(self) for _ in range(polls)]

    class Consumer(Entity):
        def __init__(self, i):
            super().__init__(f"consumer-{i}")
            self.i = i
            self.rng = random.Random(sub_seed(seed, "cons", i))
            self.proc = cfg["proc_ms"][i] / 1000.0
            self.got = []
            self.acked = self.rejected = self.dropped = self.ignored = self.slow = 0
            self.timeouts = 0
            self.redeliveries_scheduled = 0

        def handle_event(self, event):
            if event.event_type == "vis_timeout":
                self.timeouts += 1
                ev = queue.schedule_redelivery(event.context["message_id"])
                if ev is not None:
                    self.redeliveries_scheduled += 1
                    return [ev]
                return [poll_event(self)]
            if event.event_type != "message_delivery":
                return []
            mid = event.context["message_id"]
            self.got.append([event.context["payload"].event_type, event.context["delivery_count"]])
            what = self.rng.choices(range(5), weights=cfg["beh"])[0]
            vis = Event(time=self.now + cfg["vis_ms"] / 1000.0, event_type="vis_timeout", target=self,
                        context={"message_id": mid})
            if what == 0:
                yield self.proc
                queue.acknowledge(mid)
                self.acked += 1
                return [poll_event(self)]
            if what == 1:
                yield self.proc
                queue.reject(mid, requeue=True)
                self.rejected += 1
                return [poll_event(self)]
            if what == 2:
                queue.reject(mid, requeue=False)
                self.dropped += 1
                return [poll_event(self)]
            if what == 3:
                self.ignored += 1
                return [vis]
            # slow ack: the visibility timeout fires first, the ack arrives while redelivery is pending
            self.slow += 1
            yield 0.0, [vis]
            yield cfg["vis_ms"] / 1000.0 + self.proc
            queue.acknowledge(mid)
            return [poll_event(self)]

    class TopicPub(Entity):
        def __init__(self):
            super().__init__("topic-pub")
            self.n = 0

        def handle_event(self, event):
            self.n += 1
            payload = Event(time=self.now, event_type=f"note-{self.n}", target=null,
                            context={"customer": f"user-{self.n % 17}"})
            if cfg["t_mode"] == "event":
                return [Event(time=self.now, event_type="publish", target=topic, context={"payload": payload})]
            if cfg["t_mode"] == "sync":
                return topic.publish_sync(payload)
            return self._direct(payload)

        def _direct(self, payload):
            events = yield from topic.publish(payload)
            return events

    class Subscriber(Entity):
        def __init__(self, name, bridge=False):
            super().__init__(name)
            self.bridge = bridge
            self.n = 0
            self.replays = 0
            self.first = []
            self.last = None
            self.bridged = 0
            self.bridge_full = 0

        def handle_event(self, event):
            if event.event_type != "topic_message":
                return []
            self.n += 1
            p = event.context["payload"].event_type
            if event.context.get("is_replay"):
                self.replays += 1
            if len(self.first) < 5:
                self.first.append(p)
            self.last = p
            if cfg["sub_proc_ms"]:
                yield cfg["sub_proc_ms"] / 1000.0
            if self.bridge and self.n % 3 == 0:
                try:
                    yield from queue.publish(event.context["payload"])
                    self.bridged += 1
                except RuntimeError:
                    self.bridge_full += 1
                    return []
                return [poll_event(self)]
            return []

    class Admin(Entity):
        def handle_event(self, event):
            op = event.event_type
            if op == "q_unsub":
                queue.unsubscribe(consumers[event.context["i"]])
            elif op == "q_resub":
                queue.subscribe(consumers[event.context["i"]])
                return [poll_event(self)]
            elif op == "t_unsub":
                topic.unsubscribe(subs[event.context["i"]])
            elif op == "t_resub":
                try:
                    topic.subscribe(subs[event.context["i"]])
                except RuntimeError:
                    self.refused += 1
            elif op == "t_late":
                try:
                    return topic.subscribe(late, replay_history=True)
                except RuntimeError:
                    self.refused += 1
            elif op == "dlq_reprocess":
                evs = dlq.reprocess_all(queue)
                self.reprocessed += len(evs)
                return evs
            return []

    producers = [Producer(i, p["batch"]) for i, p in enumerate(cfg["producers"])]
    consumers = [Consumer(i) for i in range(cfg["n_cons"])]
    for c in consumers:
        queue.subscribe(c)
    subs = [Subscriber(f"sub-{i}", bridge=(cfg["bridge"] and i == 0)) for i in range(cfg["n_subs"])]
    for s in subs:
        topic.subscribe(s)
    late = Subscriber("sub-late")
    tpub = TopicPub()
    admin = Admin("admin")
    admin.refused = 0
    admin.reprocessed = 0

    sources = []
    for i, p in enumerate(cfg["producers"]):
        mk = Source.poisson if p["poisson"] else Source.constant
        sources.append(mk(rate=p["rate"], target=producers[i], event_type="Tick", name=f"src-prod-{i}",
                          stop_after=stop))
    if cfg["poll_rate"]:
        sources.append(Source.constant(rate=cfg["poll_rate"], target=queue, event_type="poll", name="src-poll",
                                       stop_after=end - 0.1))
    if cfg["dlq_cleanup_rate"]:
        sources.append(Source.constant(rate=cfg["dlq_cleanup_rate"], target=dlq, event_type="cleanup",
                                       name="src-cleanup", stop_after=end - 0.1))
    mk = Source.poisson if cfg["t_poisson"] else Source.constant
    sources.append(mk(rate=cfg["t_rate"], target=tpub, event_type="Tick", name="src-topic", stop_after=stop))

    sim = Simulation(end_time=T(end), sources=sources,
                     entities=[queue, dlq, topic, tpub, admin, late, *producers, *consumers, *subs])

    def at(ms, typ, **ctx):
        sim.schedule(Event(time=Instant.from_seconds(ms / 1000.0), event_type=typ, target=admin, context=ctx))

    if cfg["unsub"]:
        i, a, b = cfg["unsub"]
        at(a, "q_unsub", i=i)
        at(b, "q_resub", i=i)
    if cfg["t_unsub"]:
        i, a, b = cfg["t_unsub"]
        at(a, "t_unsub", i=i)
        at(b, "t_resub", i=i)
    at(cfg["t_late_ms"], "t_late")
    if cfg["dlq_reprocess_ms"] is not None:
        at(cfg["dlq_reprocess_ms"], "dlq_reprocess")

    def q_obs():
        return {"pending": queue.pending_count, "in_flight": queue.in_flight_count,
                "consumers": queue.consumer_count, "full": queue.is_full,
                "avg_lat": queue.stats.avg_delivery_latency, "ack_rate": queue.stats.ack_rate}

    def dlq_obs():
        return {"count": dlq.message_count,
                "msgs": [[m.payload.event_type, m.delivery_count, m.state.name] for m in dlq.messages],
                "by_count": len(dlq.get_messages_by_delivery_count(2))}

    def topic_obs():
        return {"subscriber_count": topic.subscriber_count,
                "subscribers": [s.name for s in topic.subscribers],
                "received": [[s.name, topic.get_subscription(s).messages_received,
                              topic.get_subscription(s).active] for s in [*subs, late]
                             if topic.get_subscription(s) is not None],
                "avg_lat": topic.stats.avg_delivery_latency}

    obs = {"queue": stats_of(queue), "queue.x": q_obs, "dlq": stats_of(dlq), "dlq.x": dlq_obs,
           "topic": stats_of(topic), "topic.x": topic_obs,
           "admin": lambda: {"refused": admin.refused, "reprocessed": admin.reprocessed},
           "tpub": lambda: tpub.n}
    for p in producers:
        obs[p.name] = (lambda p=p: {"n": p.n, "published": p.published, "full": p.full})
    for c in consumers:
        obs[c.name] = (lambda c=c: {"n": len(c.got), "ack": c.acked, "rej": c.rejected, "drop": c.dropped,
                                    "ign": c.ignored, "slow": c.slow, "timeouts": c.timeouts,
                                    "resched": c.redeliveries_scheduled, "got": c.got})
    for s in [*subs, late]:
        obs[s.name] = (lambda s=s: {"n": s.n, "replays": s.replays, "first": s.first, "last": s.last,
                                    "bridged": s.bridged, "bridge_full": s.bridge_full})
    return sim, obs
