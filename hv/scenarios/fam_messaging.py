"""Messaging: producers → MessageQueue (delivery latency, capacity, round-robin consumers that ack / reject /
let the visibility timeout fire → schedule_redelivery, max_redeliveries → DeadLetterQueue with capacity +
retention, reprocess_all) and Topic (several subscribers, per-subscriber delivery latency, unsubscribe /
re-subscribe window, retained history replayed to a late subscriber and to a re-activated one, a bridge subscriber that republishes
into the queue).  Everything is driven by Sources and small harness entities under the engine.

Configuration coverage (widened):
  * every constructor parameter of MessageQueue / DeadLetterQueue / Topic is drawn: delivery latencies incl. 0,
    redelivery delay from 1 ms to 2.5 s, max_redeliveries 0..10, capacity None / 0 / 1 / small / large,
    with and without a dead letter queue, DLQ capacity None / 0 / 1 / small, DLQ retention shorter and longer than the
    cleanup period, Topic max_subscribers None / 0 / 1 / exactly n / n+1, retained history 0 / small / around the
    library default `deque(maxlen=100)` (99, 100, 101, 110, 203 and the default itself) with more than 100 publishes
    before the late subscriber joins (bounded history wraps, the replay is a > 100 event burst at one instant);
  * all durations come from `dur_ms` (lossy values, 1-4 decimals, round values), the absolute admin times
    (unsubscribe / re-subscribe, late subscriber, DLQ operations, bursts) as well, so they lie above 1 s and are lossy
    sometimes; the ORDER of related durations varies (visibility timeout shorter / longer than the processing time,
    redelivery delay shorter than the delivery latency, DLQ retention shorter than the cleanup period, ...);
  * load regimes: light, sustained overload (publish rate far above the poll rate, bounded and unbounded queue),
    starved (no poll source, polls only from acks), bursts of many same-instant publishes / topic publishes;
  * a second queue ("audit": no DLQ, own latency / capacity incl. 0 and 1) fed by the bridge subscriber;
  * Topic publication through all three entry points (generator, "publish" event, publish_sync) in ONE run
    (`t_mode = "mix"`), single-mode runs still occur;
  * DLQ admin script: reprocess_all / reprocess (single) / pop / peek / clear event / cleanup event /
    get_message / get_messages_by_age;
  * consumers additionally misuse the API in harmless ways (double ack, reject after ack, redelivery of a message
    that is not in flight).
Message ids are uuid4 strings (not seeded): no observer exposes them.
"""
from __future__ import annotations

import random

from hv.scenarios.base import T, dur_ms, seed_all, size_over, stats_of, sub_seed

NAME = "messaging"
MODEL = "C19"
COMPONENTS = ["MessageQueue", "DeadLetterQueue", "Topic", "Source", "NullEntity"]

T_MODES = ["direct", "event", "sync"]
DLQ_OPS = ["reprocess_all", "reprocess_one", "pop", "peek", "clear", "cleanup"]


def _gen_q2(rng):
    return {"lat_ms": dur_ms(rng, 0.1, 30, zero=True), "redelay_ms": dur_ms(rng, 1, 300),
            "max_redeliveries": rng.choice([0, 1, 3]), "capacity": rng.choice([None, 0, 1, 3, 10]),
            "proc_ms": dur_ms(rng, 0.1, 40, zero=True), "requeue_pct": rng.choice([0, 30, 100])}


def gen_cfg(rng):
    long = rng.random() < 0.12
    end = rng.choice([8.0, 10.0, 12.0]) if long else rng.choice([2.0, 3.0, 4.0])
    end_ms = int(end * 1000)
    regime = rng.choice(["light", "light", "overload", "burst", "starved"])
    n_cons = rng.randint(1, 4)
    n_subs = rng.randint(1, 5)
    # consumer behaviour weights: ack / reject+requeue / reject+drop / ignore (visibility timeout) / slow ack
    if rng.random() < 0.2:
        beh = [0, 0, 0, 0, 0]
        beh[rng.randrange(5)] = 1           # one behaviour only (probability 0 / 1 corner)
    else:
        beh = [rng.randint(2, 8), rng.randint(0, 4), rng.randint(0, 2), rng.randint(0, 4), rng.randint(0, 3)]
    if long:
        rates = [5, 10, 20]
    elif regime == "overload":
        rates = [150, 300, 500]
    else:
        rates = [10, 20, 40, 80]
    n_prod = rng.randint(1, 2) if regime == "overload" else rng.randint(1, 3)
    poll_rate = rng.choice([0, 20, 50, 100])
    poll_after_publish = rng.random() < 0.8
    if regime == "overload":
        poll_after_publish = rng.random() < 0.3
        poll_rate = rng.choice([10, 20, 50])
    if regime == "starved":
        poll_rate, poll_after_publish = 0, rng.random() < 0.5
    bursts = []
    if regime == "burst" or rng.random() < 0.2:
        bursts = [[dur_ms(rng, 50, end_ms - 700), rng.randrange(n_prod), rng.choice([5, 20, 60, 120])]
                  for _ in range(rng.randint(1, 3))]
    t_bursts = [[dur_ms(rng, 50, end_ms - 700), rng.choice([5, 20, 60])]
                for _ in range(rng.choice([0, 0, 1, 2]))]
    t_retain = rng.choice([0, 5, 50, -1, size_over(rng, [1, 3], 100)])   # -1: library default max_history (100)
    big_hist = t_retain == -1 or t_retain >= 99
    t_rate = rng.choice([100, 200]) if big_hist and not long else (
        rng.choice([5, 10, 20]) if long else rng.choice([10, 20, 50, 100]))
    t_late_lo = 1500 if big_hist else 300
    unsub_a = dur_ms(rng, 100, min(1500, end_ms - 1000))
    t_unsub_a = dur_ms(rng, 100, min(1500, end_ms - 1000))
    return {
        "end": end,
        "regime": regime,
        "lat_ms": dur_ms(rng, 0.1, 40, zero=True),
        "redelay_ms": dur_ms(rng, 1, 400) if rng.random() < 0.8 else dur_ms(rng, 1000, 2500),
        "max_redeliveries": rng.choice([0, 1, 2, 3, 3, 10]),
        "capacity": rng.choice([None, None, None, 0, 1, 2, 4, 8, 20, 200]),
        "dlq": rng.random() < 0.85,
        "n_cons": n_cons,
        "proc_ms": [dur_ms(rng, 0.1, rng.choice([10, 60, 300]), zero=True) for _ in range(n_cons)],
        "beh": beh,
        "beh_extra": rng.choice([0, 0, 1, 3]),
        "vis_ms": dur_ms(rng, 1, rng.choice([20, 120, 1200])),
        "producers": [{"rate": rng.choice(rates), "poisson": rng.random() < 0.5,
                       "batch": rng.choice([1, 1, 2] if regime == "overload" else [1, 1, 2, 3, 8])}
                      for _ in range(n_prod)],
        "bursts": bursts,
        "poll_rate": poll_rate,
        "poll_after_publish": poll_after_publish,
        "unsub": [rng.randint(0, n_cons - 1), unsub_a, dur_ms(rng, unsub_a, end_ms - 300)]
                 if rng.random() < 0.6 else None,
        "dlq_cap": rng.choice([None, None, 0, 1, 2, 5, 50]),
        "dlq_retention_ms": rng.choice([None, dur_ms(rng, 5, 300), dur_ms(rng, 300, 2500)]),
        "dlq_reprocess_ms": rng.choice([None, None, dur_ms(rng, 600, end_ms - 100)]),
        "dlq_ops": sorted([[dur_ms(rng, 300, end_ms - 100), rng.choice(DLQ_OPS)]
                           for _ in range(rng.choice([0, 1, 3, 6]))], key=lambda o: o[0]),
        "dlq_cleanup_rate": rng.choice([0, 1, 5, 40]),
        "q2": _gen_q2(rng) if rng.random() < 0.5 else None,
        # topic
        "n_subs": n_subs,
        "t_lat_ms": dur_ms(rng, 0.1, 25, zero=True),
        "t_rate": t_rate,
        "t_poisson": rng.random() < 0.5,
        "t_mode": rng.choice(["mix", "mix", "direct", "event", "sync"]),
        "t_bursts": t_bursts,
        "t_unsub": [rng.randint(0, n_subs - 1), t_unsub_a, dur_ms(rng, t_unsub_a, end_ms - 300)]
                   if rng.random() < 0.7 else None,
        "t_retain": t_retain,
        "t_late_ms": dur_ms(rng, t_late_lo, end_ms - 400),
        "t_late_replay": rng.random() < 0.85,
        "t_resub_replay": rng.random() < 0.5,
        "t_max_subs": rng.choice([None, None, 0, 1, n_subs, n_subs + 1]),
        "sub_proc_ms": dur_ms(rng, 0.1, 20, zero=True),
        "bridge": rng.random() < 0.5,
        "bridge_every": rng.choice([1, 3, 3, 7]),
    }


def build(cfg, seed):
    from happysimulator.components.messaging import DeadLetterQueue, MessageQueue, Topic
    from happysimulator.components.messaging.message_queue import MessageState
    from happysimulator.core.callback_entity import NullEntity
    from happysimulator.core.entity import Entity
    from happysimulator.core.event import Event
    from happysimulator.core.simulation import Simulation
    from happysimulator.core.temporal import Instant
    from happysimulator.load.source import Source

    seed_all(seed)
    null = NullEntity()
    end = cfg["end"]
    stop = end - 0.6
    beh_extra = cfg.get("beh_extra", 0)
    bridge_every = cfg.get("bridge_every", 3)
    q2c = cfg.get("q2")

    dlq = DeadLetterQueue("orders-dlq", capacity=cfg["dlq_cap"],
                          retention_period=None if cfg["dlq_retention_ms"] is None else cfg["dlq_retention_ms"] / 1000.0)
    queue = MessageQueue("orders", delivery_latency=cfg["lat_ms"] / 1000.0,
                         redelivery_delay=cfg["redelay_ms"] / 1000.0, max_redeliveries=cfg["max_redeliveries"],
                         capacity=cfg["capacity"], dead_letter_queue=dlq if cfg.get("dlq", True) else None)
    q2 = None
    if q2c is not None:
        q2 = MessageQueue("audit", delivery_latency=q2c["lat_ms"] / 1000.0, redelivery_delay=q2c["redelay_ms"] / 1000.0,
                          max_redeliveries=q2c["max_redeliveries"], capacity=q2c["capacity"])
    topic = Topic("notify", delivery_latency=cfg["t_lat_ms"] / 1000.0, max_subscribers=cfg["t_max_subs"])
    if cfg["t_retain"] == -1:
        topic.set_retain_messages(True)
    elif cfg["t_retain"]:
        topic.set_retain_messages(True, max_history=cfg["t_retain"])

    def poll_event(ent, q=None):
        return Event(time=ent.now, event_type="poll", target=q or queue)

    class Producer(Entity):
        def __init__(self, i, batch):
            super().__init__(f"producer-{i}")
            self.i, self.batch = i, batch
            self.n = 0
            self.published = 0
            self.full = 0

        def handle_event(self, event):
            polls = 0
            for _ in range(self.batch):
                self.n += 1
                payload = Event(time=self.now, event_type=f"order-{self.i}-{self.n}", target=null,
                                context={"customer": f"user-{(self.n * 7 + self.i) % 23}"})
                try:
                    mid = yield from queue.publish(payload)
                except RuntimeError:
                    self.full += 1
                    continue
                if mid is not None:
                    self.published += 1
                if cfg["poll_after_publish"]:
                    polls += 1
            # events are created when the generator returns, so they are stamped with the current clock
            return [poll_event(self) for _ in range(polls)]

    class Consumer(Entity):
        def __init__(self, i):
            super().__init__(f"consumer-{i}")
            self.i = i
            self.rng = random.Random(sub_seed(seed, "cons", i))
            self.proc = cfg["proc_ms"][i] / 1000.0
            self.got = []
            self.mids = []
            self.acked = self.rejected = self.dropped = self.ignored = self.slow = self.misuse = 0
            self.timeouts = 0
            self.redeliveries_scheduled = 0

        def handle_event(self, event):
            if event.event_type == "vis_timeout":
                self.timeouts += 1
                ev = queue.schedule_redelivery(event.context["message_id"])
                if ev is not None:
                    self.redeliveries_scheduled += 1
                    return [ev]
                return [poll_event(self)]
            if event.event_type != "message_delivery":
                return []
            mid = event.context["message_id"]
            self.got.append([event.context["payload"].event_type, event.context["delivery_count"]])
            self.mids.append(mid)
            if beh_extra:
                what = self.rng.choices(range(6), weights=[*cfg["beh"], beh_extra])[0]
            else:
                what = self.rng.choices(range(5), weights=cfg["beh"])[0]
            vis = Event(time=self.now + cfg["vis_ms"] / 1000.0, event_type="vis_timeout", target=self,
                        context={"message_id": mid})
            if what == 0:
                yield self.proc
                queue.acknowledge(mid)
                self.acked += 1
                return [poll_event(self)]
            if what == 1:
                yield self.proc
                queue.reject(mid, requeue=True)
                self.rejected += 1
                return [poll_event(self)]
            if what == 2:
                queue.reject(mid, requeue=False)
                self.dropped += 1
                return [poll_event(self)]
            if what == 3:
                self.ignored += 1
                return [vis]
            if what == 5:
                # harmless misuse: double ack, reject after ack, redelivery of a message that is gone
                self.misuse += 1
                queue.acknowledge(mid)
                queue.acknowledge(mid)
                queue.reject(mid, requeue=True)
                ev = queue.schedule_redelivery(mid)
                yield self.proc
                return [poll_event(self)] + ([ev] if ev is not None else [])
            # slow ack: the visibility timeout fires first, the ack arrives while redelivery is pending
            self.slow += 1
            yield 0.0, [vis]
            yield cfg["vis_ms"] / 1000.0 + self.proc
            queue.acknowledge(mid)
            return [poll_event(self)]

    class AuditConsumer(Entity):
        """consumer of the second queue (no DLQ): acks or rejects-with-requeue after a processing time"""

        def __init__(self):
            super().__init__("audit-consumer")
            self.rng = random.Random(sub_seed(seed, "audit"))
            self.got = []
            self.acked = self.rejected = 0

        def handle_event(self, event):
            if event.event_type != "message_delivery":
                return []
            mid = event.context["message_id"]
            self.got.append([event.context["payload"].event_type, event.context["delivery_count"]])
            if q2c["proc_ms"]:
                yield q2c["proc_ms"] / 1000.0
            if self.rng.randrange(100) < q2c["requeue_pct"]:
                q2.reject(mid, requeue=True)
                self.rejected += 1
            else:
                q2.acknowledge(mid)
                self.acked += 1
            return [poll_event(self, q2)]

    class TopicPub(Entity):
        def __init__(self):
            super().__init__("topic-pub")
            self.n = 0

        def handle_event(self, event):
            self.n += 1
            payload = Event(time=self.now, event_type=f"note-{self.n}", target=null,
                            context={"customer": f"user-{self.n % 17}"})
            mode = cfg["t_mode"]
            if mode == "mix":
                mode = T_MODES[self.n % 3]
            if mode == "event":
                return [Event(time=self.now, event_type="publish", target=topic, context={"payload": payload})]
            if mode == "sync":
                return topic.publish_sync(payload)
            return self._direct(payload)

        def _direct(self, payload):
            events = yield from topic.publish(payload)
            return events

    class Subscriber(Entity):
        def __init__(self, name, bridge=False):
            super().__init__(name)
            self.bridge = bridge
            self.n = 0
            self.replays = 0
            self.first = []
            self.last = None
            self.bridged = 0
            self.bridge_full = 0

        def handle_event(self, event):
            if event.event_type != "topic_message":
                return []
            self.n += 1
            p = event.context["payload"].event_type
            if event.context.get("is_replay"):
                self.replays += 1
            if len(self.first) < 5:
                self.first.append(p)
            self.last = p
            if cfg["sub_proc_ms"]:
                yield cfg["sub_proc_ms"] / 1000.0
            if self.bridge and self.n % bridge_every == 0:
                tq = q2 or queue
                try:
                    yield from tq.publish(event.context["payload"])
                    self.bridged += 1
                except RuntimeError:
                    self.bridge_full += 1
                    return []
                return [poll_event(self, tq)]
            return []

    class Admin(Entity):
        def handle_event(self, event):
            op = event.event_type
            if op == "q_unsub":
                queue.unsubscribe(consumers[event.context["i"]])
            elif op == "q_resub":
                queue.subscribe(consumers[event.context["i"]])
                return [poll_event(self)]
            elif op == "t_unsub":
                topic.unsubscribe(subs[event.context["i"]])
            elif op == "t_resub":
                try:
                    # with replay: the re-activated subscription (subscribed long ago) gets the retained history
                    return topic.subscribe(subs[event.context["i"]], replay_history=cfg.get("t_resub_replay", False))
                except RuntimeError:
                    self.refused += 1
            elif op == "t_late":
                try:
                    return topic.subscribe(late, replay_history=cfg.get("t_late_replay", True))
                except RuntimeError:
                    self.refused += 1
            elif op == "dlq_reprocess" or op == "dlq_reprocess_all":
                evs = dlq.reprocess_all(queue)
                self.reprocessed += len(evs)
                return evs
            elif op == "dlq_reprocess_one":
                m = dlq.get_message(dlq.message_count // 2)
                self.dlq_log.append(["one", None if m is None else m.payload.event_type,
                                     len(dlq.get_messages_by_age(0.25))])
                if m is not None:
                    ev = dlq.reprocess(m, queue)
                    again = dlq.reprocess(m, queue)      # the message is gone: None
                    self.dlq_log.append(["again", again is None])
                    if ev is not None:
                        self.reprocessed += 1
                        return [ev]
            elif op == "dlq_pop":
                m = dlq.pop()
                self.dlq_log.append(["pop", None if m is None else [m.payload.event_type, m.delivery_count]])
            elif op == "dlq_peek":
                m = dlq.peek()
                self.dlq_log.append(["peek", None if m is None else m.payload.event_type, dlq.is_full])
            elif op == "dlq_clear":
                return [Event(time=self.now, event_type="clear", target=dlq)]
            elif op == "dlq_cleanup":
                return [Event(time=self.now, event_type="cleanup", target=dlq)]
            return []

    producers = [Producer(i, p["batch"]) for i, p in enumerate(cfg["producers"])]
    consumers = [Consumer(i) for i in range(cfg["n_cons"])]
    for c in consumers:
        queue.subscribe(c)
    audit = None
    if q2 is not None:
        audit = AuditConsumer()
        q2.subscribe(audit)
    admin = Admin("admin")
    admin.refused = 0
    admin.reprocessed = 0
    admin.dlq_log = []
    subs = [Subscriber(f"sub-{i}", bridge=(cfg["bridge"] and i == 0)) for i in range(cfg["n_subs"])]
    for s in subs:
        try:
            topic.subscribe(s)
        except RuntimeError:            # max_subscribers below the number of subscribers
            admin.refused += 1
    late = Subscriber("sub-late")
    tpub = TopicPub()

    sources = []
    for i, p in enumerate(cfg["producers"]):
        mk = Source.poisson if p["poisson"] else Source.constant
        sources.append(mk(rate=p["rate"], target=producers[i], event_type="Tick", name=f"src-prod-{i}",
                          stop_after=stop))
    if cfg["poll_rate"]:
        sources.append(Source.constant(rate=cfg["poll_rate"], target=queue, event_type="poll", name="src-poll",
                                       stop_after=end - 0.1))
        if q2 is not None:
            sources.append(Source.constant(rate=cfg["poll_rate"], target=q2, event_type="poll", name="src-poll2",
                                           stop_after=end - 0.1))
    if cfg["dlq_cleanup_rate"]:
        sources.append(Source.constant(rate=cfg["dlq_cleanup_rate"], target=dlq, event_type="cleanup",
                                       name="src-cleanup", stop_after=end - 0.1))
    mk = Source.poisson if cfg["t_poisson"] else Source.constant
    sources.append(mk(rate=cfg["t_rate"], target=tpub, event_type="Tick", name="src-topic", stop_after=stop))

    ents = [queue, dlq, topic, tpub, admin, late, *producers, *consumers, *subs]
    if q2 is not None:
        ents += [q2, audit]
    sim = Simulation(end_time=T(end), sources=sources, entities=ents)

    def at(ms, typ, target=None, **ctx):
        sim.schedule(Event(time=Instant.from_seconds(ms / 1000.0), event_type=typ, target=target or admin,
                           context=ctx))

    if cfg["unsub"]:
        i, a, b = cfg["unsub"]
        at(a, "q_unsub", i=i)
        at(b, "q_resub", i=i)
    if cfg["t_unsub"]:
        i, a, b = cfg["t_unsub"]
        at(a, "t_unsub", i=i)
        at(b, "t_resub", i=i)
    at(cfg["t_late_ms"], "t_late")
    if cfg["dlq_reprocess_ms"] is not None:
        at(cfg["dlq_reprocess_ms"], "dlq_reprocess")
    for t_ms, op in cfg.get("dlq_ops", []):
        at(t_ms, "dlq_" + op)
    for t_ms, i, n in cfg.get("bursts", []):
        for _ in range(n):
            at(t_ms, "Tick", target=producers[i % len(producers)])
    for t_ms, n in cfg.get("t_bursts", []):
        for _ in range(n):
            at(t_ms, "Tick", target=tpub)

    def states_of(q, mids):
        out = {st.name: 0 for st in (MessageState.PENDING, MessageState.DELIVERED, MessageState.ACKNOWLEDGED,
                                     MessageState.REJECTED)}
        for mid in mids:
            m = q.get_message(mid)
            k = "gone" if m is None else m.state.name
            out[k] = out.get(k, 0) + 1
        return sorted(out.items())

    def q_obs(q=queue):
        return {"pending": q.pending_count, "in_flight": q.in_flight_count,
                "consumers": q.consumer_count, "full": q.is_full, "capacity": q.capacity,
                "avg_lat": q.stats.avg_delivery_latency, "ack_rate": q.stats.ack_rate}

    def dlq_obs():
        return {"count": dlq.message_count, "capacity": dlq.capacity, "full": dlq.is_full,
                "msgs": [[m.payload.event_type, m.delivery_count, m.state.name] for m in dlq.messages],
                "by_count": len(dlq.get_messages_by_delivery_count(2)),
                "young": len(dlq.get_messages_by_age(0.5))}

    def topic_obs():
        return {"subscriber_count": topic.subscriber_count, "max": topic.max_subscribers,
                "subscribers": [s.name for s in topic.subscribers],
                "received": [[s.name, topic.get_subscription(s).messages_received,
                              topic.get_subscription(s).active,
                              topic.get_subscription(s).subscribed_at.nanoseconds] for s in [*subs, late]
                             if topic.get_subscription(s) is not None],
                "avg_lat": topic.stats.avg_delivery_latency}

    obs = {"queue": stats_of(queue), "queue.x": q_obs, "dlq": stats_of(dlq), "dlq.x": dlq_obs,
           "topic": stats_of(topic), "topic.x": topic_obs,
           "admin": lambda: {"refused": admin.refused, "reprocessed": admin.reprocessed, "dlq_log": admin.dlq_log},
           "tpub": lambda: tpub.n}
    if q2 is not None:
        obs["audit"] = stats_of(q2)
        obs["audit.x"] = lambda: dict(q_obs(q2), got=audit.got[:40], n=len(audit.got), ack=audit.acked,
                                      rej=audit.rejected)
    for p in producers:
        obs[p.name] = (lambda p=p: {"n": p.n, "published": p.published, "full": p.full})
    for c in consumers:
        obs[c.name] = (lambda c=c: {"n": len(c.got), "ack": c.acked, "rej": c.rejected, "drop": c.dropped,
                                    "ign": c.ignored, "slow": c.slow, "misuse": c.misuse, "timeouts": c.timeouts,
                                    "resched": c.redeliveries_scheduled, "got": c.got,
                                    "states": states_of(queue, c.mids)})
    for s in [*subs, late]:
        obs[s.name] = (lambda s=s: {"n": s.n, "replays": s.replays, "first": s.first, "last": s.last,
                                    "bridged": s.bridged, "bridge_full": s.bridge_full})
    return sim, obs
