"""Queues and servers.

  chain : sources → Server chain (one queue policy, bounded queues) → ThreadPool → Sink, under contention.
  bank  : sources → Tagger (flow id, deadline, priority, weight in the context) → Fanout → one Server per queue
          policy variant (EVERY policy the library offers: FIFO / LIFO / Priority / CoDel / RED / AdaptiveLIFO /
          Deadline / Fair / WeightedFair, each with all constructor parameters drawn) → ThreadPool (own queue policy,
          processing_time_extractor) / AsyncServer (CPU + I/O phase, connection limit) → Sink.
Load regimes: light, near capacity, and SUSTAINED OVERLOAD (arrival rate a multiple of the service capacity for the
whole run — RED between its thresholds, CoDel dropping, deadline expiry, bounded queues rejecting).
Concurrency: plain int, FixedConcurrency, DynamicConcurrency (resized during the run by an admin entity),
WeightedConcurrency (requests carry weights).
Only `random.seed` / `numpy.random.seed` (seed_all) control the library's randomness here: no per-object seeds."""
from __future__ import annotations

import random

from hv.scenarios.base import T, dur_ms, seed_all, stats_of, sub_seed

NAME = "queues"
MODEL = "C08"
COMPONENTS = ["Server", "ThreadPool", "AsyncServer", "QueuedResource", "QueueDriver", "Queue", "FIFOQueue", "LIFOQueue",
              "PriorityQueue", "CoDelQueue", "REDQueue", "AdaptiveLIFO", "DeadlineQueue", "FairQueue",
              "WeightedFairQueue", "FixedConcurrency", "DynamicConcurrency", "WeightedConcurrency", "Sink", "Source",
              "ExponentialLatency", "ConstantLatency", "PoissonArrivalTimeProvider", "ConstantArrivalTimeProvider"]

POLICIES = ["fifo", "lifo", "prio", "codel", "red", "alifo", "fifo-cap"]           # old cfg shape ("chain")
BANK = ["fifo", "fifo-cap", "lifo", "prio", "prio-cap", "codel", "red", "alifo", "deadline", "fair", "wfq"]
CONC = ["int", "fixed", "dynamic", "weighted", "weighted"]


def _red(rng):
    lo = rng.choice([1, 2, 3, 5])
    hi = lo + rng.choice([1, 3, 10, 40])
    return {"min": lo, "max": hi, "p": rng.choice([0.02, 0.1, 0.3, 0.5, 1.0]),
            "cap": rng.choice([None, hi + 1, hi + 8, 4 * hi]), "weight": rng.choice([None, 0.002, 0.05, 0.2, 0.2, 0.5, 0.9])}


def gen_cfg(rng):
    mode = rng.choice(["chain", "bank", "bank", "bank"])
    n_src = rng.randint(1, 3)
    load = rng.choice(["light", "near", "over", "over"])
    return {
        "mode": mode,
        "load": load,
        # ---- chain (old shape)
        "policy": rng.choice(POLICIES),
        "hops": rng.randint(1, 3),
        "conc": [rng.randint(1, 2) for _ in range(3)],
        "svc_ms": [dur_ms(rng, 2, 40) for _ in range(3)],
        "exp": rng.random() < 0.5,
        "sources": [{"rate": rng.choice([5, 10, 20, 40, 80]), "poisson": rng.random() < 0.6} for _ in range(n_src)],
        "cap": rng.choice([1, 2, 5]),
        "pool": rng.randint(1, 2),
        "end": rng.choice([2.0, 3.0, 5.0]) if rng.random() < 0.9 else 9.0,
        # ---- bank
        "policies": list(BANK) if rng.random() < 0.7 else sorted(rng.sample(BANK, rng.randint(2, 6))),
        "bank_svc_ms": dur_ms(rng, 2, 30),
        "bank_conc": rng.randint(1, 2),
        "conc_model": rng.choice(CONC),
        "dyn": {"initial": rng.randint(1, 3), "min": 1, "max": rng.choice([None, 3, 6]),
                "changes": [[dur_ms(rng, 200, 2500), rng.choice(["up", "down", "set1", "set4"])]
                            for _ in range(rng.randint(1, 4))]},
        # WeightedConcurrency: requests carry weights up to max_weight — heavier than what is left while a unit is free,
        # sometimes heavier than the whole pool
        "weighted_cap": rng.choice([1, 3, 6, 10]),
        "max_weight": rng.choice([1, 2, 3, 4, 6, 12]),
        "flows": rng.randint(1, 6),
        "burst": rng.choice([1, 1, 2, 5]),               # same-instant copies of every arrival
        "red": _red(rng),
        "codel": {"target_ms": dur_ms(rng, 1, 30), "interval_ms": dur_ms(rng, 5, 300),
                  "cap": rng.choice([None, 5, 50])},
        "alifo": {"thr": rng.choice([1, 1, 2, 8]), "cap": rng.choice([None, 3, 20])},
        "deadline": {"ttl_ms": dur_ms(rng, 2, 400), "cap": rng.choice([None, 4, 30]), "clock": rng.random() < 0.85},
        "fair": {"max_flows": rng.choice([None, 1, 2, 4]), "per_flow": rng.choice([None, 1, 3])},
        "wfq": {"cap": rng.choice([None, 6, 30]), "per_flow": rng.choice([None, 2, 5]),
                "weights": [rng.choice([1, 1, 2, 5]) for _ in range(6)]},
        "lifo_cap": rng.choice([None, 1, 4, 12]),
        "prio_cap": rng.choice([1, 3, 10]),
        "qcap_kw": rng.choice([None, None, 0, 3]),        # Server(queue_capacity=…) instead of a policy (fifo only)
        "pool_policy": rng.choice(["none", "lifo", "prio", "red"]),
        "pool_extractor": rng.random() < 0.5,
        "async": {"on": rng.random() < 0.7, "max_conn": rng.choice([1, 2, 5, 10000]),
                  "cpu_ms": dur_ms(rng, 1, 10, zero=True), "cpu_exp": rng.random() < 0.4,
                  "io": rng.choice(["none", "gen", "events", "single"]), "io_ms": dur_ms(rng, 1, 40)},
    }


def gen_cfg_wide(rng):
    """maximum-coverage configuration: every queue policy in one bank under sustained overload"""
    cfg = gen_cfg(rng)
    cfg.update({"mode": "bank", "policies": list(BANK), "load": rng.choice(["over", "over", "near"]),
                "end": max(cfg["end"], 3.0)})
    # RED: thresholds far apart and a deep queue, so that under sustained overload the average queue length sits in the
    # probabilistic-drop band (between the thresholds) instead of saturating above max_threshold (forced drops only)
    lo = rng.choice([2, 3, 5])
    cfg["red"] = {"min": lo, "max": lo + rng.choice([30, 40, 60]), "p": rng.choice([0.1, 0.3, 0.5]), "cap": None,
                  "weight": rng.choice([0.05, 0.2, 0.5])}
    cfg["conc_model"] = rng.choice(["weighted", "int", "int"])      # weighted: heavy requests are turned away, no backlog
    cfg["weighted_cap"], cfg["max_weight"] = rng.choice([[3, 3], [6, 4], [10, 6], [3, 6]])
    cfg["async"]["on"] = True
    # enough arrivals for the averaged queue length to leave the transient (the bank caps the total copy rate anyway)
    cfg["sources"] = [{"rate": rng.choice([40, 80]), "poisson": rng.random() < 0.5} for _ in range(rng.randint(1, 2))]
    return cfg


def _policy(cfg, sim_clock):
    """the chain's policy (old cfg shape)"""
    from happysimulator.components.queue_policies import AdaptiveLIFO, CoDelQueue, REDQueue
    from happysimulator.components.queue_policy import FIFOQueue, LIFOQueue, PriorityQueue

    p = cfg["policy"]
    if p == "fifo":
        return FIFOQueue()
    if p == "fifo-cap":
        return FIFOQueue(capacity=cfg["cap"])
    if p == "lifo":
        return LIFOQueue(capacity=cfg["cap"] + 3)
    if p == "prio":
        return PriorityQueue(key=lambda ev: (ev.context.get("request_id", 0) * 7) % 5)
    if p == "codel":
        return CoDelQueue(target_delay=0.005, interval=0.05, capacity=50, clock_func=sim_clock)
    if p == "red":
        r = cfg.get("red")
        if r is None:
            return REDQueue(min_threshold=1, max_threshold=4, max_probability=0.5, capacity=8)
        return REDQueue(min_threshold=r["min"], max_threshold=r["max"], max_probability=r["p"],
                        **_opt(capacity=r["cap"], weight=r["weight"]))
    return AdaptiveLIFO(congestion_threshold=2, capacity=20)


def _opt(**kw):
    return {k: v for k, v in kw.items() if v is not None}


def _bank_policy(kind, cfg, sim_clock):
    from happysimulator.components.queue_policies import (
        AdaptiveLIFO, CoDelQueue, DeadlineQueue, FairQueue, REDQueue, WeightedFairQueue,
    )
    from happysimulator.components.queue_policy import FIFOQueue, LIFOQueue, PriorityQueue

    if kind == "fifo":
        return None if cfg["qcap_kw"] is not None else FIFOQueue()
    if kind == "fifo-cap":
        return FIFOQueue(capacity=cfg["cap"])
    if kind == "lifo":
        return LIFOQueue(**_opt(capacity=cfg["lifo_cap"]))
    if kind == "prio":
        return PriorityQueue(key=lambda ev: ev.context.get("prio", 0))
    if kind == "prio-cap":
        return PriorityQueue(capacity=cfg["prio_cap"], key=lambda ev: (ev.context.get("request_id", 0) * 7) % 3)
    if kind == "codel":
        c = cfg["codel"]
        return CoDelQueue(target_delay=c["target_ms"] / 1000.0, interval=c["interval_ms"] / 1000.0,
                          clock_func=sim_clock, **_opt(capacity=c["cap"]))
    if kind == "red":
        r = cfg["red"]
        return REDQueue(min_threshold=r["min"], max_threshold=r["max"], max_probability=r["p"],
                        **_opt(capacity=r["cap"], weight=r["weight"]))
    if kind == "alifo":
        a = cfg["alifo"]
        return AdaptiveLIFO(congestion_threshold=a["thr"], **_opt(capacity=a["cap"]))
    if kind == "deadline":
        d = cfg["deadline"]
        return DeadlineQueue(get_deadline=lambda ev: ev.context["deadline"],
                             **_opt(capacity=d["cap"], clock_func=sim_clock if d["clock"] else None))
    if kind == "fair":
        f = cfg["fair"]
        return FairQueue(get_flow_id=lambda ev: ev.context["flow"],
                         **_opt(max_flows=f["max_flows"], per_flow_capacity=f["per_flow"]))
    w = cfg["wfq"]
    weights = w["weights"]
    return WeightedFairQueue(get_flow_id=lambda ev: ev.context["flow"],
                             get_weight=lambda flow: weights[int(flow.split("-")[1]) % len(weights)],
                             **_opt(capacity=w["cap"], per_flow_capacity=w["per_flow"]))


def build(cfg, seed):
    if cfg.get("mode", "chain") == "bank":
        return _build_bank(cfg, seed)
    return _build_chain(cfg, seed)


def _rates(cfg, capacity_per_s):
    """arrival rates of the sources for the configured load regime"""
    load = cfg.get("load")
    n = len(cfg["sources"])
    if load == "near":
        return [0.9 * capacity_per_s / n] * n
    if load == "over":
        return [min(2.5 * capacity_per_s, 600.0) / n] * n
    return [float(sc["rate"]) for sc in cfg["sources"]]


def _build_chain(cfg, seed):
    from happysimulator.components.common import Sink
    from happysimulator.components.server import Server, ThreadPool
    from happysimulator.core.simulation import Simulation
    from happysimulator.distributions import ConstantLatency, ExponentialLatency
    from happysimulator.load.source import Source

    seed_all(seed)
    holder = {}

    def clock():
        return holder["sim"]._clock.now

    sink = Sink("sink")
    pool = ThreadPool("pool", num_workers=cfg["pool"], default_processing_time=cfg["svc_ms"][0] / 1000.0,
                      queue_capacity=cfg["cap"] + 2)
    servers = []
    down = pool
    for h in reversed(range(cfg["hops"])):
        lat = cfg["svc_ms"][h] / 1000.0
        dist = ExponentialLatency(lat) if cfg["exp"] else ConstantLatency(lat)
        s = Server(f"srv{h}", concurrency=cfg["conc"][h], service_time=dist,
                   queue_policy=_policy(cfg, clock), downstream=down)
        servers.append(s)
        down = s
    head = down
    sources = []
    if cfg.get("load") in ("near", "over"):
        rates = _rates(cfg, cfg["conc"][0] * 1000.0 / cfg["svc_ms"][0])
    else:
        rates = [sc["rate"] for sc in cfg["sources"]]
    for i, sc in enumerate(cfg["sources"]):
        mk = Source.poisson if sc["poisson"] else Source.constant
        sources.append(mk(rate=rates[i], target=head, event_type=f"Req{i}", name=f"src{i}",
                          stop_after=cfg["end"] - 0.5))
    sim = Simulation(end_time=T(cfg["end"]), sources=sources, entities=[*servers, pool, sink])
    holder["sim"] = sim
    obs = {"sink": lambda: {"n": sink.events_received, "lat": sink.latency_stats()},
           "pool": stats_of(pool)}
    for s in servers:
        obs[s.name] = stats_of(s)
        obs[s.name + ".q"] = (lambda s=s: {"acc": s.stats_accepted, "drop": s.stats_dropped, "depth": s.depth})
        pol = s.queue.policy if hasattr(s.queue, "policy") else None
        if pol is not None and hasattr(pol, "stats"):
            obs[s.name + ".policy"] = stats_of(pol)
    return sim, obs


def _build_bank(cfg, seed):
    from happysimulator.components.common import Sink
    from happysimulator.components.queue_policies import REDQueue
    from happysimulator.components.queue_policy import LIFOQueue, PriorityQueue
    from happysimulator.components.server import (
        AsyncServer, DynamicConcurrency, FixedConcurrency, Server, ThreadPool, WeightedConcurrency,
    )
    from happysimulator.core.entity import Entity
    from happysimulator.core.event import Event
    from happysimulator.core.simulation import Simulation
    from happysimulator.core.temporal import Duration, Instant
    from happysimulator.distributions import ConstantLatency, ExponentialLatency
    from happysimulator.load.source import Source

    seed_all(seed)
    end = cfg["end"]
    stop = end - 0.5
    holder = {}

    def clock():
        return holder["sim"]._clock.now

    sink = Sink("sink")
    # event budget: every arrival is copied to every server of the bank; keep the total below ~900 copies per second
    n_srv, burst = len(cfg["policies"]), cfg["burst"]
    rates = [float(sc["rate"]) for sc in cfg["sources"]]
    scale = min(1.0, 900.0 / (n_srv * burst * sum(rates)))
    rates = [r * scale for r in rates]
    per_server = sum(rates) * burst                 # arrivals per second at each server
    svc = cfg["bank_svc_ms"] / 1000.0
    conc0 = cfg["bank_conc"] if cfg["conc_model"] in ("int", "fixed", "weighted") else 1
    # load regime by service time: utilisation 0.9 ("near") or 2.5 ("over": sustained overload for the whole run)
    if cfg.get("load") == "near":
        svc = round(0.9 * conc0 / per_server, 4)
    elif cfg.get("load") == "over":
        svc = round(2.5 * conc0 / per_server, 4)
    obs = {}
    entities = [sink]

    # ---- second stage: thread pool and async server -----------------------------------------------------------
    pp = {"none": lambda: None, "lifo": lambda: LIFOQueue(capacity=6), "prio": lambda: PriorityQueue(capacity=6, key=lambda ev: ev.context.get("prio", 0)),
          "red": lambda: REDQueue(min_threshold=1, max_threshold=5, max_probability=0.3, capacity=8)}[cfg["pool_policy"]]()
    extractor = (lambda ev: (1 + ev.context.get("prio", 0) % 4) * svc / 4.0) if cfg["pool_extractor"] else None
    pool_kw = _opt(queue_policy=pp, processing_time_extractor=extractor)
    if pp is None:
        pool_kw["queue_capacity"] = cfg["cap"] + 2
    pool = ThreadPool("pool", num_workers=cfg["pool"], default_processing_time=svc / 2.0, **pool_kw)
    entities.append(pool)
    obs["pool"] = stats_of(pool)
    second = [pool]
    a = cfg["async"]
    if a["on"]:
        io_s = a["io_ms"] / 1000.0

        def io_gen(ev):
            yield io_s
            return [Event(time=clock(), event_type="AsyncDone", target=sink, context=ev.context)]

        def io_events(ev):
            return [Event(time=clock() + Duration.from_seconds(io_s), event_type="AsyncDone", target=sink,
                          context=ev.context)]

        def io_single(ev):
            return Event(time=clock(), event_type="AsyncDone", target=sink, context=ev.context)

        handler = {"none": None, "gen": io_gen, "events": io_events, "single": io_single}[a["io"]]
        cpu = a["cpu_ms"] / 1000.0
        cpu_dist = None if cpu == 0 else (ExponentialLatency(cpu) if a["cpu_exp"] else ConstantLatency(cpu))
        asrv = AsyncServer("async", max_connections=a["max_conn"], **_opt(cpu_work_distribution=cpu_dist,
                                                                          io_handler=handler))
        entities.append(asrv)
        second.append(asrv)
        obs["async"] = stats_of(asrv)
        obs["async.x"] = lambda: {"active": asrv.active_connections, "peak": asrv.peak_connections,
                                  "cpuq": asrv.cpu_queue_depth, "busy": asrv.is_cpu_busy, "util": asrv.utilization,
                                  "avg": asrv.average_cpu_time, "p50": asrv.get_cpu_time_percentile(0.5)}

    # ---- first stage: one server per policy ---------------------------------------------------------------------
    models = []

    def concurrency(i):
        kind = cfg["conc_model"]
        if kind == "int":
            return cfg["bank_conc"]
        if kind == "fixed":
            return FixedConcurrency(cfg["bank_conc"])
        if kind == "dynamic":
            d = cfg["dyn"]
            m = DynamicConcurrency(initial=d["initial"], min_limit=d["min"],
                                   **_opt(max_limit=None if d["max"] is None else max(d["max"], d["initial"])))
            models.append(m)
            return m
        # the weighted pool serves the plain policies only: a request heavier than the free capacity is turned away at
        # dispatch, which would empty the queues the adaptive policies (RED, CoDel, …) need to be loaded
        if cfg["policies"][i] in ("fifo", "fifo-cap", "lifo", "prio", "prio-cap"):
            return WeightedConcurrency(cfg["weighted_cap"])
        return cfg["bank_conc"]

    servers = []
    for i, kind in enumerate(cfg["policies"]):
        dist = ExponentialLatency(svc) if cfg["exp"] else ConstantLatency(svc)
        kw = {}
        pol = _bank_policy(kind, cfg, clock)
        if pol is not None:
            kw["queue_policy"] = pol
        elif cfg["qcap_kw"] is not None:
            kw["queue_capacity"] = cfg["qcap_kw"]
        s = Server(f"srv-{kind}", concurrency=concurrency(i), service_time=dist,
                   downstream=second[i % len(second)], **kw)
        servers.append((kind, s, pol))
        entities.append(s)
        obs[s.name] = stats_of(s)
        obs[s.name + ".q"] = (lambda s=s: {"acc": s.stats_accepted, "drop": s.stats_dropped, "depth": s.depth,
                                           "active": s.active_requests, "util": s.utilization})
        if pol is not None and hasattr(pol, "stats"):
            obs[s.name + ".policy"] = stats_of(pol)

    class Tagger(Entity):
        """adds flow id / priority / deadline / weight, then hands a copy to every server of the bank"""

        def __init__(self):
            super().__init__("tagger")
            self.rng = random.Random(sub_seed(seed, "tagger"))
            self.n = 0

        def handle_event(self, event):
            out = []
            for _ in range(cfg["burst"]):
                self.n += 1
                r = self.rng
                ctx = {"flow": f"flow-{r.randrange(cfg['flows'])}", "prio": r.randrange(5), "request_id": self.n,
                       "deadline": self.now + Duration.from_seconds(cfg["deadline"]["ttl_ms"] / 1000.0 * r.random() * 2),
                       "created_at": self.now}
                w = r.randint(1, cfg["max_weight"])
                for _kind, s, _pol in servers:
                    c = dict(ctx)
                    if cfg["conc_model"] == "weighted":
                        c["metadata"] = {"weight": w}
                    out.append(Event(time=self.now, event_type=event.event_type, target=s, context=c))
            return out

    class Admin(Entity):
        """resizes the DynamicConcurrency models during the run"""

        def __init__(self):
            super().__init__("admin")
            self.log = []

        def handle_event(self, event):
            op = event.context["op"]
            for m in models:
                try:
                    if op == "up":
                        m.scale_up(1)
                    elif op == "down":
                        m.scale_down(1)
                    elif op == "set1":
                        m.set_limit(1)
                    else:
                        m.set_limit(4)
                except ValueError as e:
                    self.log.append([self.now.nanoseconds, op, "rejected", str(e)[:40]])
            self.log.append([self.now.nanoseconds, op, [m.limit for m in models]])
            return None

    tagger, admin = Tagger(), Admin()
    entities += [tagger, admin]
    sources = []
    for i, sc in enumerate(cfg["sources"]):
        mk = Source.poisson if sc["poisson"] else Source.constant
        sources.append(mk(rate=rates[i], target=tagger, event_type=f"Req{i}", name=f"src{i}", stop_after=stop))
    sim = Simulation(end_time=T(end), sources=sources, entities=entities)
    holder["sim"] = sim
    if cfg["conc_model"] == "dynamic":
        for ms, op in cfg["dyn"]["changes"]:
            sim.schedule(Event(time=Instant.from_seconds(ms / 1000.0), event_type="Resize", target=admin,
                               context={"op": op}))
    obs["sink"] = lambda: {"n": sink.events_received, "lat": sink.latency_stats()}
    obs["tagger"] = lambda: tagger.n
    obs["admin"] = lambda: admin.log
    return sim, obs
