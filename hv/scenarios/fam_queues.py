"""Queues and servers: sources → Server chain (FIFO/LIFO/priority/CoDel/RED/adaptive-LIFO policies,
bounded queues) → ThreadPool → Sink, under contention (concurrency 1–2)."""
from __future__ import annotations

from hv.scenarios.base import T, grid, seed_all, stats_of

NAME = "queues"
MODEL = "C08"
COMPONENTS = ["Server", "ThreadPool", "QueuedResource", "QueueDriver", "Queue", "FIFOQueue", "LIFOQueue",
              "PriorityQueue", "CoDelQueue", "REDQueue", "AdaptiveLIFO", "Sink", "Source", "ExponentialLatency",
              "ConstantLatency", "PoissonArrivalTimeProvider", "ConstantArrivalTimeProvider"]

POLICIES = ["fifo", "lifo", "prio", "codel", "red", "alifo", "fifo-cap"]


def gen_cfg(rng):
    return {
        "policy": rng.choice(POLICIES),
        "hops": rng.randint(1, 3),
        "conc": [rng.randint(1, 2) for _ in range(3)],
        "svc_ms": [rng.randint(2, 40) for _ in range(3)],
        "exp": rng.random() < 0.5,
        "sources": [{"rate": rng.choice([5, 10, 20, 40, 80]), "poisson": rng.random() < 0.6}
                    for _ in range(rng.randint(1, 3))],
        "cap": rng.choice([1, 2, 5]),
        "pool": rng.randint(1, 2),
        "end": rng.choice([2.0, 3.0, 5.0]),
    }


def _policy(cfg, sim_clock):
    from happysimulator.components.queue_policies import AdaptiveLIFO, CoDelQueue, REDQueue
    from happysimulator.components.queue_policy import FIFOQueue, LIFOQueue, PriorityQueue

    p = cfg["policy"]
    if p == "fifo":
        return FIFOQueue()
    if p == "fifo-cap":
        return FIFOQueue(capacity=cfg["cap"])
    if p == "lifo":
        return LIFOQueue(capacity=cfg["cap"] + 3)
    if p == "prio":
        return PriorityQueue(key=lambda ev: (ev.context.get("request_id", 0) * 7) % 5)
    if p == "codel":
        return CoDelQueue(target_delay=0.005, interval=0.05, capacity=50, clock_func=sim_clock)
    if p == "red":
        return REDQueue(min_threshold=1, max_threshold=4, max_probability=0.5, capacity=8)
    return AdaptiveLIFO(congestion_threshold=2, capacity=20)


def build(cfg, seed):
    from happysimulator.components.common import Sink
    from happysimulator.components.server import Server, ThreadPool
    from happysimulator.core.simulation import Simulation
    from happysimulator.distributions import ConstantLatency, ExponentialLatency
    from happysimulator.load.source import Source

    seed_all(seed)
    holder = {}

    def clock():
        return holder["sim"]._clock.now

    sink = Sink("sink")
    pool = ThreadPool("pool", num_workers=cfg["pool"], default_processing_time=cfg["svc_ms"][0] / 1000.0,
                      queue_capacity=cfg["cap"] + 2)
    servers = []
    down = pool
    for h in reversed(range(cfg["hops"])):
        lat = cfg["svc_ms"][h] / 1000.0
        dist = ExponentialLatency(lat) if cfg["exp"] else ConstantLatency(lat)
        s = Server(f"srv{h}", concurrency=cfg["conc"][h], service_time=dist,
                   queue_policy=_policy(cfg, clock), downstream=down)
        servers.append(s)
        down = s
    head = down
    sources = []
    for i, sc in enumerate(cfg["sources"]):
        mk = Source.poisson if sc["poisson"] else Source.constant
        sources.append(mk(rate=sc["rate"], target=head, event_type=f"Req{i}", name=f"src{i}",
                          stop_after=cfg["end"] - 0.5))
    sim = Simulation(end_time=T(cfg["end"]), sources=sources, entities=[*servers, pool, sink])
    holder["sim"] = sim
    obs = {"sink": lambda: {"n": sink.events_received, "lat": sink.latency_stats()},
           "pool": stats_of(pool)}
    for s in servers:
        obs[s.name] = stats_of(s)
        obs[s.name + ".q"] = (lambda s=s: {"acc": s.stats_accepted, "drop": s.stats_dropped, "depth": s.depth})
    return sim, obs
