"""Synchronisation primitives under contention: Mutex, Semaphore, RWLock, Barrier, Condition and the
shared-capacity Resource. Several worker entities (one load source each) run overlapping jobs that
acquire / hold for a non-zero time / release, so that most acquirers really block behind a holder."""
from __future__ import annotations

import random

from hv.scenarios.base import T, seed_all, stats_of, sub_seed

NAME = "sync"
MODEL = "C09"
COMPONENTS = ["Mutex", "Semaphore", "RWLock", "Barrier", "Condition", "Resource", "Grant", "Source",
              "SimFuture"]

KINDS = ["mutex", "semaphore", "rwlock", "barrier", "condition", "resource"]


def gen_cfg(rng):
    k = rng.randint(2, 4)
    kinds = rng.sample(KINDS, k)
    groups = []
    for kind in kinds:
        g = {
            "kind": kind,
            "workers": rng.randint(3, 5),
            "rate": rng.choice([10, 20, 40, 50]),
            "poisson": rng.random() < 0.5,
            "hold_ms": [rng.randint(1, 10), rng.randint(10, 40)],
            "cap": rng.randint(1, 2),
            "try_every": rng.choice([0, 3, 5]),       # every n-th job uses the non-blocking try_* call
            "amount2_every": rng.choice([0, 2, 4]),   # every n-th job asks for 2 units (semaphore/resource)
            "max_readers": rng.choice([None, 1, 2]),
            "write_every": rng.choice([2, 3, 5]),
            "parties": rng.randint(2, 4),
            "barrier_reset_ms": rng.choice([0, 0, 700, 1500]),
            "barrier_abort_ms": rng.choice([0, 0, 0, 1900]),
            "notify_all": rng.random() < 0.4,
            "wait_for_timeout_ms": rng.choice([0, 20, 100]),
            "resize": rng.choice([0, 0, 1]),
            "float_cap": rng.random() < 0.3,
        }
        groups.append(g)
    return {"groups": groups, "end": rng.choice([2.0, 3.0, 4.0])}


def _make_worker_classes():
    from happysimulator.core.entity import Entity

    class Worker(Entity):
        """runs one job (a generator process) per received event; jobs overlap"""

        def __init__(self, name, g, prim, rng, extra=None):
            super().__init__(name)
            self.g = g
            self.prim = prim
            self.rng = rng
            self.extra = extra or {}
            self.jobs = 0
            self.done = 0
            self.rejected = 0
            self.errors = 0
            self.idx_sum = 0
            self.last_done_ns = 0

        def hold(self):
            lo, hi = self.g["hold_ms"]
            return self.rng.randint(lo, hi) / 1000.0

        def _finish(self):
            self.done += 1
            self.last_done_ns = self.now.nanoseconds

        def stats(self):
            return {"jobs": self.jobs, "done": self.done, "rejected": self.rejected, "errors": self.errors,
                    "idx_sum": self.idx_sum, "last_done_ns": self.last_done_ns}

        def handle_event(self, event):
            self.jobs += 1
            return getattr(self, "job_" + self.g["kind"])(self.jobs)

        # ---- mutex
        def job_mutex(self, n):
            g, m = self.g, self.prim
            if g["try_every"] and n % g["try_every"] == 0:
                if not m.try_acquire(owner=self.name):
                    self.rejected += 1
                    return
                yield self.hold()
            else:
                yield from m.acquire(owner=self.name)
                yield self.hold()
            m.release()
            self._finish()

        # ---- semaphore
        def job_semaphore(self, n):
            g, s = self.g, self.prim
            cnt = 2 if (g["amount2_every"] and n % g["amount2_every"] == 0 and s.capacity >= 2) else 1
            if g["try_every"] and n % g["try_every"] == 0:
                if not s.try_acquire(cnt):
                    self.rejected += 1
                    return
                yield self.hold()
            else:
                yield from s.acquire(cnt)
                yield self.hold()
            s.release(cnt)
            self._finish()

        # ---- rwlock
        def job_rwlock(self, n):
            g, lk = self.g, self.prim
            write = n % g["write_every"] == 0
            use_try = g["try_every"] and n % g["try_every"] == 1
            if write:
                if use_try:
                    if not lk.try_acquire_write():
                        self.rejected += 1
                        return
                else:
                    yield from lk.acquire_write()
                yield self.hold()
                lk.release_write()
            else:
                if use_try:
                    if not lk.try_acquire_read():
                        self.rejected += 1
                        return
                else:
                    yield from lk.acquire_read()
                yield self.hold()
                lk.release_read()
            self._finish()

        # ---- barrier
        def job_barrier(self, n):
            b = self.prim
            yield self.hold()
            try:
                idx = yield from b.wait()
            except RuntimeError:
                self.errors += 1  # documented: broken barrier
                return
            self.idx_sum += idx
            yield self.hold()
            self._finish()

        # ---- condition (producer / consumer on a shared list)
        def job_condition(self, n):
            g, cond = self.g, self.prim
            mutex = cond.lock
            items = self.extra["items"]
            producer = self.extra["producer"]
            yield from mutex.acquire(owner=self.name)
            if producer:
                items.append(f"{self.name}-{n}")
                yield self.hold()
                if g["notify_all"]:
                    cond.notify_all()
                else:
                    cond.notify()
                mutex.release()
                self._finish()
                return
            tmo = g["wait_for_timeout_ms"]
            if tmo:
                ok = yield from cond.wait_for(lambda: len(items) > 0, timeout=tmo / 1000.0)
                if not ok:
                    self.rejected += 1
                    mutex.release()
                    return
            else:
                while not items:
                    yield from cond.wait()
            item = items.pop(0)
            self.idx_sum += len(item)
            yield self.hold()
            mutex.release()
            self._finish()

        # ---- resource
        def job_resource(self, n):
            g, r = self.g, self.prim
            amt = 2 if (g["amount2_every"] and n % g["amount2_every"] == 0 and g["cap"] >= 2) else 1
            if g["float_cap"] and n % 3 == 1:
                amt = 0.5       # fractional amounts of a float-capacity resource
            if g["try_every"] and n % g["try_every"] == 0:
                grant = r.try_acquire(amt)
                if grant is None:
                    self.rejected += 1
                    return
            else:
                grant = yield r.acquire(amt)
            yield self.hold()
            grant.release()
            grant.release()  # idempotent by contract
            self._finish()

    return Worker


def build(cfg, seed):
    from happysimulator.components.resource import Resource
    from happysimulator.components.sync import Barrier, Condition, Mutex, RWLock, Semaphore
    from happysimulator.core.event import Event
    from happysimulator.core.simulation import Simulation
    from happysimulator.load.source import Source

    seed_all(seed)
    Worker = _make_worker_classes()
    entities, sources, obs, pre = [], [], {}, []
    end = cfg["end"]

    for gi, g in enumerate(cfg["groups"]):
        kind = g["kind"]
        tag = f"g{gi}{kind}"
        extra_common = {}
        if kind == "mutex":
            prim = Mutex(f"{tag}.mutex")
            obs[tag + ".state"] = (lambda p=prim: {"locked": p.is_locked, "waiters": p.waiters, "owner": p.owner})
        elif kind == "semaphore":
            prim = Semaphore(f"{tag}.sem", initial_count=g["cap"])
            obs[tag + ".state"] = (lambda p=prim: {"avail": p.available, "waiters": p.waiters})
        elif kind == "rwlock":
            prim = RWLock(f"{tag}.rw", max_readers=g["max_readers"])
            obs[tag + ".state"] = (lambda p=prim: {"readers": p.active_readers, "w": p.is_write_locked,
                                                  "waiters": p.waiters})
        elif kind == "barrier":
            prim = Barrier(f"{tag}.barrier", parties=g["parties"])
            obs[tag + ".state"] = (lambda p=prim: {"waiting": p.waiting, "gen": p.generation, "broken": p.broken})
            if g["barrier_reset_ms"]:
                pre.append(Event.once(time=T(g["barrier_reset_ms"] / 1000.0), event_type=f"{tag}.reset",
                                      fn=lambda e, p=prim: p.reset()))
            if g["barrier_abort_ms"] and g["barrier_abort_ms"] / 1000.0 < end:
                pre.append(Event.once(time=T(g["barrier_abort_ms"] / 1000.0), event_type=f"{tag}.abort",
                                      fn=lambda e, p=prim: p.abort()))
        elif kind == "condition":
            mutex = Mutex(f"{tag}.lock")
            prim = Condition(f"{tag}.cond", lock=mutex)
            items = []
            extra_common = {"items": items}
            entities.append(mutex)
            obs[tag + ".lock"] = stats_of(mutex)
            obs[tag + ".state"] = (lambda p=prim, it=items: {"waiters": p.waiters, "locked": p.lock.is_locked,
                                                              "lock_waiters": p.lock.waiters, "items": list(it)})
        else:
            cap = float(g["cap"]) if g["float_cap"] else g["cap"]
            prim = Resource(f"{tag}.res", capacity=cap)
            obs[tag + ".state"] = (lambda p=prim: {"avail": p.available, "waiters": p.waiters,
                                                  "util": p.utilization, "cap": p.capacity})
            if g["resize"]:
                pre.append(Event.once(time=T(0.8), event_type=f"{tag}.grow",
                                      fn=lambda e, p=prim, c=cap: p.set_capacity(c + 1)))
                pre.append(Event.once(time=T(1.4), event_type=f"{tag}.shrink",
                                      fn=lambda e, p=prim, c=cap: p.set_capacity(c)))
        entities.append(prim)
        obs[tag] = stats_of(prim)
        for wi in range(g["workers"]):
            extra = dict(extra_common)
            if kind == "condition":
                extra["producer"] = wi % 2 == 0
            w = Worker(f"{tag}.w{wi}", g, prim, random.Random(sub_seed(seed, tag, wi)), extra)
            entities.append(w)
            obs[w.name] = w.stats
            mk = Source.poisson if g["poisson"] else Source.constant
            rate = g["rate"]
            if kind == "condition" and extra["producer"]:
                rate = max(5, rate // 2)
            src = mk(rate=rate, target=w, event_type=f"Job.{kind}", name=f"{tag}.src{wi}",
                     stop_after=end - 0.6)
            sources.append(src)
            obs[src.name] = (lambda s=src: s.generated_count)

    sim = Simulation(end_time=T(end), sources=sources, entities=entities)
    for e in pre:
        sim.schedule(e)
    return sim, obs
