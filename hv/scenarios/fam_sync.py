"""Synchronisation primitives under contention: Mutex, Semaphore, RWLock, Barrier, Condition and the
shared-capacity Resource. Several worker entities (one load source each) run overlapping jobs that
acquire / hold / release, so that most acquirers really block behind a holder.

Configuration space (every constructor parameter and every public operation of the six classes):
  * a group is a BANK of variants of one primitive kind (semaphores with 1 / 2 / n permits, RWLocks with
    max_readers None / 1 / n, barriers with 1 / 2 / workers / more-than-workers parties, conditions notified with
    notify(1) / notify(n) / notify_all, integer and float resources); every variant has its own workers, all fed by the
    same sources (one arrival = one job per variant, at the same instant); single-variant groups still occur;
  * load regimes: light, busy, sustained overload (hold time far above the arrival gap for the whole run, waiter queues
    only grow), zero hold times, holds longer than the run; same-instant bursts of many acquirers at (sometimes lossy)
    absolute times;
  * hold times, wait_for timeouts, barrier reset / abort times, resource resize times, kicker periods, burst times and
    the source stop time come from the boundary palette `dur_ms` (lossy values such as 1.001 s / 2.05 s, 1-4 decimals);
  * semaphore / resource requests of 1, 2, ..., all permits (count == capacity), fractional amounts on float resources,
    blocking and non-blocking (`try_*`) calls; Mutex with and without owner; RWLock with only writers, only readers,
    mixes; barrier reset / abort / reset-after-abort, several resets; Condition.wait loop, wait_for without and with a
    timeout (shorter and longer than the hold time), notifications without new items (spurious wakeups from a kicker);
    Resource.set_capacity up, down below the held amount, and back.
None of the six classes has a hard-coded internal size constant (no history cap / maxlen / batch size): the waiter
queues are unbounded deques; overload regimes make them hundreds long.
"""
from __future__ import annotations

import random

from hv.scenarios.base import T, dur_ms, seed_all, stats_of, sub_seed

NAME = "sync"
MODEL = "C09"
COMPONENTS = ["Mutex", "Semaphore", "RWLock", "Barrier", "Condition", "Resource", "Grant", "Source",
              "SimFuture"]

KINDS = ["mutex", "semaphore", "rwlock", "barrier", "condition", "resource"]
REGIMES = ["light", "light", "busy", "overload", "overload", "zero"]
JOB_BUDGET = 3200          # arrivals * variants per scenario (keeps the mean wall time of a scenario low)


# ------------------------------------------------------------------------------------------------ cfg
def _hold_palette(rng, regime, end_ms):
    if regime == "zero":
        return rng.choice([[0], [0, dur_ms(rng, 1, 10)], [0, 0, dur_ms(rng, 1, 50)]])
    lo, hi = {"light": (1, 20), "busy": (5, 60), "overload": (20, 400)}[regime]
    pal = [dur_ms(rng, lo, hi, zero=True) for _ in range(rng.randint(1, 3))]
    if regime == "overload" and rng.random() < 0.25:
        pal.append(dur_ms(rng, 1001, max(1002, end_ms + 500)))      # a hold longer than a second / than the run
    return pal


def _variants(rng, kind, workers):
    """overrides of the group's parameters, one dict per parallel instance of the primitive"""
    if rng.random() < 0.3:
        return [{}]                                   # single-variant group
    if kind == "mutex":
        return [{"owner": True}, {"owner": False}]
    if kind == "semaphore":
        return [{"cap": c} for c in sorted(set([1, 2, rng.choice([3, 4, 5, 8])]))]
    if kind == "rwlock":
        return [{"max_readers": m} for m in (None, 1, rng.choice([2, 3, 8]))]
    if kind == "barrier":
        ps = sorted(set([1, 2, workers, workers + rng.choice([1, 2, 5])]))
        return [{"parties": p} for p in ps]
    if kind == "condition":
        return [{"notify_all": False, "notify_n": 1}, {"notify_all": False, "notify_n": rng.choice([2, 3])},
                {"notify_all": True}]
    return [{"cap": 1, "float_cap": False}, {"cap": rng.choice([2, 3, 4]), "float_cap": False},
            {"cap": rng.choice([1, 2, 3]), "float_cap": True}]


def _gen_group(rng, kind, end_ms, budget):
    regime = rng.choice(REGIMES)
    workers = rng.randint(1, 5) if kind != "condition" else rng.randint(2, 5)
    variants = _variants(rng, kind, workers)
    stop_ms = dur_ms(rng, end_ms // 2, end_ms - 100)
    rate = rng.choice([5, 10, 20, 40, 50, 100, 200])
    while rate > 5 and workers * rate * len(variants) * stop_ms / 1000.0 > budget:
        rate = {200: 100, 100: 50, 50: 40, 40: 20, 20: 10, 10: 5}[rate]
    hold = _hold_palette(rng, regime, end_ms)
    bursts = []
    for _ in range(rng.choice([0, 0, 1, 1, 2])):
        bursts.append([dur_ms(rng, 1, end_ms - 200, zero=True), rng.choice([2, 5, 12, 30, 60])])
    cap = rng.choice([1, 1, 2, 2, 3, 5])
    int_holds = [int(h) for h in hold if h >= 1] or [1]
    g = {
        "kind": kind,
        "workers": workers,
        "rate": rate,
        "poisson": rng.random() < 0.5,
        # old-shape key (integer bounds); new builds draw from "hold_pal"
        "hold_ms": [min(int_holds), max(int_holds)],
        "cap": cap,
        "try_every": rng.choice([0, 0, 1, 2, 3, 5]),     # every n-th job uses the non-blocking try_* call
        "amount2_every": rng.choice([0, 2, 4]),           # old-shape key; new builds draw from "amounts"
        "max_readers": rng.choice([None, 1, 2, 3]),
        "write_every": rng.choice([1, 2, 3, 5, 50]),      # 1 = only writers, 50 = almost only readers
        "parties": rng.choice([1, 2, 2, 3, 4, workers, workers + 1, 7]),
        "barrier_reset_ms": rng.choice([0, 0, 700, 1500]),
        "barrier_abort_ms": rng.choice([0, 0, 0, 1900]),
        "notify_all": rng.random() < 0.4,
        "wait_for_timeout_ms": rng.choice([0, dur_ms(rng, 1, 30), dur_ms(rng, 20, 400), dur_ms(rng, 1001, 2100)]),
        "resize": rng.choice([0, 0, 1]),
        "float_cap": rng.random() < 0.3,
        # ---- new keys (all read with cfg.get)
        "regime": regime,
        "hold_pal": hold,
        "variants": variants,
        "stop_ms": stop_ms,
        "bursts": bursts,
        "owner": rng.random() < 0.7,
        # requested permits / amounts (clamped to the capacity of the variant); "cap" = everything
        "amounts": rng.choice([[1], [1, 2], [1, 1, "cap"], [2, 3], ["cap"], [1, 2, 3, 5]]),
        # dyadic fractions only: with amounts such as 0.1 the float bookkeeping of Resource (`_available += amount`)
        # drifts and a correctly paired Grant.release() raises "releasing 0.1 would exceed capacity
        # (2.9000000000000004 + 0.1 > 3.0)" (library exception, /tmp/orch/found/sync-resource-float-release.py)
        "fractions": rng.choice([[0.5], [0.25, 0.5, 1.5], [0.125, 0.75]]),
        "notify_n": rng.choice([1, 1, 1, 2, 2, 3, 0]),
        "wait_for_plain": rng.random() < 0.3,            # wait_for(predicate) without timeout
        "producers": rng.randint(1, max(1, workers - 1)),
        "kick_ms": rng.choice([0, 0, dur_ms(rng, 20, 1500)]),   # notify without new items every kick_ms
        "kick_all": rng.random() < 0.5,
        "resets_ms": sorted(dur_ms(rng, 50, end_ms) for _ in range(rng.choice([0, 0, 1, 2, 4]))),
        "aborts_ms": sorted(dur_ms(rng, 50, end_ms) for _ in range(rng.choice([0, 0, 0, 1]))),
        # [time ms, new capacity as a multiple of the initial one in quarters]: grow, shrink below held, restore
        "resize_at": sorted([dur_ms(rng, 50, end_ms), rng.choice([1, 2, 3, 4, 6, 8, 12])]
                            for _ in range(rng.choice([0, 0, 1, 2, 3]))),
    }
    return g


def gen_cfg(rng):
    end = rng.choice([2.0, 3.0, 4.0])
    if rng.random() < 0.1:
        end = rng.choice([8.0, 10.0, 12.0])
    end_ms = int(end * 1000)
    k = rng.randint(1, 4)
    kinds = [rng.choice(KINDS) for _ in range(k)] if rng.random() < 0.2 else rng.sample(KINDS, k)
    groups = [_gen_group(rng, kind, end_ms, JOB_BUDGET / k) for kind in kinds]
    return {"groups": groups, "end": end}


# ------------------------------------------------------------------------------------------------ build
def _make_worker_classes():
    from happysimulator.core.entity import Entity

    class Worker(Entity):
        """runs one job (a generator process) per received event; jobs overlap"""

        def __init__(self, name, g, prim, rng, extra=None):
            super().__init__(name)
            self.g = g
            self.prim = prim
            self.rng = rng
            self.extra = extra or {}
            self.jobs = 0
            self.done = 0
            self.rejected = 0
            self.errors = 0
            self.idx_sum = 0
            self.last_done_ns = 0
            self.done_at = []          # completion instants (ns) in completion order

        def hold(self):
            pal = self.g.get("hold_pal")
            if pal:
                return self.rng.choice(pal) / 1000.0
            lo, hi = self.g["hold_ms"]
            return self.rng.randint(lo, hi) / 1000.0

        def _finish(self):
            self.done += 1
            self.last_done_ns = self.now.nanoseconds
            self.done_at.append(self.last_done_ns)

        def stats(self):
            return {"jobs": self.jobs, "done": self.done, "rejected": self.rejected, "errors": self.errors,
                    "idx_sum": self.idx_sum, "last_done_ns": self.last_done_ns,
                    "first_done": self.done_at[:8], "last_dones": self.done_at[-8:]}

        def handle_event(self, event):
            self.jobs += 1
            return getattr(self, "job_" + self.g["kind"])(self.jobs)

        def _amount(self, n, cap):
            """requested permits / units of job n (old shape: 2 every amount2_every-th job)"""
            g = self.g
            pal = g.get("amounts")
            if pal is None:
                return 2 if (g["amount2_every"] and n % g["amount2_every"] == 0 and cap >= 2) else 1
            a = pal[n % len(pal)]
            if a == "cap":
                return cap
            return a if a <= cap else cap

        # ---- mutex
        def job_mutex(self, n):
            g, m = self.g, self.prim
            owner = self.name if g.get("owner", True) else None
            if g["try_every"] and n % g["try_every"] == 0:
                if not m.try_acquire(owner=owner):
                    self.rejected += 1
                    return
                yield self.hold()
            else:
                yield from m.acquire(owner=owner)
                yield self.hold()
            m.release()
            self._finish()

        # ---- semaphore
        def job_semaphore(self, n):
            g, s = self.g, self.prim
            cnt = int(self._amount(n, s.capacity))
            if g["try_every"] and n % g["try_every"] == 0:
                if not s.try_acquire(cnt):
                    self.rejected += 1
                    return
                yield self.hold()
            else:
                yield from s.acquire(cnt)
                yield self.hold()
            s.release(cnt)
            self._finish()

        # ---- rwlock
        def job_rwlock(self, n):
            g, lk = self.g, self.prim
            write = n % g["write_every"] == 0
            use_try = g["try_every"] and n % g["try_every"] == (1 % g["try_every"])
            if write:
                if use_try:
                    if not lk.try_acquire_write():
                        self.rejected += 1
                        return
                else:
                    yield from lk.acquire_write()
                yield self.hold()
                lk.release_write()
            else:
                if use_try:
                    if not lk.try_acquire_read():
                        self.rejected += 1
                        return
                else:
                    yield from lk.acquire_read()
                yield self.hold()
                lk.release_read()
            self._finish()

        # ---- barrier
        def job_barrier(self, n):
            b = self.prim
            yield self.hold()
            try:
                idx = yield from b.wait()
            except RuntimeError:
                self.errors += 1  # documented: broken barrier
                return
            self.idx_sum += idx
            yield self.hold()
            self._finish()

        # ---- condition (producer / consumer on a shared list)
        def job_condition(self, n):
            g, cond = self.g, self.prim
            mutex = cond.lock
            items = self.extra["items"]
            producer = self.extra["producer"]
            yield from mutex.acquire(owner=self.name)
            if producer:
                items.append(f"{self.name}-{n}")
                yield self.hold()
                if g["notify_all"]:
                    cond.notify_all()
                else:
                    cond.notify(g.get("notify_n", 1))
                mutex.release()
                self._finish()
                return
            tmo = g["wait_for_timeout_ms"]
            if g.get("wait_for_plain"):
                yield from cond.wait_for(lambda: len(items) > 0)
            elif tmo:
                ok = yield from cond.wait_for(lambda: len(items) > 0, timeout=tmo / 1000.0)
                if not ok:
                    self.rejected += 1
                    mutex.release()
                    return
            else:
                while not items:
                    yield from cond.wait()
            item = items.pop(0)
            self.idx_sum += len(item)
            yield self.hold()
            mutex.release()
            self._finish()

        # ---- resource
        def job_resource(self, n):
            g, r = self.g, self.prim
            cap0 = self.extra.get("cap0", g["cap"])
            amt = self._amount(n, cap0)
            if g["float_cap"] and n % 3 == 1:
                fr = g.get("fractions", [0.5])
                amt = min(fr[n % len(fr)], cap0)       # fractional amounts of a float-capacity resource
            if amt > r.capacity:                         # the capacity was reduced meanwhile (set_capacity)
                amt = r.capacity
            if g["try_every"] and n % g["try_every"] == 0:
                grant = r.try_acquire(amt)
                if grant is None:
                    self.rejected += 1
                    return
            else:
                grant = yield r.acquire(amt)
            yield self.hold()
            self.idx_sum += int(grant.amount * 100)
            grant.release()
            grant.release()  # idempotent by contract
            if not grant.released:
                self.errors += 1
            self._finish()

    return Worker


def build(cfg, seed):
    from happysimulator.components.resource import Resource
    from happysimulator.components.sync import Barrier, Condition, Mutex, RWLock, Semaphore
    from happysimulator.core.entity import Entity
    from happysimulator.core.event import Event
    from happysimulator.core.simulation import Simulation
    from happysimulator.load.event_provider import EventProvider
    from happysimulator.load.source import Source

    seed_all(seed)
    Worker = _make_worker_classes()
    entities, sources, obs, pre = [], [], {}, []
    end = cfg["end"]

    class Jobs(EventProvider):
        """one arrival = one job for the same-numbered worker of every variant of the group"""

        def __init__(self, targets, event_type, stop):
            self.targets, self.event_type, self.stop = targets, event_type, stop
            self.generated = 0

        def get_events(self, time):
            if time > self.stop:
                return []
            self.generated += 1
            return [Event(time=time, event_type=self.event_type, target=w,
                          context={"created_at": time, "request_id": self.generated}) for w in self.targets]

    class Kicker(Entity):
        """notifies a condition without holding its lock and without new items (spurious wakeups)"""

        def __init__(self, name, conds, use_all, n):
            super().__init__(name)
            self.conds, self.use_all, self.n = conds, use_all, n
            self.kicks = 0

        def handle_event(self, event):
            self.kicks += 1
            for c in self.conds:
                if self.use_all:
                    c.notify_all()
                else:
                    c.notify(self.n)
            return None

    for gi, g0 in enumerate(cfg["groups"]):
        kind = g0["kind"]
        gtag = f"g{gi}{kind}"
        variants = g0.get("variants") or [{}]
        per_worker = [[] for _ in range(g0["workers"])]      # worker index -> the workers of all variants
        conds = []
        for vi, ov in enumerate(variants):
            g = dict(g0)
            g.update(ov)
            tag = gtag if len(variants) == 1 and "variants" not in g0 else f"{gtag}v{vi}"
            extra_common = {}
            if kind == "mutex":
                prim = Mutex(f"{tag}.mutex")
                obs[tag + ".state"] = (lambda p=prim: {"locked": p.is_locked, "waiters": p.waiters,
                                                      "owner": p.owner})
            elif kind == "semaphore":
                prim = Semaphore(f"{tag}.sem", initial_count=g["cap"])
                obs[tag + ".state"] = (lambda p=prim: {"avail": p.available, "waiters": p.waiters,
                                                      "capacity": p.capacity})
            elif kind == "rwlock":
                prim = RWLock(f"{tag}.rw", max_readers=g["max_readers"])
                obs[tag + ".state"] = (lambda p=prim: {"readers": p.active_readers, "w": p.is_write_locked,
                                                      "waiters": p.waiters, "max_readers": p.max_readers})
            elif kind == "barrier":
                prim = Barrier(f"{tag}.barrier", parties=g["parties"])
                obs[tag + ".state"] = (lambda p=prim: {"waiting": p.waiting, "gen": p.generation,
                                                      "broken": p.broken, "parties": p.parties})
                if g["barrier_reset_ms"]:
                    pre.append(Event.once(time=T(g["barrier_reset_ms"] / 1000.0), event_type=f"{tag}.reset",
                                          fn=lambda e, p=prim: p.reset()))
                if g["barrier_abort_ms"] and g["barrier_abort_ms"] / 1000.0 < end:
                    pre.append(Event.once(time=T(g["barrier_abort_ms"] / 1000.0), event_type=f"{tag}.abort",
                                          fn=lambda e, p=prim: p.abort()))
                for t_ms in g.get("resets_ms", []):
                    if t_ms / 1000.0 < end:
                        pre.append(Event.once(time=T(t_ms / 1000.0), event_type=f"{tag}.reset",
                                              fn=lambda e, p=prim: p.reset()))
                for t_ms in g.get("aborts_ms", []):
                    if t_ms / 1000.0 < end:
                        pre.append(Event.once(time=T(t_ms / 1000.0), event_type=f"{tag}.abort",
                                              fn=lambda e, p=prim: p.abort()))
            elif kind == "condition":
                mutex = Mutex(f"{tag}.lock")
                prim = Condition(f"{tag}.cond", lock=mutex)
                conds.append(prim)
                items = []
                extra_common = {"items": items}
                entities.append(mutex)
                obs[tag + ".lock"] = stats_of(mutex)
                obs[tag + ".state"] = (lambda p=prim, it=items: {"waiters": p.waiters, "locked": p.lock.is_locked,
                                                                  "lock_waiters": p.lock.waiters,
                                                                  "lock_owner": p.lock.owner,
                                                                  "lock_name": p.lock.name, "items": list(it)})
            else:
                cap = float(g["cap"]) if g["float_cap"] else g["cap"]
                prim = Resource(f"{tag}.res", capacity=cap)
                extra_common = {"cap0": cap}
                obs[tag + ".state"] = (lambda p=prim: {"avail": p.available, "waiters": p.waiters,
                                                      "util": p.utilization, "cap": p.capacity})
                if g["resize"]:
                    pre.append(Event.once(time=T(0.8), event_type=f"{tag}.grow",
                                          fn=lambda e, p=prim, c=cap: p.set_capacity(c + 1)))
                    pre.append(Event.once(time=T(1.4), event_type=f"{tag}.shrink",
                                          fn=lambda e, p=prim, c=cap: p.set_capacity(c)))
                for t_ms, quarters in g.get("resize_at", []):
                    if t_ms / 1000.0 < end:
                        new_cap = cap * quarters / 4.0 if g["float_cap"] else max(1, (cap * quarters) // 4)
                        pre.append(Event.once(time=T(t_ms / 1000.0), event_type=f"{tag}.resize",
                                              fn=lambda e, p=prim, c=new_cap: p.set_capacity(c)))
            entities.append(prim)
            obs[tag] = stats_of(prim)
            n_prod = g.get("producers")
            for wi in range(g["workers"]):
                extra = dict(extra_common)
                if kind == "condition":
                    extra["producer"] = (wi % 2 == 0) if n_prod is None else wi < n_prod
                w = Worker(f"{tag}.w{wi}", g, prim, random.Random(sub_seed(seed, tag, wi)), extra)
                entities.append(w)
                obs[w.name] = w.stats
                per_worker[wi].append(w)

        stop_s = g0["stop_ms"] / 1000.0 if "stop_ms" in g0 else end - 0.6
        n_prod0 = g0.get("producers")
        for wi in range(g0["workers"]):
            mk = Source.poisson if g0["poisson"] else Source.constant
            rate = g0["rate"]
            is_prod = (wi % 2 == 0) if n_prod0 is None else wi < n_prod0
            if kind == "condition" and is_prod:
                rate = max(5, rate // 2)
            prov = Jobs(per_worker[wi], f"Job.{kind}", T(stop_s))
            src = mk(rate=rate, name=f"{gtag}.src{wi}", event_provider=prov)
            sources.append(src)
            obs[src.name] = (lambda s=src, p=prov: [s.generated_count, p.generated])

        # same-instant bursts: n jobs at one (sometimes lossy) instant, round-robin over the workers of all variants
        flat = [w for ws in per_worker for w in ws]
        for bi, (t_ms, n) in enumerate(g0.get("bursts", [])):
            if t_ms / 1000.0 >= end:
                continue
            for b in range(n):
                pre.append(Event(time=T(t_ms / 1000.0), event_type=f"Job.{kind}", target=flat[b % len(flat)],
                                 context={"burst": bi, "request_id": b}))
        kick = g0.get("kick_ms", 0)
        if kind == "condition" and kick:
            kicker = Kicker(f"{gtag}.kicker", conds, g0.get("kick_all", True), max(1, g0.get("notify_n", 1)))
            entities.append(kicker)
            obs[kicker.name] = (lambda k=kicker: k.kicks)
            i = 1
            while i * kick / 1000.0 < end and i <= 400:
                pre.append(Event(time=T(i * kick / 1000.0), event_type="Kick", target=kicker, context={}))
                i += 1

    sim = Simulation(end_time=T(end), sources=sources, entities=entities)
    for e in pre:
        sim.schedule(e)
    return sim, obs
