"""Shared scenario library for the cross-cutting properties C07 and C03.

One small *generated* scenario family per component directory of
`/repo/happysimulator/components/` (plus the stock load sources / distributions).

A family is a module `hv/scenarios/fam_<name>.py` with

    NAME        : str                       family name (used in signatures)
    COMPONENTS  : list[str]                 library classes the scenario instantiates
    MODEL       : str | None                property id in /verif that has a Lean model of this family
    gen_cfg(rng: random.Random) -> dict     JSON-able configuration drawn only from `rng`
    gen_cfg_wide(rng) -> dict               (optional) the family's maximum-coverage configuration: every policy /
                                            strategy variant at once, sizes above the library's internal constants,
                                            sustained overload, durations on the lossy seconds->ns boundary
    build(cfg: dict, seed: int) -> (Simulation, observers)

`observers` is a dict `label -> zero-argument callable` returning JSON-like statistics
(ints, floats, strs, lists, dicts, None) read from the components' public counters after the run.

Rules for a family (checked by `python -m hv.scenarios.selftest`):
  * every library RNG is seeded from `seed` inside `build` (`seed_all(seed)` first, per-object
    `seed=` arguments derived with `sub_seed(seed, k)`); no other entropy;
  * non-zero latencies, contention, capacity 1–2, several clients;
  * `Simulation(end_time=...)` a few simulated seconds; the run must terminate
    (the monitor additionally aborts at a delivery cap);
  * harness entities defined in the family module have stable names.
"""
from __future__ import annotations

import importlib
import pkgutil

_CACHE = None
IMPORT_ERRORS: dict[str, str] = {}


def families() -> dict:
    """name -> family module (modules that fail to import are recorded in IMPORT_ERRORS)"""
    global _CACHE
    if _CACHE is not None:
        return _CACHE
    out = {}
    import hv.scenarios as pkg

    for m in sorted(pkgutil.iter_modules(pkg.__path__), key=lambda m: m.name):
        if not m.name.startswith("fam_"):
            continue
        try:
            mod = importlib.import_module(f"hv.scenarios.{m.name}")
            out[mod.NAME] = mod
        except Exception as e:  # a family that cannot be imported is reported, never silently dropped
            IMPORT_ERRORS[m.name] = f"{type(e).__name__}: {e}"
    _CACHE = out
    return out


def family(name: str):
    return families()[name]


def draw_cfg(fam, rng, wide_p: float = 0.4):
    """one configuration of a family: with probability `wide_p` its maximum-coverage one (if it defines one)"""
    wide = getattr(fam, "gen_cfg_wide", None)
    if wide is not None and rng.random() < wide_p:
        return wide(rng)
    return fam.gen_cfg(rng)
