"""Load generation, distributions and instrumentation.

Several Sources (Source.constant / Source.poisson / Source.with_profile with ConstantRateProfile,
LinearRampProfile (up, down), SpikeProfile and a user-defined step Profile with zero-rate periods
(the last two rarely: the library's arrival-time integration is slow at jump discontinuities); deterministic or Poisson spacing; stop_after as float or Instant) with the stock
SimpleEventProvider (incl. context_fn), a user-defined burst EventProvider and DistributedFieldProvider
(ZipfDistribution / UniformDistribution over *string* values) feed Counter / Sink / LatencyTracker /
ThroughputTracker and a Server whose service time is a ConstantLatency / ExponentialLatency /
PercentileFittedLatency / user LatencyDistribution built on a value distribution.  Probes (Probe.on,
Probe.on_many, explicit Probe with start_time) sample the server and the collectors as `probes=`.

Widened configuration space (all new cfg keys are optional, old cfgs keep their meaning):
  * `bank`: the "server" target is a fan-out entity that clones every arrival to a bank of Servers, one per
    service-time distribution of SERVICE (+ a zero-latency one, + every PercentileFittedLatency parameter on its
    own), with per-server concurrency / queue capacity (0, 1, small, unbounded): all variants in one run;
  * load regimes: light, sustained overload (rate * service time / concurrency well above 1 for the whole run,
    bounded and unbounded queues), bursts of up to 40 same-instant events per tick, fractional rates;
  * every stop_after / probe interval / probe start / service time / profile duration / step boundary is drawn
    from the boundary palette `dur_ms` (values that lose a nanosecond in Instant.from_seconds, absolute times
    above 1 s, 1-4 decimals);
  * ramp slopes stay moderate and jump profiles rare (the library's arrival-time integration needs minutes for a
    steep LinearRampProfile: nanosecond staircase of Instant.from_seconds against adaptive Simpson).
"""
from __future__ import annotations

from hv.scenarios.base import T, dur_ms, seed_all, stats_of, sub_seed

NAME = "load"
MODEL = None
COMPONENTS = ["Source", "SimpleEventProvider", "DistributedFieldProvider", "ConstantArrivalTimeProvider",
              "PoissonArrivalTimeProvider", "ConstantRateProfile", "LinearRampProfile", "SpikeProfile", "Profile",
              "EventProvider", "ConstantLatency", "ExponentialLatency", "PercentileFittedLatency",
              "UniformDistribution", "ZipfDistribution", "LatencyDistribution", "ValueDistribution", "Probe",
              "Data", "BucketedData", "LatencyTracker", "ThroughputTracker", "Server", "Sink", "Counter"]

SRC_KINDS = ["constant", "poisson", "prof-const", "ramp-up", "ramp-down", "explicit"]
SLOW_KINDS = ["spike", "step"]   # jump discontinuities: ~0.3-0.5 s wall per crossing inside the library's integrator
PROVIDERS = ["simple", "context_fn", "burst", "dfp"]
SERVICE = ["const", "exp", "pfit", "pfit2", "value-uniform", "value-zipf", "shifted"]
BANK_EXTRA = ["zero", "pfit-p50", "pfit-p90", "pfit-p99", "pfit-p999", "pfit-p9999", "pfit-all", "minus"]
REGIMES = ["light", "light", "overload", "overload", "burst"]


def _r3(x):
    x = round(float(x), 3)
    return int(x) if x.is_integer() else x


def _source_cfg(rng, end, slow, regime="light"):
    """One source.  Ramp parameters are kept where the library's arrival-time integration is fast
    (|slope| * lookahead small, see the family report: steeper ramps / ramps to zero make
    ArrivalTimeProvider.next_arrival_time take minutes); they can still be set by hand in a cfg."""
    kind = rng.choice(SLOW_KINDS) if slow else rng.choice(SRC_KINDS)
    poisson = rng.random() < 0.5
    ramp_ms = _r3(dur_ms(rng, int(end * 1000) + 3000, int(end * 1000) + 6000))
    if poisson:
        r0 = 200
        r1 = rng.choice([230, 260]) if kind == "ramp-up" else rng.choice([140, 170])
    else:
        r0 = rng.choice([60, 100, 150])
        r1 = r0 * rng.choice([2, 3]) if kind == "ramp-up" else r0 // rng.choice([2, 3])
    n_steps = rng.choice([2, 2, 2, 3])
    step_t = sorted({0, _r3(dur_ms(rng, 100, int(end * 1000) - 400))} if n_steps == 2 else
                    {0, _r3(dur_ms(rng, 100, int(end * 500))), _r3(dur_ms(rng, int(end * 500), int(end * 1000) - 400))})
    return {
        "kind": kind,
        "provider": rng.choice(PROVIDERS),
        "poisson": poisson,
        "rate": (rng.choice([5, 10, 25, 50, 100, 200, 0.5, 7.3, 33.3, 0]) if regime != "overload"
                 else rng.choice([200, 400, 800])),
        "r0": r0, "r1": r1, "dur_ms": ramp_ms,
        "base": rng.choice([10, 20, 40]), "spike": rng.choice([100, 150, 300]),
        "warm_ms": _r3(dur_ms(rng, 100, int(end * 500))),
        # every jump of the profile inside the run costs ~0.5-2 s wall in the library's integrator: mostly the spike
        # is still on at end_time (one jump), sometimes it ends inside the run (two jumps)
        "spike_ms": _r3(dur_ms(rng, 50, 600)) if rng.random() < 0.25 else int(end * 1000) + 500,
        "steps": [[t, rng.choice([0, 20, 60, 120]) if i else rng.choice([20, 60, 120])]
                  for i, t in enumerate(step_t)],
        "stop": rng.choice(["float", "instant", "none"]),
        # absolute stop time from the boundary palette (before, at and after end_time)
        "stop_ms": _r3(dur_ms(rng, 200, int(end * 1000) + 300)),
        "start_ms": _r3(dur_ms(rng, 0, 1500, zero=True)),   # explicit ArrivalTimeProvider(start_time=...)
        "target": rng.choice(["server", "server", "counter", "sink", "lat", "tput", "keys"]),
        "burst": rng.randint(1, 3) if regime != "burst" else rng.choice([8, 20, 40]),
        "zipf_s": rng.choice([0.0, 0.8, 1.0, 1.5, 2.5, 4.0]),
        "n_keys": rng.choice([1, 3, 10, 50, 300]),
    }


def gen_cfg(rng):
    end = rng.choice([2.0, 3.0, 4.0]) if rng.random() > 0.1 else rng.choice([8.0, 10.0])
    regime = rng.choice(REGIMES)
    bank = rng.random() < 0.5
    n_src = rng.randint(2, 4)
    sources = [_source_cfg(rng, end, slow=(i == 0 and end < 6 and rng.random() < 0.08), regime=regime) for i in range(n_src)]
    sources[-1]["target"] = "server"  # the server (and its service-time distribution) is always loaded
    if sources[-1]["rate"] == 0:
        sources[-1]["rate"] = 25
    if regime == "overload":
        # only the stream into the server is heavy; the others stay light
        for sc in sources[:-1]:
            sc["rate"] = rng.choice([5, 10, 25, 50, 100])
        if sources[-1]["kind"] in ("ramp-up", "ramp-down") + tuple(SLOW_KINDS):
            sources[-1]["kind"] = rng.choice(["constant", "poisson", "explicit", "prof-const"])
    # wall-time budget: expected deliveries per run stay bounded (a request into a Server costs ~6 deliveries, a
    # clone into every server of the bank 15 x that)
    bank_mode = "all" if bank and regime != "overload" and rng.random() < 0.35 else "rr"
    for sc in sources:
        per = 3.0
        if sc["target"] == "server":
            per = 6.0 * (1 if not bank else (2 if bank_mode == "rr" else 16))
        k = sc["kind"]
        eff = {"ramp-up": max(sc["r0"], sc["r1"]), "ramp-down": max(sc["r0"], sc["r1"]),
               "spike": max(sc["base"], sc["spike"]), "step": max(r for _, r in sc["steps"])}.get(k, sc["rate"])
        cost = eff * sc["burst"] * end * per
        limit = 20000 if sc["target"] == "server" else 8000
        if cost > limit:
            f = limit / cost
            sc["rate"] = max(1, int(sc["rate"] * f)) if sc["rate"] >= 2 else sc["rate"]
            sc["r0"], sc["r1"] = max(2, int(sc["r0"] * f)), max(1, int(sc["r1"] * f))
            sc["base"], sc["spike"] = max(1, int(sc["base"] * f)), max(2, int(sc["spike"] * f))
            sc["steps"] = [[t, int(r * f)] for t, r in sc["steps"]]
    if regime == "overload":
        svc = dur_ms(rng, 20, 120)
    else:
        svc = dur_ms(rng, 0.2, 40, zero=True)
    return {
        "end": end,
        "regime": regime,
        "sources": sources,
        "service": rng.choice(SERVICE),
        "svc_ms": svc,
        "conc": rng.randint(1, 2) if regime != "overload" else 1,
        "qcap": rng.choice([None, None, 0, 1, 5, 20]),
        "bank": bank,
        "bank_mode": bank_mode,
        "bank_conc": [rng.randint(1, 3) for _ in range(4)],
        "bank_qcap": [rng.choice([None, 0, 1, 5, 50]) for _ in range(5)],
        "probe_ms": _r3(dur_ms(rng, 5 if end < 6 else 20, 1500)),
        "probe_start_ms": _r3(dur_ms(rng, 0, 2500, zero=True)),
        "probes": rng.randint(0, 3),
    }


def build(cfg, seed):
    from happysimulator.components.common import Counter, Sink
    from happysimulator.components.server import Server
    from happysimulator.core.entity import Entity
    from happysimulator.core.event import Event
    from happysimulator.core.simulation import Simulation
    from happysimulator.core.temporal import Duration, Instant
    from happysimulator.distributions import (
        ConstantLatency, ExponentialLatency, LatencyDistribution, PercentileFittedLatency, UniformDistribution,
        ZipfDistribution,
    )
    from happysimulator.instrumentation.collectors import LatencyTracker, ThroughputTracker
    from happysimulator.instrumentation.data import Data
    from happysimulator.instrumentation.probe import Probe
    from happysimulator.load.event_provider import EventProvider
    from happysimulator.load.profile import ConstantRateProfile, LinearRampProfile, Profile, SpikeProfile
    from happysimulator.load.providers.constant_arrival import ConstantArrivalTimeProvider
    from happysimulator.load.providers.distributed_field import DistributedFieldProvider
    from happysimulator.load.providers.poisson_arrival import PoissonArrivalTimeProvider
    from happysimulator.load.source import SimpleEventProvider, Source

    seed_all(seed)
    end = cfg["end"]
    stop_s = end - 0.4

    class StepProfile(Profile):
        """piecewise-constant rate: steps = [(start_s, rate)], rate 0 before the first step"""

        def __init__(self, steps):
            self.steps = sorted((a / 1000.0, float(r)) for a, r in steps)

        def get_rate(self, time):
            t = time.to_seconds()
            rate = 0.0
            for a, r in self.steps:
                if t >= a:
                    rate = r
            return rate

    class ValueLatency(LatencyDistribution):
        """latency sampled from a discrete value distribution of millisecond values"""

        def __init__(self, dist, mean):
            super().__init__(mean)
            self.dist = dist

        def get_latency(self, current_time):
            return Duration.from_seconds(self.dist.sample() / 1000.0)

    class BurstProvider(EventProvider):
        """1–3 events per tick to the same target with string keys drawn from a seeded Zipf"""

        def __init__(self, target, n, keys, stop):
            self.target, self.n, self.keys, self.stop = target, n, keys, stop
            self.generated = 0

        def get_events(self, time):
            if self.stop is not None and time > self.stop:
                return []
            out = []
            for j in range(self.n):
                self.generated += 1
                out.append(Event(time=time, event_type=f"Burst{j}", target=self.target,
                                 context={"created_at": time, "customer_id": self.keys.sample(),
                                          "request_id": self.generated}))
            return out

    class KeyCounter(Entity):
        """counts the sampled context fields (string keys)"""

        def __init__(self, name, downstream=None):
            super().__init__(name)
            self.by_key = {}
            self.by_region = {}
            self.n = 0
            self.downstream = downstream

        def handle_event(self, event):
            self.n += 1
            k = str(event.context.get("customer_id"))
            self.by_key[k] = self.by_key.get(k, 0) + 1
            r = str(event.context.get("region"))
            self.by_region[r] = self.by_region.get(r, 0) + 1
            if self.downstream is not None:
                return [self.forward(event, self.downstream)]
            return None

    # ---- service-time distribution
    m = cfg["svc_ms"] / 1000.0
    mp = m if m > 0 else 0.001      # the exponential family needs a positive mean

    def make_service(kind, tag):
        if kind == "const":
            return ConstantLatency(m)
        if kind == "zero":
            return ConstantLatency(0.0)
        if kind == "exp":
            return ExponentialLatency(mp)
        if kind == "pfit":
            return PercentileFittedLatency(p50=mp, p99=mp * 6)
        if kind == "pfit2":
            return PercentileFittedLatency(p90=mp * 2, p999=mp * 8, p9999=mp * 12)
        if kind == "pfit-p50":
            return PercentileFittedLatency(p50=mp)
        if kind == "pfit-p90":
            return PercentileFittedLatency(p90=mp * 2)
        if kind == "pfit-p99":
            return PercentileFittedLatency(p99=mp * 4)
        if kind == "pfit-p999":
            return PercentileFittedLatency(p999=mp * 7)
        if kind == "pfit-p9999":
            return PercentileFittedLatency(p9999=mp * 9)
        if kind == "pfit-all":
            return PercentileFittedLatency(p50=mp, p90=mp * 2, p99=mp * 5, p999=mp * 7, p9999=mp * 9)
        if kind == "value-uniform":
            return ValueLatency(UniformDistribution([1, 2, 5, cfg["svc_ms"], 2 * cfg["svc_ms"]],
                                                    seed=sub_seed(seed, *tag, "svc-u")), m)
        if kind == "value-zipf":
            return ValueLatency(ZipfDistribution([cfg["svc_ms"], 1, 3, 50, 120], s=1.2,
                                                 seed=sub_seed(seed, *tag, "svc-z")), m)
        if kind == "minus":
            return ExponentialLatency(mp + 0.001) - 0.001     # __sub__: copy with a smaller mean
        return ExponentialLatency(Duration.from_seconds(mp)) + 0.002  # __add__: shifted copy

    svc = make_service(cfg["service"], ())

    lat = LatencyTracker("lat")
    tput = ThroughputTracker("tput")
    counter = Counter("counter")
    sink = Sink("sink")
    keys_after = KeyCounter("keys-after", downstream=lat)
    server = Server("srv", concurrency=cfg["conc"], service_time=svc, queue_capacity=cfg["qcap"],
                    downstream=keys_after)
    keys = KeyCounter("keys", downstream=tput)

    class FanOut(Entity):
        """forwards every arrival to the main server and clones it (same instant) to the servers of the bank:
        to all of them (`bank_mode` "all") or to one of them in turn ("rr")"""

        def __init__(self, name, main, others, mode):
            super().__init__(name)
            self.main, self.others, self.mode = main, others, mode
            self.n = 0

        def handle_event(self, event):
            self.n += 1
            tg = [self.main]
            if self.others:
                tg += self.others if self.mode == "all" else [self.others[self.n % len(self.others)]]
            return [Event(time=self.now, event_type=event.event_type, target=sv, context=dict(event.context))
                    for sv in tg]

    bank = []
    if cfg.get("bank", False):
        bc, bq = cfg["bank_conc"], cfg["bank_qcap"]
        for j, kind in enumerate(SERVICE + BANK_EXTRA):
            bank.append(Server(f"srv-{kind}", concurrency=bc[j % len(bc)], service_time=make_service(kind, ("bank", j)),
                               queue_capacity=bq[j % len(bq)], downstream=keys_after))
    fan = FanOut("fan", server, bank, cfg.get("bank_mode", "rr"))
    targets = {"server": fan if bank else server, "counter": counter, "sink": sink, "lat": lat, "tput": tput,
               "keys": keys}

    sources, providers, dists = [], [], []

    def reg(d):
        dists.append(d)
        return d
    for i, sc in enumerate(cfg["sources"]):
        target = targets[sc["target"]]
        if "stop_ms" in sc and sc["stop"] != "none":
            st = sc["stop_ms"] / 1000.0
            stop_inst = Instant.from_seconds(st)
            stop_arg = st if sc["stop"] == "float" else stop_inst
        elif sc["stop"] == "float":
            stop_arg, stop_inst = stop_s, Instant.from_seconds(stop_s)
        elif sc["stop"] == "instant":
            stop_arg = stop_inst = Instant.from_seconds(stop_s - 0.1)
        else:
            stop_arg = stop_inst = None
        names = [f"user-{j}" for j in range(sc["n_keys"])]
        prov = None
        if sc["provider"] == "context_fn":
            ud = reg(UniformDistribution(names, seed=sub_seed(seed, "ctx", i)))
            prov = SimpleEventProvider(
                target, f"Ctx{i}", stop_inst,
                context_fn=lambda time, count, ud=ud: {"created_at": time, "request_id": count,
                                                      "customer_id": ud.sample(), "region": "static"})
        elif sc["provider"] == "burst":
            prov = BurstProvider(target, sc["burst"], reg(ZipfDistribution(names, s=sc["zipf_s"],
                                                                            seed=sub_seed(seed, "burst", i))), stop_inst)
        elif sc["provider"] == "dfp":
            prov = DistributedFieldProvider(
                target=target, event_type=f"Dfp{i}",
                field_distributions={
                    "customer_id": reg(ZipfDistribution(names, s=sc["zipf_s"], seed=sub_seed(seed, "dfp-c", i))),
                    "region": UniformDistribution(["us-east", "us-west", "eu", "ap-south"],
                                                  seed=sub_seed(seed, "dfp-r", i)),
                    "size": ZipfDistribution(range(1, 20), s=1.0, seed=sub_seed(seed, "dfp-s", i)),
                },
                static_fields={"api_version": "v2"} if i % 2 == 0 or "stop_ms" not in sc else None,
                stop_after=stop_inst)
        providers.append(prov)
        common = {"name": f"src{i}"}
        if prov is not None:
            common["event_provider"] = prov
        else:
            common.update(target=target, event_type=f"Req{i}", stop_after=stop_arg)
        k = sc["kind"]
        rate = sc["rate"]
        if k == "constant":
            src = Source.constant(rate=rate, **common)
        elif k == "poisson":
            src = Source.poisson(rate=rate, **common)
        elif k == "explicit":
            if prov is None:
                prov = SimpleEventProvider(target, f"Req{i}", stop_inst)
                providers[-1] = prov
            atp_cls = PoissonArrivalTimeProvider if sc["poisson"] else ConstantArrivalTimeProvider
            src = Source(name=f"src{i}", event_provider=prov,
                         arrival_time_provider=atp_cls(ConstantRateProfile(rate=rate),
                                                       start_time=Instant.from_seconds(sc.get("start_ms", 0) / 1000.0)))
        else:
            if k == "prof-const":
                profile = ConstantRateProfile(rate=rate)
            elif k in ("ramp-up", "ramp-down"):
                profile = LinearRampProfile(duration_s=sc["dur_ms"] / 1000.0, start_rate=float(sc["r0"]),
                                            end_rate=float(sc["r1"]))
            elif k == "spike":
                profile = SpikeProfile(baseline_rate=float(sc["base"]), spike_rate=float(sc["spike"]),
                                       warmup_s=sc["warm_ms"] / 1000.0, spike_duration_s=sc["spike_ms"] / 1000.0)
            else:
                profile = StepProfile(sc["steps"])
            src = Source.with_profile(profile=profile, poisson=sc["poisson"], **common)
        sources.append(src)

    # ---- probes
    probes, pdata = [], {}
    if cfg["probes"] >= 1:
        p, d = Probe.on(server, "depth", interval=cfg["probe_ms"] / 1000.0)
        probes.append(p)
        pdata["srv.depth"] = d
    if cfg["probes"] >= 2:
        ps, dd = Probe.on_many(lat, ["count", "mean_latency"], interval=cfg["probe_ms"] / 500.0)
        probes.extend(ps)
        for kk in dd:
            pdata["lat." + kk] = dd[kk]
    if cfg["probes"] >= 3:
        d = Data()
        probes.append(Probe(target=counter, metric="total", data=d, interval=cfg["probe_ms"] / 1000.0,
                            start_time=Instant.from_seconds(cfg["probe_start_ms"] / 1000.0)))
        pdata["counter.total"] = d
        p, d2 = Probe.on(keys, "no_such_metric", interval=0.5)
        probes.append(p)
        pdata["keys.missing"] = d2

    sim = Simulation(end_time=T(end), sources=sources, entities=[lat, tput, counter, sink, keys, keys_after, server, fan, *bank],
                     probes=probes)

    def data_obs(d):
        def read():
            vals = d.values
            b = d.bucket(0.5)
            return {"n": len(d), "count": d.count(), "mean": d.mean(), "min": d.min(), "max": d.max(), "sum": d.sum(),
                    "std": d.std(), "p50": d.percentile(0.5), "p99": d.percentile(0.99),
                    "first": [list(v) for v in vals[:4]], "last": [list(v) for v in vals[-3:]],
                    "bucket": b.to_dict(), "rate": [list(v) for v in d.rate(1.0).values],
                    "between": d.between(0.5, 1.5).count()}
        return read

    def dist_view(d):
        out = {"type": type(d).__name__, "size": d.size, "pop": list(d.population)[:3], "next": d.sample_n(4)}
        if isinstance(d, ZipfDistribution):
            out.update(s=d.s, p1=d.probability(1), top=d.top_n_probability(min(3, d.size)),
                       pv=d.probability_for_value(d.population[-1]), ef=d.expected_frequency(1, 1000))
        else:
            out.update(p=d.probability())
        return out

    obs = {
        "server": stats_of(server),
        "server.q": lambda: {"acc": server.stats_accepted, "drop": server.stats_dropped, "depth": server.depth},
        "counter": lambda: {"total": counter.total, "by_type": counter.by_type},
        "sink": lambda: {"n": sink.events_received, "lat": sink.latency_stats()},
        "lat": lambda: {"count": lat.count, "p50": lat.p50(), "p99": lat.p99(), "mean": lat.mean_latency(),
                        "summary": lat.summary(0.5).to_dict()},
        "lat.data": data_obs(lat.data),
        "tput": lambda: {"count": tput.count, "tp": tput.throughput(0.5).to_dict()},
        "keys": lambda: {"n": keys.n, "by_key": sorted(keys.by_key.items()),
                         "by_region": sorted(keys.by_region.items())},
        "keys-after": lambda: {"n": keys_after.n, "by_key": sorted(keys_after.by_key.items()),
                               "by_region": sorted(keys_after.by_region.items())},
        "sources": lambda: [[s.name, s.generated_count] for s in sources],
        "providers": lambda: [getattr(p, "generated", getattr(p, "_generated", None)) for p in providers],
        "server.more": lambda: {"util": server.utilization, "active": server.active_requests,
                                "avg_svc": server.average_service_time, "avail": server.available_capacity,
                                "p50": server.get_service_time_percentile(0.5),
                                "p99": server.get_service_time_percentile(0.99)},
        "fan": lambda: fan.n,
        "dists": lambda: [dist_view(d) for d in dists],
        "lat.series": lambda: {"times": lat.data.times()[:5], "raw": lat.data.raw_values()[-5:]},
    }
    for sv in bank:
        obs["bank." + sv.name] = (lambda sv=sv: {"stats": stats_of(sv)(), "acc": sv.stats_accepted,
                                                 "drop": sv.stats_dropped, "depth": sv.depth,
                                                 "util": sv.utilization, "avg_svc": sv.average_service_time})
    for kk in sorted(pdata):
        obs["probe." + kk] = data_obs(pdata[kk])
    return sim, obs
