"""Load generation, distributions and instrumentation.

Several Sources (Source.constant / Source.poisson / Source.with_profile with ConstantRateProfile,
LinearRampProfile (up, down), SpikeProfile and a user-defined step Profile with zero-rate periods
(the last two rarely: the library's arrival-time integration is slow at jump discontinuities); deterministic or Poisson spacing; stop_after as float or Instant) with the stock
SimpleEventProvider (incl. context_fn), a user-defined burst EventProvider and DistributedFieldProvider
(ZipfDistribution / UniformDistribution over *string* values) feed Counter / Sink / LatencyTracker /
ThroughputTracker and a Server whose service time is a ConstantLatency / ExponentialLatency /
PercentileFittedLatency / user LatencyDistribution built on a value distribution.  Probes (Probe.on,
Probe.on_many, explicit Probe with start_time) sample the server and the collectors as `probes=`.
"""
from __future__ import annotations

from hv.scenarios.base import T, seed_all, stats_of, sub_seed

NAME = "load"
MODEL = None
COMPONENTS = ["Source", "SimpleEventProvider", "DistributedFieldProvider", "ConstantArrivalTimeProvider",
              "PoissonArrivalTimeProvider", "ConstantRateProfile", "LinearRampProfile", "SpikeProfile", "Profile",
              "EventProvider", "ConstantLatency", "ExponentialLatency", "PercentileFittedLatency",
              "UniformDistribution", "ZipfDistribution", "LatencyDistribution", "ValueDistribution", "Probe",
              "Data", "BucketedData", "LatencyTracker", "ThroughputTracker", "Server", "Sink", "Counter"]

SRC_KINDS = ["constant", "poisson", "prof-const", "ramp-up", "ramp-down", "explicit"]
SLOW_KINDS = ["spike", "step"]   # jump discontinuities: ~0.3-0.5 s wall per crossing inside the library's integrator
PROVIDERS = ["simple", "context_fn", "burst", "dfp"]
SERVICE = ["const", "exp", "pfit", "pfit2", "value-uniform", "value-zipf", "shifted"]


def _source_cfg(rng, end, slow):
    """One source.  Ramp parameters are kept where the library's arrival-time integration is fast
    (|slope| * lookahead small, see the family report: steeper ramps / ramps to zero make
    ArrivalTimeProvider.next_arrival_time take minutes); they can still be set by hand in a cfg."""
    kind = rng.choice(SLOW_KINDS) if slow else rng.choice(SRC_KINDS)
    poisson = rng.random() < 0.5
    dur_ms = int(end * 1000) + 4000
    if poisson:
        r0 = 200
        r1 = rng.choice([230, 260]) if kind == "ramp-up" else rng.choice([140, 170])
    else:
        r0 = rng.choice([60, 100, 150])
        r1 = r0 * rng.choice([2, 3]) if kind == "ramp-up" else r0 // rng.choice([2, 3])
    n_steps = rng.randint(2, 3)
    step_t = sorted(rng.sample(range(0, int(end * 1000) - 400, 50), n_steps))
    return {
        "kind": kind,
        "provider": rng.choice(PROVIDERS),
        "poisson": poisson,
        "rate": rng.choice([5, 10, 25, 50, 100, 200]),
        "r0": r0, "r1": r1, "dur_ms": dur_ms,
        "base": rng.choice([10, 20, 40]), "spike": rng.choice([100, 150, 300]),
        "warm_ms": rng.randrange(100, int(end * 500), 50),
        "spike_ms": rng.randrange(50, 600, 50),
        "steps": [[t, rng.choice([0, 20, 60, 120]) if i else rng.choice([20, 60, 120])]
                  for i, t in enumerate(step_t)],
        "stop": rng.choice(["float", "instant", "none"]),
        "target": rng.choice(["server", "server", "counter", "sink", "lat", "tput", "keys"]),
        "burst": rng.randint(1, 3),
        "zipf_s": rng.choice([0.0, 0.8, 1.0, 1.5, 2.5]),
        "n_keys": rng.choice([3, 10, 50]),
    }


def gen_cfg(rng):
    end = rng.choice([2.0, 3.0, 4.0])
    sources = [_source_cfg(rng, end, slow=(i == 0 and rng.random() < 0.15)) for i in range(rng.randint(2, 4))]
    sources[-1]["target"] = "server"  # the server (and its service-time distribution) is always loaded
    return {
        "end": end,
        "sources": sources,
        "service": rng.choice(SERVICE),
        "svc_ms": rng.randint(1, 40),
        "conc": rng.randint(1, 2),
        "qcap": rng.choice([None, None, 5, 20]),
        "probe_ms": rng.choice([10, 50, 100, 250]),
        "probe_start_ms": rng.choice([0, 500, 1000]),
        "probes": rng.randint(0, 3),
    }


def build(cfg, seed):
    from happysimulator.components.common import Counter, Sink
    from happysimulator.components.server import Server
    from happysimulator.core.entity import Entity
    from happysimulator.core.event import Event
    from happysimulator.core.simulation import Simulation
    from happysimulator.core.temporal import Duration, Instant
    from happysimulator.distributions import (
        ConstantLatency, ExponentialLatency, LatencyDistribution, PercentileFittedLatency, UniformDistribution,
        ZipfDistribution,
    )
    from happysimulator.instrumentation.collectors import LatencyTracker, ThroughputTracker
    from happysimulator.instrumentation.data import Data
    from happysimulator.instrumentation.probe import Probe
    from happysimulator.load.event_provider import EventProvider
    from happysimulator.load.profile import ConstantRateProfile, LinearRampProfile, Profile, SpikeProfile
    from happysimulator.load.providers.constant_arrival import ConstantArrivalTimeProvider
    from happysimulator.load.providers.distributed_field import DistributedFieldProvider
    from happysimulator.load.providers.poisson_arrival import PoissonArrivalTimeProvider
    from happysimulator.load.source import SimpleEventProvider, Source

    seed_all(seed)
    end = cfg["end"]
    stop_s = end - 0.4

    class StepProfile(Profile):
        """piecewise-constant rate: steps = [(start_s, rate)], rate 0 before the first step"""

        def __init__(self, steps):
            self.steps = sorted((a / 1000.0, float(r)) for a, r in steps)

        def get_rate(self, time):
            t = time.to_seconds()
            rate = 0.0
            for a, r in self.steps:
                if t >= a:
                    rate = r
            return rate

    class ValueLatency(LatencyDistribution):
        """latency sampled from a discrete value distribution of millisecond values"""

        def __init__(self, dist, mean):
            super().__init__(mean)
            self.dist = dist

        def get_latency(self, current_time):
            return Duration.from_seconds(self.dist.sample() / 1000.0)

    class BurstProvider(EventProvider):
        """1–3 events per tick to the same target with string keys drawn from a seeded Zipf"""

        def __init__(self, target, n, keys, stop):
            self.target, self.n, self.keys, self.stop = target, n, keys, stop
            self.generated = 0

        def get_events(self, time):
            if self.stop is not None and time > self.stop:
                return []
            out = []
            for j in range(self.n):
                self.generated += 1
                out.append(Event(time=time, event_type=f"Burst{j}", target=self.target,
                                 context={"created_at": time, "customer_id": self.keys.sample(),
                                          "request_id": self.generated}))
            return out

    class KeyCounter(Entity):
        """counts the sampled context fields (string keys)"""

        def __init__(self, name, downstream=None):
            super().__init__(name)
            self.by_key = {}
            self.by_region = {}
            self.n = 0
            self.downstream = downstream

        def handle_event(self, event):
            self.n += 1
            k = str(event.context.get("customer_id"))
            self.by_key[k] = self.by_key.get(k, 0) + 1
            r = str(event.context.get("region"))
            self.by_region[r] = self.by_region.get(r, 0) + 1
            if self.downstream is not None:
                return [self.forward(event, self.downstream)]
            return None

    # ---- service-time distribution
    m = cfg["svc_ms"] / 1000.0
    kind = cfg["service"]
    if kind == "const":
        svc = ConstantLatency(m)
    elif kind == "exp":
        svc = ExponentialLatency(m)
    elif kind == "pfit":
        svc = PercentileFittedLatency(p50=m, p99=m * 6)
    elif kind == "pfit2":
        svc = PercentileFittedLatency(p90=m * 2, p999=m * 8, p9999=m * 12)
    elif kind == "value-uniform":
        svc = ValueLatency(UniformDistribution([1, 2, 5, cfg["svc_ms"], 2 * cfg["svc_ms"]],
                                               seed=sub_seed(seed, "svc-u")), m)
    elif kind == "value-zipf":
        svc = ValueLatency(ZipfDistribution([cfg["svc_ms"], 1, 3, 50, 120], s=1.2, seed=sub_seed(seed, "svc-z")), m)
    else:
        svc = ExponentialLatency(Duration.from_seconds(m)) + 0.002  # __add__: shifted copy

    lat = LatencyTracker("lat")
    tput = ThroughputTracker("tput")
    counter = Counter("counter")
    sink = Sink("sink")
    keys_after = KeyCounter("keys-after", downstream=lat)
    server = Server("srv", concurrency=cfg["conc"], service_time=svc, queue_capacity=cfg["qcap"],
                    downstream=keys_after)
    keys = KeyCounter("keys", downstream=tput)
    targets = {"server": server, "counter": counter, "sink": sink, "lat": lat, "tput": tput, "keys": keys}

    sources, providers = [], []
    for i, sc in enumerate(cfg["sources"]):
        target = targets[sc["target"]]
        if sc["stop"] == "float":
            stop_arg, stop_inst = stop_s, Instant.from_seconds(stop_s)
        elif sc["stop"] == "instant":
            stop_arg = stop_inst = Instant.from_seconds(stop_s - 0.1)
        else:
            stop_arg = stop_inst = None
        names = [f"user-{j}" for j in range(sc["n_keys"])]
        prov = None
        if sc["provider"] == "context_fn":
            ud = UniformDistribution(names, seed=sub_seed(seed, "ctx", i))
            prov = SimpleEventProvider(
                target, f"Ctx{i}", stop_inst,
                context_fn=lambda time, count, ud=ud: {"created_at": time, "request_id": count,
                                                      "customer_id": ud.sample(), "region": "static"})
        elif sc["provider"] == "burst":
            prov = BurstProvider(target, sc["burst"], ZipfDistribution(names, s=sc["zipf_s"],
                                                                        seed=sub_seed(seed, "burst", i)), stop_inst)
        elif sc["provider"] == "dfp":
            prov = DistributedFieldProvider(
                target=target, event_type=f"Dfp{i}",
                field_distributions={
                    "customer_id": ZipfDistribution(names, s=sc["zipf_s"], seed=sub_seed(seed, "dfp-c", i)),
                    "region": UniformDistribution(["us-east", "us-west", "eu", "ap-south"],
                                                  seed=sub_seed(seed, "dfp-r", i)),
                    "size": ZipfDistribution(range(1, 20), s=1.0, seed=sub_seed(seed, "dfp-s", i)),
                },
                static_fields={"api_version": "v2"}, stop_after=stop_inst)
        providers.append(prov)
        common = {"name": f"src{i}"}
        if prov is not None:
            common["event_provider"] = prov
        else:
            common.update(target=target, event_type=f"Req{i}", stop_after=stop_arg)
        k = sc["kind"]
        rate = sc["rate"]
        if k == "constant":
            src = Source.constant(rate=rate, **common)
        elif k == "poisson":
            src = Source.poisson(rate=rate, **common)
        elif k == "explicit":
            if prov is None:
                prov = SimpleEventProvider(target, f"Req{i}", stop_inst)
                providers[-1] = prov
            atp_cls = PoissonArrivalTimeProvider if sc["poisson"] else ConstantArrivalTimeProvider
            src = Source(name=f"src{i}", event_provider=prov,
                         arrival_time_provider=atp_cls(ConstantRateProfile(rate=rate), start_time=Instant.Epoch))
        else:
            if k == "prof-const":
                profile = ConstantRateProfile(rate=rate)
            elif k in ("ramp-up", "ramp-down"):
                profile = LinearRampProfile(duration_s=sc["dur_ms"] / 1000.0, start_rate=float(sc["r0"]),
                                            end_rate=float(sc["r1"]))
            elif k == "spike":
                profile = SpikeProfile(baseline_rate=float(sc["base"]), spike_rate=float(sc["spike"]),
                                       warmup_s=sc["warm_ms"] / 1000.0, spike_duration_s=sc["spike_ms"] / 1000.0)
            else:
                profile = StepProfile(sc["steps"])
            src = Source.with_profile(profile=profile, poisson=sc["poisson"], **common)
        sources.append(src)

    # ---- probes
    probes, pdata = [], {}
    if cfg["probes"] >= 1:
        p, d = Probe.on(server, "depth", interval=cfg["probe_ms"] / 1000.0)
        probes.append(p)
        pdata["srv.depth"] = d
    if cfg["probes"] >= 2:
        ps, dd = Probe.on_many(lat, ["count", "mean_latency"], interval=cfg["probe_ms"] / 500.0)
        probes.extend(ps)
        for kk in dd:
            pdata["lat." + kk] = dd[kk]
    if cfg["probes"] >= 3:
        d = Data()
        probes.append(Probe(target=counter, metric="total", data=d, interval=cfg["probe_ms"] / 1000.0,
                            start_time=Instant.from_seconds(cfg["probe_start_ms"] / 1000.0)))
        pdata["counter.total"] = d
        p, d2 = Probe.on(keys, "no_such_metric", interval=0.5)
        probes.append(p)
        pdata["keys.missing"] = d2

    sim = Simulation(end_time=T(end), sources=sources, entities=[lat, tput, counter, sink, keys, keys_after, server],
                     probes=probes)

    def data_obs(d):
        def read():
            vals = d.values
            b = d.bucket(0.5)
            return {"n": len(d), "count": d.count(), "mean": d.mean(), "min": d.min(), "max": d.max(), "sum": d.sum(),
                    "std": d.std(), "p50": d.percentile(0.5), "p99": d.percentile(0.99),
                    "first": [list(v) for v in vals[:4]], "last": [list(v) for v in vals[-3:]],
                    "bucket": b.to_dict(), "rate": [list(v) for v in d.rate(1.0).values],
                    "between": d.between(0.5, 1.5).count()}
        return read

    obs = {
        "server": stats_of(server),
        "server.q": lambda: {"acc": server.stats_accepted, "drop": server.stats_dropped, "depth": server.depth},
        "counter": lambda: {"total": counter.total, "by_type": counter.by_type},
        "sink": lambda: {"n": sink.events_received, "lat": sink.latency_stats()},
        "lat": lambda: {"count": lat.count, "p50": lat.p50(), "p99": lat.p99(), "mean": lat.mean_latency(),
                        "summary": lat.summary(0.5).to_dict()},
        "lat.data": data_obs(lat.data),
        "tput": lambda: {"count": tput.count, "tp": tput.throughput(0.5).to_dict()},
        "keys": lambda: {"n": keys.n, "by_key": sorted(keys.by_key.items()),
                         "by_region": sorted(keys.by_region.items())},
        "keys-after": lambda: {"n": keys_after.n, "by_key": sorted(keys_after.by_key.items()),
                               "by_region": sorted(keys_after.by_region.items())},
        "sources": lambda: [[s.name, s.generated_count] for s in sources],
        "providers": lambda: [getattr(p, "generated", getattr(p, "_generated", None)) for p in providers],
    }
    for kk in sorted(pdata):
        obs["probe." + kk] = data_obs(pdata[kk])
    return sim, obs
