import sys, json, importlib
sys.path.insert(0,'/verif')
pid, what = sys.argv[1], sys.argv[2]
P=importlib.import_module(f'hv.props.{pid.lower()}').PROPERTY
names=[t.split('.')[-1] for t in P.theorems]
partial = getattr(P,'partial_theorems',{}) or {}
text=(f"Lean 4 theorems, unbounded over all inputs/operation lists/schedules ({', '.join(names[:14])}{', …' if len(names)>14 else ''}) "
      f"about a hand-written executable model of {what}; the model is tied to /repo on every run by driving the real objects and the model "
      f"with the same generated inputs and diffing canonical transcripts; the Lean Spec predicate additionally judges the implementation's own transcripts."
      + (f" Partial: {'; '.join(list(partial)[:6])}." if partial else ""))
note=("Trusted: Lean 4.33 kernel, axioms ⊆ {propext, Classical.choice, Quot.sound} (audited every run); the Python adapters and generators in "
      f"hv/props/{pid.lower()}.py (the correspondence is sampled, not proved); " + "; ".join((P.trusted_base or [])[:4]))
import subprocess
subprocess.run(['python3','/verif/hv/manifest_add.py',pid,text,note[:1500],"Lean 4 proof (induction / invariants / refinement on a hand-written model) + differential correspondence + Lean Spec judge"],check=True)
print(pid,'added',len(names),'theorems')
