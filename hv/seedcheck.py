"""Confirm a seeded change and run the property's check against it.

usage: python -m hv.seedcheck <dir with patch.diff, demo.py, meta.json> [--tests] [--tier quick]

Creates a scratch worktree of /repo outside /repo and /verif, applies the patch, runs the
demonstration with and without the change, optionally the repository's test suite, then
`HV_REPO=<worktree> ./check Cxx`, writes result.json next to the patch and removes the worktree.
"""
import json
import os
import subprocess
import sys
import tempfile
import time
from pathlib import Path

ROOT = Path(__file__).resolve().parent.parent
PY = "/venv/bin/python"


def sh(cmd, cwd=None, env=None, timeout=3600):
    r = subprocess.run(cmd, cwd=cwd, env=env, capture_output=True, text=True, timeout=timeout)
    return r.returncode, (r.stdout + r.stderr)


def main():
    d = Path(sys.argv[1]).resolve()
    run_tests = "--tests" in sys.argv
    tier = sys.argv[sys.argv.index("--tier") + 1] if "--tier" in sys.argv else "quick"
    meta = json.loads((d / "meta.json").read_text())
    pid = meta["property"].upper()
    wt = Path(tempfile.mkdtemp(prefix=f"hv-seed-{pid}-", dir="/tmp"))
    wt.rmdir()
    res = {"dir": str(d), "property": pid, "at": time.strftime("%Y-%m-%dT%H:%M:%S")}
    try:
        rc, out = sh(["git", "-C", "/repo", "worktree", "add", "--detach", str(wt), "HEAD"])
        assert rc == 0, out
        rc, out = sh(["git", "-C", str(wt), "apply", str(d / "patch.diff")])
        if rc != 0:
            rc, out = sh(["git", "-C", str(wt), "apply", "--3way", str(d / "patch.diff")])
        res["patch_applies"] = rc == 0
        if rc != 0:
            res["error"] = out[-800:]
            return res
        rc1, o1 = sh([PY, str(d / "demo.py"), str(wt)], timeout=600)
        rc0, o0 = sh([PY, str(d / "demo.py"), "/repo"], timeout=600)
        res["demo_with_change"] = rc1
        res["demo_without_change"] = rc0
        res["demo_output_with_change"] = o1[-600:]
        if run_tests:
            rc, out = sh([PY, "-m", "pytest", "-q", "-p", "no:cacheprovider", "-x", "--timeout=900", "-W", "ignore", "tests"], cwd=wt, timeout=3600)
            res["tests_rc"] = rc
            if rc != 0:
                res["tests_tail"] = out[-600:]
        env = dict(os.environ, HV_REPO=str(wt), HV_EVIDENCE_DIR=str(ROOT / "out" / "seed-evidence" / d.name))
        t0 = time.time()
        rc, out = sh([str(ROOT / "check"), pid, "--tier", tier], cwd=ROOT, env=env, timeout=7200)
        res["check_rc"] = rc
        res["check_wall_s"] = round(time.time() - t0, 1)
        res["check_lines"] = [l for l in out.splitlines() if l.startswith(("VIOLATION", "KNOWN", pid, "INFRA"))][-6:]
        for l in out.splitlines():
            if l.startswith("VIOLATION") and "replay=" in l:
                rp = l.split("replay=")[1].split()[0]
                try:
                    rj = json.loads(Path(rp).read_text())
                    res["detected_as"] = rj.get("signature") or rj.get("kind")
                    res["replay_kind"] = rj.get("kind")
                except Exception:
                    pass
        # a change seeded for one property may be caught by the check of another property it also breaks
        # (<dir>/also.txt lists those checks); recorded separately, never counted as this property's detection
        also = (d / "also.txt").read_text().split() if (d / "also.txt").exists() else []
        for other in also:
            env2 = dict(env, HV_EVIDENCE_DIR=str(ROOT / "out" / "seed-evidence" / (d.name + "-" + other)))
            rc2, out2 = sh([str(ROOT / "check"), other, "--tier", tier], cwd=ROOT, env=env2, timeout=7200)
            a = {"check_rc": rc2}
            for l in out2.splitlines():
                if l.startswith("VIOLATION") and "replay=" in l:
                    try:
                        rj = json.loads(Path(l.split("replay=")[1].split()[0]).read_text())
                        a["detected_as"] = rj.get("signature") or rj.get("kind")
                        a["replay_kind"] = rj.get("kind")
                    except Exception:
                        pass
            res.setdefault("also", {})[other] = a
        return res
    finally:
        sh(["git", "-C", "/repo", "worktree", "remove", "--force", str(wt)])
        (d / "result.json").write_text(json.dumps(res, indent=1))
        print(json.dumps({k: v for k, v in res.items() if k not in ("demo_output_with_change",)}, indent=1))


if __name__ == "__main__":
    main()
