"""Refresh MANIFEST.json level texts from the property modules (theorem names, partials, trusted base).

Keeps everything else of each check entry. The description of WHAT is modelled is taken from the existing
text (between 'model of ' and '; the model is tied') or from the property module's `rule`.
usage: python -m hv.manifest_refresh
"""
import importlib
import json
import re
from pathlib import Path

ROOT = Path(__file__).resolve().parent.parent

WHAT = {
    "C04": "the instrumented run loop and the control surface (pause / step / resume, time / count / metric / condition breakpoints incl. ones added by hooks, reset with replay of pre-run events and their metadata) over the C01 engine and process model",
    "C10": "the five rate-limiter policies in exact integer arithmetic (adaptive: epochs of feedback), RateLimitedEntity and Inductor as entity transition systems with their queue capacity, and the DistributedRateLimiter over a shared counter store",
    "C17": "primary-backup, chain replication (with CRAQ) and multi-leader replication (LWW, vector-clock and merging resolvers, anti-entropy) as message-passing systems",
    "C18": "Lamport / vector (dict-keyed, partial membership) / hybrid logical clocks over message histories, the G/PN-counter, LWW-register and OR-set CRDTs with replica systems, and the CRDTStore gossip protocol (push / response, adoption, lossless rounds)",
    "C19": "MessageQueue with its dead-letter queue and redelivery timers, Topic, EventLog, ConsumerGroup and the three assignment strategies, stream windows (tumbling / sliding / session), OutboxRelay and IdempotencyStore",
    "C20": "Bloom, Count-Min, HyperLogLog registers, space-saving TopK, reservoir, Merkle tree, the t-digest quantile walk over a centroid list, and sketch programs (merge / clear / lookup sequences) with the hash as a parameter",
}


def main():
    m = json.loads((ROOT / "MANIFEST.json").read_text())
    for c in m["checks"]:
        pid = c["property_id"]
        P = importlib.import_module(f"hv.props.{pid.lower()}").PROPERTY
        names = [t.split(".")[-1] for t in P.theorems]
        partial = list((getattr(P, "partial_theorems", {}) or {}).keys())
        old = c["level_claimed"]["text"]
        mm = re.search(r"model of (.*?); the model is tied", old, re.S)
        what = WHAT.get(pid) or (mm.group(1) if mm and mm.group(1).strip() else "the anchored components (see DESIGN.md §13.3)")
        shown = ", ".join(names[:16]) + (f", … ({len(names)} in all, listed in evidence/{pid}.json)" if len(names) > 16 else "")
        text = (f"Lean 4 theorems, unbounded over all inputs / operation lists / schedules ({shown}) about a hand-written "
                f"executable model of {what}; the model is tied to /repo on every run by driving the real objects and the model with "
                f"the same generated inputs and diffing canonical transcripts; the Lean Spec predicate additionally judges the "
                f"implementation's own transcript of every case."
                + (f" Partial / with named gaps: {'; '.join(p.split('.')[-1][:70] for p in partial[:8])}." if partial else
                   " No clause is left partial; hypotheses of the theorems are listed in the evidence file."))
        c["level_claimed"]["text"] = text
        c["level_claimed"]["design_ref"] = f"DESIGN.md §13.3 (as built), §8 {pid} (plan)"
        note = ("Trusted: Lean 4.33 kernel, axioms ⊆ {propext, Classical.choice, Quot.sound} (audited every run; leanchecker in the "
                f"thorough tier); the Python adapters and generators in hv/props/{pid.lower()}*.py (the correspondence is sampled, not "
                "proved); " + "; ".join((P.trusted_base or [])[:4]))
        c["level_note"] = note[:1800]
    (ROOT / "MANIFEST.json").write_text(json.dumps(m, indent=1))
    print("refreshed", len(m["checks"]), "entries")


if __name__ == "__main__":
    main()
