"""C08 part 3 (family `indus`) — the industrial queue-fronted components.

Components (all from `happysimulator/components/industrial/`), each run inside a real `Simulation`:

  pooled    PooledCycleResource          pool of N units, fixed cycle, FIFO overflow queue (optional capacity)
  conveyor  ConveyorBelt                 fixed transit time, optional capacity
  gate      GateController               open/close schedule, FIFO queue while closed (optional capacity)
  batch     BatchProcessor               accumulate `batch_size` items or flush on timeout, one process delay
  reneging  RenegingQueuedResource       QueuedResource (Queue + QueueDriver + worker) whose dequeued items
                                         renege when they waited longer than their patience

A harness source schedules tagged items (arrival instants on a 0.25 s grid, bursts on one nanosecond,
arrivals landing exactly on completion instants, optional zero-time forwarder hops so that same-instant
deliveries have different causal depth); a harness sink (and a reneged-target sink) records deliveries.
The transcript has one line per *delivery* an observer of the public entities sees,

    <t_ns> <action…> -> <result> | <public counters of the component…>

(`offer <id>`, `fin <id>`, `done <id>`, `open`, `close`, `timeout`, `bfin <k>`, `deq`, `work <id>`, `rdone <id>`).
The Lean side (`HappyModel/C08/Indus.lean` judge, `IndusModel.lean` models) gets
  * `indus <comp> <params>` + the schedule (the part of every line before ` -> `): the executable model of the
    component replays it and must print the very same lines (results and counters);
  * `judge-indus <comp> <params>` + the full transcript: the item-state partition as a decidable predicate.

The model has two variants (`C08.variants`): `current` mirrors /repo as it is, `repaired` mirrors /repo with
`fixes/C08-indus-pooled-dequeued-item-overtaken.diff` and `fixes/C08-indus-batch-size-one-waits-for-timeout.diff`
applied; on the restricted inputs below both print the same transcript.  `HV_C08_INDUS_LIFT=R1,R2[,R3]` lifts
restrictions (for checking a repaired tree: `HV_C08_INDUS_LIFT=R1,R2 HV_REPO=<worktree> ./check C08`).

Generator restrictions (each is a *reproduced defect of /repo*; the judge is not weakened, the trigger is not
generated; the write-ups are `fixes/C08-indus-*.md`):
  R1 pooled: an arrival that travels through forwarder hops never lands on an instant at which a cycle can
     complete (a + k*cycle of any arrival a), and never with cycle 0.  Otherwise the hop-delayed arrival is
     delivered between a completion and the re-delivery of the item that completion dequeued, takes the freed
     unit, and the dequeued item is re-queued at the back or rejected after acceptance
     (`indus/pooled/order`, `indus/pooled/dequeued-item-requeued`, `indus/pooled/accepted-item-rejected`).
  R2 batch: `timeout > 0` implies `batch_size >= 2`: the first item of an empty buffer only arms the timer, the
     size test is skipped, so a full batch of one waits for the timeout beside an idle processor
     (`indus/batch/strand/waiting-with-free-capacity`).
  R3 batch: arrival instants are pushed back so that no batch closes (fills or times out) while another one
     is in process: BatchProcessor never looks at `_processing`, a second batch starts concurrently
     (`indus/batch/in-service-exceeds-limit`; known finding, `fixes/C08-indus-batch-concurrent-batches.known.md`).
     Cases with `"overlap": true` are exempt from R3 and are judged with the header flag `overlap`: batches are
     independent services (the one-batch limit is not judged, DESIGN 13.6), every other clause stays and the
     no-strand clauses become unconditional — a flush timeout that is due must start its batch although another
     batch is in process, and at the end of a finite workload every accepted item must have been completed.
     `_batch_overlap_case` builds the schedules for it: `process_time >= timeout_s > 0`, full batches that keep
     the processor busy, partial batches opening during a process whose timeout falls before / on / after its end.
  G1 gate: only schedules on which the creation-order semantics of `start_events` (open_1, close_1, open_2, ...; same-instant
     events handled in that order, every close shuts the gate) agrees with the union of the windows: sorted and
     non-overlapping, touching and zero-length windows included.  With overlapping windows, or touching windows listed out of
     order, a close shuts the gate inside another window and arrivals wait there for ever
     (`indus/gate/strand/closed-inside-open-window`; `fixes/C08-indus-gate-overlapping-windows.{diff,md}`, witness
     `corpus/C08/pending/gate-touching-windows-out-of-order.json`).  Lift with `G1` in `HV_C08_INDUS_LIFT`.
The gate judge gets the schedule (header `gate <init> <qcap> <open_ns close_ns>*`) and judges the strand clause against the
union of its windows: the clock must not advance (and the run must not end) while items wait, the gate is shut and a
non-empty window meets the stretch — suspended once a programmatic open()/close() (`copen` / `cclose` lines) has happened.

Constructor options varied: pooled `downstream` set / None (`nosink`), `queue_capacity` 0 (unlimited) .. 3, `cycle_time` 0;
conveyor `capacity` 0 (unlimited) .. 3, `transit_time` 0 (an offer answered without a transport process is logged `pass` = handed over
in that instant, or `lost`; the judge demands in_transit + transported + rejected = offered after every delivery); gate `queue_capacity` 0 .. 3, empty / zero-length / coinciding
schedules, `initially_open`, and the public `open()` / `close()` called by a harness controller (`ctl`); batch size 1 .. 4,
`process_time` 0, `timeout_s` 0; reneging `reneged_target` set / None (`rtarget`), `default_patience_s` inf / 0 / .., item
patience 0, queue capacity inf / 0 / .., service time 0.

Private attributes: none are read.  The harness recognises the internal event types `_GateOpen`, `_GateClose`,
`_BatchTimeout` by their `event_type` string, and (reneging) supplies the worker subclass with its own public
`active` counter.
"""
from __future__ import annotations

import atexit
import hashlib
import json
import os
import shutil
import tempfile
import time
from pathlib import Path

from hv import core

Q = 250_000_000          # time grid: quarter seconds, exactly representable as float seconds
END_S = 4000.0
MAX_LINES = 3000
COMPS = ["pooled", "conveyor", "gate", "batch", "reneging"]
# restrictions lifted for this process, e.g. HV_C08_INDUS_LIFT=R1,R2 when checking a tree that carries the
# repairs in fixes/C08-indus-*.diff (never set by ./check itself)
LIFT = set(filter(None, os.environ.get("HV_C08_INDUS_LIFT", "R1,R2,G1").split(",")))   # R1, R2 lifted: the two repairs are in /repo

# --------------------------------------------------------------------------- transcript hand-over
_ROOT_PID = os.getpid()
_CACHE_DIR = Path(tempfile.gettempdir()) / f"hv-c08i-{os.getuid()}" / f"{_ROOT_PID}-{time.time_ns()}"
_MEM: dict = {}


def _cleanup():
    if os.getpid() == _ROOT_PID:
        shutil.rmtree(_CACHE_DIR, ignore_errors=True)


atexit.register(_cleanup)


def _key(case):
    return hashlib.sha256(json.dumps(case, sort_keys=True).encode()).hexdigest()


def _store(case, out):
    k = _key(case)
    _MEM[k] = out
    try:
        _CACHE_DIR.mkdir(parents=True, exist_ok=True)
        tmp = _CACHE_DIR / f"{k}.{os.getpid()}.tmp"
        tmp.write_text("\n".join(out))
        tmp.replace(_CACHE_DIR / f"{k}.txt")
    except OSError:
        pass


class _Shim:
    case_timeout_s = 20

    @staticmethod
    def run_impl(case):
        return run_impl(case)


def _impl_out(case):
    k = _key(case)
    if k in _MEM:
        return _MEM[k]
    p = _CACHE_DIR / f"{k}.txt"
    if p.exists():
        out = p.read_text().split("\n")
        _MEM[k] = out
        return out
    out = core.run_impl_safe(_Shim, case)
    _MEM[k] = out
    return out


def _opt(x):
    return "-" if x is None else str(x)


# --------------------------------------------------------------------------- implementation run
def run_impl(case):
    from collections.abc import Generator

    from happysimulator.core.entity import Entity
    from happysimulator.core.event import Event
    from happysimulator.core.simulation import Simulation
    from happysimulator.core.temporal import Instant

    comp = case["comp"]
    log: list[str] = []
    tag_of = lambda ev: ev.context["metadata"]["tag"]
    box = {}

    def emit(action, res):
        if len(log) > MAX_LINES:
            raise RuntimeError("delivery watchdog")
        log.append(f"{box['c'].now.nanoseconds} {action} -> {res} | {box['counters']()}")

    class Sink(Entity):
        def __init__(self, name, word):
            super().__init__(name)
            self.word = word

        def handle_event(self, ev):
            emit(f"{self.word} {tag_of(ev)}", "-")
            return []

    class Fwd(Entity):
        def __init__(self, name, nxt):
            super().__init__(name)
            self.nxt = nxt

        def handle_event(self, ev):
            return [self.forward(ev, self.nxt)]

    sink = Sink("sink", "done")
    rsink = Sink("rsink", "rdone")

    def traced(gen, first, first_res, last):
        """generator wrapper: emit `first` once the real generator reached its first yield (the engine primes
        it inside the same delivery), `last` when it returns"""
        try:
            v = next(gen)
        except StopIteration as e:
            emit(first, "nostart")
            return e.value
        emit(first, first_res)
        while True:
            sent = yield v
            try:
                v = gen.send(sent)
            except StopIteration as e:
                emit(last, "-")
                return e.value

    if comp == "pooled":
        from happysimulator.components.industrial.pooled_cycle import PooledCycleResource

        c = PooledCycleResource("pool", pool_size=case["pool"], cycle_time=case["cycle"] * 0.25,
                                downstream=None if case.get("nosink") else sink, queue_capacity=case["qcap"])
        box["counters"] = lambda: f"{c.available} {c.active} {c.queued} {c.completed} {c.rejected}"
        orig = c.handle_event

        def on(ev):
            tag = tag_of(ev)
            r0 = c.rejected
            out = orig(ev)
            if isinstance(out, Generator):
                return traced(out, f"offer {tag}", "start", f"fin {tag}")
            emit(f"offer {tag}", "rej" if c.rejected > r0 else "wait")
            return out

        c.handle_event = on
    elif comp == "conveyor":
        from happysimulator.components.industrial.conveyor import ConveyorBelt

        c = ConveyorBelt("belt", downstream=sink, transit_time=case["transit"] * 0.25, capacity=case["cap"])
        box["counters"] = lambda: f"{c.items_in_transit} {c.items_transported} {c.items_rejected}"
        orig = c.handle_event

        def on(ev):
            tag = tag_of(ev)
            r0 = c.items_rejected
            out = orig(ev)
            if isinstance(out, Generator):
                return traced(out, f"offer {tag}", "start", f"fin {tag}")
            # no transport process: refused and counted, handed over in this very instant, or dropped
            emit(f"offer {tag}", "rej" if c.items_rejected > r0 else "pass" if out else "lost")
            return out

        c.handle_event = on
    elif comp == "gate":
        from happysimulator.components.industrial.gate_controller import GateController

        c = GateController("gate", downstream=sink, schedule=[(a * 0.25, b * 0.25) for a, b in case["sched"]],
                           initially_open=case["init_open"], queue_capacity=case["qcap"])

        def counters():
            st = c.stats
            return f"{1 if c.is_open else 0} {c.queue_depth} {st.passed_through} {st.queued_while_closed} {st.rejected} {st.open_cycles}"

        box["counters"] = counters
        orig = c.handle_event

        class Ctl(Entity):
            """harness controller: operates the gate through its public `open()` / `close()` and schedules what
            they return, as the docstring of GateController asks of a caller"""

            def handle_event(self, ev):
                op = ev.context["metadata"]["op"]
                out = c.open() if op == "open" else c.close()
                emit("c" + op, "-")
                return out

        box["ctl"] = Ctl("ctl")

        def on(ev):
            if ev.event_type == "_GateOpen":
                out = orig(ev)
                emit("open", "-")
                return out
            if ev.event_type == "_GateClose":
                out = orig(ev)
                emit("close", "-")
                return out
            tag = tag_of(ev)
            st0 = c.stats
            out = orig(ev)
            st1 = c.stats
            res = "pass" if st1.passed_through > st0.passed_through else "rej" if st1.rejected > st0.rejected else "wait"
            emit(f"offer {tag}", res)
            return out

        c.handle_event = on
    elif comp == "batch":
        from happysimulator.components.industrial.batch_processor import BatchProcessor

        c = BatchProcessor("batch", downstream=sink, batch_size=case["bsize"], process_time=case["proc"] * 0.25,
                           timeout_s=case["timeout"] * 0.25)
        box["counters"] = lambda: f"{c.buffer_depth} {c.batches_processed} {c.items_processed} {c.timeouts}"
        orig = c.handle_event
        nbatch = [0]

        def on(ev):
            is_to = ev.event_type == "_BatchTimeout"
            act = "timeout" if is_to else f"offer {tag_of(ev)}"
            out = orig(ev)
            if isinstance(out, Generator):
                k = nbatch[0]
                nbatch[0] += 1
                return traced(out, act, "start", f"bfin {k}")
            emit(act, "idle" if is_to else "wait")
            return out

        c.handle_event = on
    elif comp == "reneging":
        from happysimulator.components.industrial.reneging import RenegingQueuedResource
        from happysimulator.components.queue import QueueDeliverEvent, QueuePollEvent
        from happysimulator.components.queue_policy import FIFOQueue

        svc = {i: r[3] for i, r in enumerate(case["reqs"])}
        limit = case["limit"]

        class Worker(RenegingQueuedResource):
            """harness worker: `limit` concurrent services, service time taken from the item"""

            def __init__(self):
                dp = case.get("dpat")
                super().__init__("ren", reneged_target=rsink if case.get("rtarget", True) else None, default_patience_s=float("inf") if dp is None else dp * 0.25,
                                 policy=FIFOQueue(capacity=float("inf") if case["qcap"] is None else case["qcap"]))
                self.active = 0

            def has_capacity(self):
                return self.active < limit

            def _handle_served_event(self, ev):
                self.active += 1
                yield svc[tag_of(ev)] * 0.25
                self.active -= 1
                return [Event(time=self.now, event_type=ev.event_type, target=sink, context=ev.context)]

        c = Worker()
        box["counters"] = lambda: f"{c.depth} {c.stats_accepted} {c.stats_dropped} {c.served} {c.reneged} {c.active}"
        res_handle, q_handle, work = c.handle_event, c.queue.handle_event, c.handle_queued_event

        def on_res(ev):
            tag = tag_of(ev)
            a0 = c.stats_accepted
            out = res_handle(ev)
            pat = case["reqs"][tag][2]
            eff = case.get("dpat") if pat is None else pat
            emit(f"offer {tag} {_opt(None if eff is None else eff * Q)}", "acc" if c.stats_accepted > a0 else "rej")
            return out

        def on_queue(ev):
            out = q_handle(ev)
            if isinstance(ev, QueuePollEvent):
                got = [e for e in (out or []) if isinstance(e, QueueDeliverEvent) and e.payload is not None]
                emit("deq", tag_of(got[0].payload) if got else "none")
            return out

        def on_work(ev):
            tag = tag_of(ev)
            out = work(ev)
            if isinstance(out, Generator):
                return traced(out, f"work {tag}", "start", f"fin {tag}")
            emit(f"work {tag}", "renege")     # answered without starting a service
            return out

        c.handle_event = on_res
        c.queue.handle_event = on_queue
        c.handle_queued_event = on_work
    else:
        raise ValueError(comp)

    box["c"] = c
    chains = [c]
    for h in range(1, 4):
        chains.append(Fwd(f"fwd{h}", chains[-1]))
    extra_ents = []
    if "ctl" in box:
        cchains = [box["ctl"]]
        for h in range(1, 4):
            cchains.append(Fwd(f"cfwd{h}", cchains[-1]))
        extra_ents = cchains
    sim = Simulation(entities=[c, sink, rsink] + chains[1:] + extra_ents, end_time=Instant.from_seconds(END_S))

    def arrivals():
        evs = []
        for i, r in enumerate(case["reqs"]):
            ev = Event(time=Instant(r[0] * Q), event_type="REQ", target=chains[r[1]])
            ev.add_context("tag", i)
            if comp == "reneging" and r[2] is not None:
                ev.context["patience_s"] = r[2] * 0.25
            evs.append(ev)
        ctl = []
        for t, hops, op in case.get("ctl", []) if comp == "gate" else []:
            ev = Event(time=Instant(t * Q), event_type="CTL", target=cchains[hops])
            ev.add_context("op", op)
            ctl.append(ev)
        return ctl + evs if case.get("ctl_first") else evs + ctl

    if comp == "gate" and case.get("sched_first", True):
        sim.schedule(c.start_events())
        sim.schedule(arrivals())
    elif comp == "gate":
        sim.schedule(arrivals())
        sim.schedule(c.start_events())
    else:
        sim.schedule(arrivals())
    sim.run()
    _store(case, log)
    return log


# --------------------------------------------------------------------------- protocol blocks
def header(case):
    comp = case["comp"]
    if comp == "pooled":
        return f"pooled {case['pool']} {case['qcap']}" + (" 0" if case.get("nosink") else "")
    if comp == "conveyor":
        return f"conveyor {case['cap']}"
    if comp == "gate":
        return f"gate {1 if case['init_open'] else 0} {case['qcap']}" + "".join(f" {a * Q} {b * Q}" for a, b in case["sched"])
    if comp == "batch":
        return f"batch {case['bsize']} {case['timeout'] * Q}" + (" overlap" if case.get("overlap") else "")
    return f"reneging {case['limit']} {_opt(case['qcap'])}" + ("" if case.get("rtarget", True) else " 0")


def model_block(case, variant):
    impl = _impl_out(case)
    if impl and impl[0].startswith("IMPL-"):
        return (f"indus {variant} " + header(case), [])
    return (f"indus {variant} " + header(case), [l.split(" -> ")[0] for l in impl if l])


def judge_block(case, impl_out):
    return ("judge-indus " + header(case), [l for l in impl_out if l])


def nontrivial_key(case, impl_out):
    """a case is non-trivial when some item waited for a unit / behind a closed gate, was refused, reneged,
    was dequeued at a later instant than it arrived, shared the belt, or a batch of >= 2 items was processed"""
    comp, offered = case["comp"], {}
    key = lambda: json.dumps(case, sort_keys=True)
    for l in impl_out:
        left, _, right = l.partition(" | ")
        t, ctr = left.split(), right.split()
        if len(t) < 2:
            continue
        if left.endswith((" rej", " renege")) or (comp in ("pooled", "gate") and left.endswith(" wait")):
            return key()
        if comp == "conveyor" and t[1] == "offer" and ctr and ctr[0] not in ("0", "1"):
            return key()
        if comp == "batch" and t[1] == "bfin" and len(ctr) > 2 and int(ctr[2]) >= 2:
            return key()
        if comp == "batch" and t[1] == "timeout" and left.endswith(" start"):
            return key()
        if comp == "reneging":
            if t[1] == "offer":
                offered[t[2]] = t[0]
            elif t[1] == "work" and offered.get(t[2]) not in (None, t[0]):
                return key()
    return None


# --------------------------------------------------------------------------- generation
def _arrival_times(rng, n, steps):
    """bursts on a few base instants, arrivals exactly `k*step` after an earlier one, near misses"""
    bases = sorted(rng.sample(range(0, 25), k=rng.choice([1, 2, 3])))
    ts = []
    for _ in range(n):
        r = rng.random()
        if r < 0.45 or not ts:
            t = rng.choice(bases)
        elif r < 0.85:
            t = rng.choice(ts) + rng.choice(steps) * rng.choice([1, 1, 2, 3])
        else:
            t = rng.choice(ts) + rng.choice([0, 1])
        ts.append(t)
    return ts


def _pooled_safe_hops(case):
    """R1: hop-delayed arrivals only off the completion lattice"""
    if "R1" in LIFT:
        return case
    cyc = case["cycle"]
    ts = [r[0] for r in case["reqs"]]
    for r in case["reqs"]:
        if r[1] == 0:
            continue
        if cyc == 0 or any(r[0] > a and (r[0] - a) % cyc == 0 for a in ts):
            r[1] = 0
    return case


def _gate_creation_order_ok(sched):
    """does the creation-order semantics of `start_events` (open_1, close_1, open_2, close_2, ...; same-instant
    events handled in that order) leave the gate, at the end of every edge instant, open exactly inside the union
    of the windows?"""
    evs = sorted((t, 2 * i + k, k) for i, w in enumerate(sched) for k, t in enumerate(w))
    state, closed_once = None, False
    for j, (t, _, k) in enumerate(evs):
        state = (k == 0)
        if j + 1 < len(evs) and evs[j + 1][0] == t:
            continue
        if state != any(a <= t < b for a, b in sched):
            return False
    return True


def _gate_safe_sched(case):
    """G1: until fixes/C08-indus-gate-overlapping-windows.diff is in the tree, only schedules on which the code's
    creation-order semantics agrees with the union of the windows (sorted, non-overlapping; touching and zero-length
    windows stay)"""
    if "G1" in LIFT or _gate_creation_order_ok(case["sched"]):
        return case
    sched, out, t = sorted(case["sched"]), [], 0
    for a, b in sched:
        a = max(a, t)
        b = max(b, a)
        out.append([a, b])
        t = b
    case["sched"] = out if _gate_creation_order_ok(out) else out[:1]
    return case


def _batch_plan(case):
    """which arrivals BatchProcessor puts into which batch and when each batch closes (quarter seconds),
    following the delivery order of one instant: direct arrivals, then a timeout armed at an earlier
    instant, then hop-delayed arrivals by hop count.  Used only to space arrivals (R3).
    Returns (list of (close_time, [indices])), leftover indices)"""
    bs, to = case["bsize"], case["timeout"]
    order = sorted(range(len(case["reqs"])), key=lambda i: (case["reqs"][i][0], case["reqs"][i][1], i))
    out, buf, first = [], [], None
    for i in order:
        t, hops = case["reqs"][i][0], case["reqs"][i][1]
        if buf and to > 0 and (first + to < t or (first + to == t and hops > 0)):
            out.append((first + to, buf))
            buf, first = [], None
        if not buf:
            first = t
        buf.append(i)
        if len(buf) >= bs and not (len(buf) == 1 and to > 0 and "R2" not in LIFT):
            out.append((t, buf))
            buf, first = [], None
    if buf and to > 0:
        out.append((first + to, buf))
        buf = []
    return out, buf


def _batch_gaps_ok(case):
    closes = [c for c, _ in _batch_plan(case)[0]]
    return all(b >= a + case["proc"] + 1 for a, b in zip(closes, closes[1:]))


def _batch_space(case):
    """R3: push the arrivals of every later batch back until consecutive batch closes are more than `proc`
    apart (the items of one batch move together, so the plan keeps its shape)"""
    if "R3" in LIFT or case.get("overlap"):
        return case
    plan, left = _batch_plan(case)
    delta, prev = 0, None
    for close, idx in plan:
        if prev is not None:
            delta = max(delta, prev + case["proc"] + 1 - close)
        for i in idx:
            case["reqs"][i][0] += delta
        prev = close + delta
    for i in left:
        case["reqs"][i][0] += delta
    if not _batch_gaps_ok(case):           # cannot happen; keep the restriction unconditional
        case["reqs"] = case["reqs"][:1]
    return case


def _batch_overlap_case(rng, case, hop):
    """slow processor, quick flush timer (`process_time >= timeout_s > 0`): full batches keep the processor busy
    while younger partial batches open, wait for their own timeout (due before, exactly at, or after the end of
    the batch in process) and are never topped up; every accepted item must still be completed"""
    bs = case["bsize"] = max(case["bsize"], rng.choice([1, 2, 2, 3]))
    to = case["timeout"] = rng.choice([1, 1, 2, 4])
    proc = case["proc"] = to + rng.choice([0, 1, 2, 4, 8])
    case["overlap"] = True
    reqs, t = [], rng.choice([0, 0, 1, 3])
    for _ in range(rng.choice([1, 1, 2, 3])):
        reqs += [[t, hop()] for _ in range(bs)]                       # a full batch: in process t .. t + proc
        k = rng.choice([1, 1, 2, max(1, bs - 1)]) if bs > 1 else 0    # a partial batch that is never filled
        d = rng.choice([0, 0, 1, max(0, proc - to - 1), max(0, proc - to), max(0, proc - 1), proc, proc + 1])
        for j in range(min(k, bs - 1)):
            reqs.append([t + d + (rng.choice([0, 0, 1]) if j else 0), hop()])
        t += rng.choice([d + to + 1, proc, proc + to + 1, proc + d + 2 * to + 2])
    if rng.random() < 0.3:
        reqs.append([t + rng.choice([0, 1, to, proc]), hop()])       # a straggler
    case["reqs"] = reqs[:14]
    return case


def generate(rng, i, tier):
    comp = COMPS[i // 5 % 5] if rng.random() < 0.5 else rng.choice(COMPS)
    n = rng.choice([1, 2, 3, 4, 6, 8, 10])
    hop = lambda: rng.choice([0, 0, 0, 1, 2, 3])
    if comp == "pooled":
        cyc = rng.choice([0, 1, 2, 4, 4])
        case = {"family": "indus", "comp": comp, "pool": rng.choice([1, 1, 2, 3]), "cycle": cyc,
                "qcap": rng.choice([0, 0, 1, 2, 3])}
        if rng.random() < 0.25:
            case["nosink"] = True             # downstream=None: completed items are counted and leave
        case["reqs"] = [[t, hop()] for t in _arrival_times(rng, n, [max(cyc, 1)])]
        return _pooled_safe_hops(case)
    if comp == "conveyor":
        tr = rng.choice([0, 1, 2, 4])
        case = {"family": "indus", "comp": comp, "transit": tr, "cap": rng.choice([0, 1, 1, 2, 3])}
        case["reqs"] = [[t, hop()] for t in _arrival_times(rng, n, [max(tr, 1)])]
        return case
    if comp == "gate":
        sched, t = [], rng.choice([0, 1, 2, 4])
        for _ in range(rng.choice([0, 1, 2, 3])):
            ln = rng.choice([0, 1, 2, 4, 8])
            sched.append([t, t + ln])
            t += ln + rng.choice([0, 1, 4])
        r = rng.random()
        if sched and r < 0.2:
            rng.shuffle(sched)                                   # windows listed out of order
        elif sched and r < 0.4:
            a, b = rng.choice(sched)                             # an overlapping / nested / duplicated / touching extra window
            sched.insert(rng.randrange(len(sched) + 1), rng.choice([[a, b], [a + 1, b + 2], [max(0, a - 1), b + 1], [b, b + 2], [max(0, a - 2), a], [a, a]]))
        case = {"family": "indus", "comp": comp, "init_open": rng.random() < 0.4, "qcap": rng.choice([0, 0, 1, 2, 3]),
                "sched": sched, "sched_first": rng.random() < 0.6}
        _gate_safe_sched(case)
        edges = [x for iv in sched for x in iv] or [0]
        reqs = []
        for t0 in _arrival_times(rng, n, [1, 2]):
            reqs.append([rng.choice(edges) + rng.choice([-1, 0, 0, 0, 1]) if rng.random() < 0.5 else t0, hop()])
        case["reqs"] = [[max(0, t0), h] for t0, h in reqs]
        if rng.random() < 0.4:
            # programmatic open()/close() from a controller, on / next to schedule edges and arrivals
            spots = edges + [r[0] for r in case["reqs"]]
            case["ctl"] = [[max(0, rng.choice(spots) + rng.choice([-1, 0, 0, 0, 1])), hop(), rng.choice(["open", "close"])]
                           for _ in range(rng.choice([1, 2, 3]))]
            case["ctl_first"] = rng.random() < 0.5
        return case
    if comp == "batch":
        to = rng.choice([0, 0, 1, 2, 4, 8])
        bs = rng.choice([1, 2, 2, 3, 4]) if to == 0 or "R2" in LIFT else rng.choice([2, 2, 3, 4])     # R2
        proc = rng.choice([0, 1, 2, 4])
        case = {"family": "indus", "comp": comp, "bsize": bs, "proc": proc, "timeout": to}
        r = rng.random()
        if r < 0.3:
            return _batch_overlap_case(rng, case, hop)
        case["reqs"] = [[t, hop()] for t in _arrival_times(rng, n, [max(proc, 1), max(to, 1)])]
        if r < 0.5:
            case["overlap"] = True           # batches may close while another is in process, judged as independent services
            return case
        return _batch_space(case)                                                       # R3
    # reneging
    limit = rng.choice([1, 1, 2, 3])
    svc_pool = rng.choice([[4], [1, 2, 4], [0, 1, 4], [2], [1]])
    pat_pool = rng.choice([[0, 1, 2], [2, 4], [0], [1, 3, 8], [4]])
    case = {"family": "indus", "comp": comp, "limit": limit, "qcap": rng.choice([None, None, 0, 1, 2, 3]),
            "dpat": rng.choice([None, None, 0, 1, 2, 4]),
            "rtarget": rng.random() < 0.5}    # False: reneged_target=None, reneged items are counted and discarded
    case["reqs"] = [[t, hop(), rng.choice(pat_pool + [None]), rng.choice(svc_pool)]
                    for t in _arrival_times(rng, n, svc_pool + pat_pool[:1] if pat_pool[0] else svc_pool)]
    if rng.random() < 0.4:
        # impatient burst: more items on one instant than slots, services longer than the patience, so that
        # the items behind the first `limit` ones have waited too long when they are dequeued
        t0 = rng.choice([r[0] for r in case["reqs"]])
        svc, pat = rng.choice([2, 4, 4]), rng.choice([0, 1, 1, None])
        if pat is None and case["dpat"] is None:
            case["dpat"] = rng.choice([0, 1])
        for _ in range(limit + rng.choice([1, 2, 3])):
            case["reqs"].append([t0, hop(), pat, svc])
    return case


def normalise(case):
    """re-impose the generator restrictions after a shrink / mutation step"""
    if case["comp"] == "pooled":
        return _pooled_safe_hops(case)
    if case["comp"] == "batch":
        if case["timeout"] > 0 and case["bsize"] < 2 and "R2" not in LIFT:
            case["bsize"] = 2
        return _batch_space(case)
    if case["comp"] == "gate":
        return _gate_safe_sched(case)
    return case


def shrink(case):
    reqs = case["reqs"]
    for i in range(len(reqs)):
        c = json.loads(json.dumps(case))
        c["reqs"] = reqs[:i] + reqs[i + 1:]
        if c["reqs"]:
            yield c
    for i, r in enumerate(reqs):
        if r[1] > 0:
            c = json.loads(json.dumps(case))
            c["reqs"][i][1] = r[1] - 1
            yield c
    if case["comp"] == "gate" and case["sched"]:
        for i in range(len(case["sched"])):
            c = json.loads(json.dumps(case))
            del c["sched"][i]
            yield c
    if case["comp"] == "gate" and case.get("ctl"):
        for i in range(len(case["ctl"])):
            c = json.loads(json.dumps(case))
            del c["ctl"][i]
            yield c
    if case["comp"] == "reneging":
        for i, r in enumerate(reqs):
            if r[2] is not None:
                c = json.loads(json.dumps(case))
                c["reqs"][i][2] = None
                yield c


def mutate(case, rng):
    c = json.loads(json.dumps(case))
    reqs = c["reqs"]
    for _ in range(rng.randint(1, 3)):
        i = rng.randrange(len(reqs))
        k = rng.random()
        if k < 0.3:
            reqs[i][1] = rng.choice([0, 1, 2, 3])
        elif k < 0.6:
            reqs[i][0] = rng.choice(reqs)[0] + rng.choice([0, 1, 2, 4])
        elif k < 0.8 and len(reqs) < 12:
            reqs.append(list(rng.choice(reqs)))
        elif c["comp"] == "pooled":
            c["pool"] = rng.choice([1, 2, 3])
        elif c["comp"] == "reneging":
            if rng.random() < 0.5:
                c["limit"] = rng.choice([1, 2, 3])
            else:
                c["rtarget"] = not c.get("rtarget", True)
        elif c["comp"] == "gate":
            c["init_open"] = not c["init_open"]
    return normalise(c)


_NS = "HappyModel.C08.Indus."
THEOREMS: list[str] = [_NS + n for n in [
    "judge_sound_in_service",            # judge accepts a transcript => in service <= limit after every prefix
    "judge_sound_done_once",             # judge accepts a transcript => no id reaches the sink twice
    "pooled_in_service_le_pool",         # model, both variants, all schedules
    "pooled_repaired_conservation",      # model, repaired: accepted = queued + handed over + in cycle + completed
    "pooled_repaired_handover_starts",   # model, repaired: the dequeued item always starts
    "pooled_current_overtakes",          # model, current: witness, accepted item rejected (lost = 1)
    "conveyor_in_transit_le_capacity",
    "gate_open_holds_nothing",           # open => queue empty; accepted = passed + queued
    "batch_conservation",                # accepted = buffered + in process + processed
    "batch_concurrent_batches_current",  # witness: two batches in process (known finding)
    "batch_repaired_full_batch_starts",
    "batch_current_size_one_waits",      # witness: current waits, repaired starts
    "reneging_start_iff_within_patience",
    "reneging_exactly_one_state",        # model, reneged_target set / None: accepted = waiting + dequeued + served + reneged; served = in service + completed
    "reneging_no_target_discards",       # model, reneged_target None: nothing is ever forwarded to a reneged sink
    "pooled_no_downstream_forwards_nothing",
    "judge_sound_served_xor_reneged",    # judge accepts a reneging transcript => reported served + reneged = deliveries of dequeued items so far
    "batch_partial_has_timer",           # model, both variants, all schedules: a non-empty buffer always has its flush timer armed for first arrival + timeout
    "batch_due_timeout_flushes",         # model: a due timeout with a non-empty buffer starts a batch of the whole buffer, whatever else is in process
    "judge_sound_batch_all_completed",   # judge accepts a finite batch transcript (timeout > 0, overlap or not) => every offered id reached the sink
    "judge_sound_batch_completed_or_buffered",   # any timeout (0 included): every offered id reached the sink or is in the final buffer
    "judge_sound_batch_overdue",         # overlap: no accepted transcript lets the clock pass the flush deadline of a waiting item
    "judge_sound_batch_overdue_idle",    # same with no batch in process instead of overlap
    "gate_repaired_close_inside_window_ignored",
    "gate_repaired_open_at_covered_instant",   # repaired model: at an instant inside some window the gate is open after that instant's schedule events in ANY order
    "gate_current_touching_unsorted_closes",   # witness: current code shut for a whole window when touching windows are listed out of order
    "judge_sound_gate_window_strand",          # judge accepts a clock advance over waiting items => no non-empty window meets that stretch
    "judge_sound_conveyor_conservation",       # judge accepts a conveyor observation => in_transit + transported + rejected = offered so far
    "judge_sound_no_strand_pooled_reneging",   # judge accepts a clock advance => not (waiting non-empty and in service < limit), nothing in transit / finished-undelivered
    "judge_sound_reneging_none_lost",          # accepted finite transcript => every accepted id reached the sink, the reneged sink, or (no reneged_target) was counted as reneged
    "judge_sound_reneging_fifo",               # accepted transcript => after every prefix the dequeued ids are an initial segment of the accepted ids, equal at the end
    "judge_sound_pooled_none_lost",            # accepted finite transcript (downstream set) => every id answered start / wait reached the sink
    "judge_sound_pooled_counters",             # accepted transcript => at every line available + active = pool size and active = in-service population computed from observations
]]
PARTIAL_THEOREMS = {
    _NS + "judge_sound_in_service": "soundness of the indus judge is proved, for all transcripts, for: concurrency limit and completed at most once (all five "
                                    "components); batch: no loss / no strand (judge_sound_batch_all_completed, judge_sound_batch_overdue); reneging: no loss, FIFO "
                                    "dequeue order, served xor reneged, no strand (judge_sound_reneging_none_lost, _fifo, judge_sound_served_xor_reneged, "
                                    "judge_sound_no_strand_pooled_reneging); pooled: no loss, counters, no strand (judge_sound_pooled_none_lost, _counters); gate: strand "
                                    "against the schedule; conveyor: conservation. Still only the judge's definition (evaluated on every implementation transcript, not "
                                    "derived from an observation-only statement): pooled start order of re-delivered items, gate / conveyor no-loss and order, the "
                                    "counter clauses of batch / gate / reneging, patience clauses of reneging (served-after-patience / reneged-within-patience)",
    _NS + "pooled_repaired_conservation": "counting form for the repaired PooledCycleResource model only; for the current code "
                                          "pooled_current_overtakes proves the negation on a concrete schedule",
}
TRUSTED_BASE = [
    "hv/props/c08_indus.py harness: wraps handle_event of the component under test (and, for RenegingQueuedResource, of its public "
    "queue entity and handle_queued_event) and the generators they return; sinks record deliveries; only public counters are printed",
    "indus: the internal event types `_GateOpen`, `_GateClose`, `_BatchTimeout` are recognised by their event_type string when they are delivered",
    "indus/reneging: the concurrency limit, `active` counter and service generator belong to a harness subclass of RenegingQueuedResource",
    "indus/gate: programmatic open()/close() are issued by a harness controller entity that schedules the events they return",
]
RULE = ("family indus: <=10 tagged items offered to one real PooledCycleResource / ConveyorBelt / GateController / BatchProcessor / "
        "RenegingQueuedResource inside a Simulation (0.25 s grid, bursts on one nanosecond, arrivals on completion instants, 0-3 "
        "zero-time forwarder hops, pool/capacity/batch sizes 1-4, gate schedules with touching / zero-length / coinciding windows (restriction G1: "
        "out-of-order and overlapping / nested / duplicated windows only once fixes/C08-indus-gate-overlapping-windows.diff is in), judged "
        "against the union of the windows, plus programmatic open()/close() "
        "from a controller entity, patience 0-2 s, default patience inf/0/.., reneged_target set / None, pooled downstream set / None, "
        "waiting rooms of capacity 0; impatient bursts: more same-instant items than slots with service > patience; batch `overlap` cases: "
        "process_time >= timeout_s > 0, partial batches opening while a full batch is in process with their flush timeout before / on / after its "
        "end, never topped up — judged with batches as independent services, one-batch limit unjudged there); restrictions R1-R3 "
        "(hv/props/c08_indus.py docstring) keep three reproduced defects out of the generated inputs; non-trivial = an item waited, was "
        "refused, reneged, shared the belt or a batch of >= 2 items was processed")
