"""Real-implementation runners shared by C14 and C15 (LSM tree / WAL inside a real Simulation).

A case describes worker scripts; every storage operation is a real generator of the real
component, run through `traced`, which logs one schedule entry per generator *segment*
(the code executed between two yields).  The log is the schedule fed to the Lean model.
"""
from __future__ import annotations

import itertools

from hv import core  # noqa: F401  (puts HV_REPO first on sys.path)

_FP_CACHE: dict = {}


class _Stop(Exception):
    pass


def fp_table(keys):
    """false positives of the real SSTable bloom filter for every subset of `keys`:
    list of (mask, key index) with key not in the subset but bloom.contains(key) true"""
    t = tuple(keys)
    if t in _FP_CACHE:
        return _FP_CACHE[t]
    from happysimulator.components.storage.sstable import SSTable

    out = []
    n = len(keys)
    for r in range(1, n + 1):
        for S in itertools.combinations(range(n), r):
            sst = SSTable([(keys[i], 0) for i in S])
            mask = sum(1 << i for i in S)
            for j in range(n):
                if j not in S and sst.contains(keys[j]):
                    out.append((mask, j))
    _FP_CACHE[t] = out
    return out


class Rec:
    def __init__(self, crash_at=None, max_segments=4000):
        self.sched = []          # op id per executed segment
        self.ops = {}            # opid -> [kind, args, begin, end, result]
        self.oracle = []         # recorded periodic should_sync answers
        self.crash_at = crash_at
        self.max_segments = max_segments
        self.synced_log = []
        self.sync_req = []       # (op id, segment index, answer) of every SyncPolicy.should_sync call


def sync_done_ops(rec):
    """ids of the writes whose WAL sync was seen to complete: the sync policy answered "sync now" inside one of the
    operation's segments and the operation executed a further segment (the code after the sync-latency yield)"""
    last = {}
    for i, opid in enumerate(rec.sched):
        last[opid] = i
    return {opid for opid, i, ans in rec.sync_req if ans and last.get(opid, -1) > i}


def traced(rec, opid, gen, entry):
    while True:
        if rec.crash_at is not None and len(rec.sched) == rec.crash_at:
            raise _Stop()
        if len(rec.sched) >= rec.max_segments:
            raise _Stop()
        if opid not in rec.ops:
            rec.ops[opid] = entry      # the operation exists once its first segment runs
        rec.sched.append(opid)
        try:
            d = next(gen)
        except StopIteration as e:
            return e.value
        yield d


def make_strategy(spec):
    from happysimulator.components.storage.lsm_tree import FIFOCompaction, LeveledCompaction, SizeTieredCompaction

    if spec[0] == "st":
        return SizeTieredCompaction(min_sstables=spec[1])
    if spec[0] == "lv":
        return LeveledCompaction(level_0_max=spec[1], size_ratio=spec[2], base_size_keys=spec[3])
    return FIFOCompaction(max_total_sstables=spec[1])


def make_policy(spec, rec):
    from happysimulator.components.storage.wal import SyncEveryWrite, SyncOnBatch, SyncPeriodic

    def note(r):
        # the policy is consulted from inside WriteAheadLog.append, i.e. inside a segment of the write that is
        # advancing right now (the last schedule entry)
        rec.sync_req.append((rec.sched[-1] if rec.sched else -1, len(rec.sched) - 1, bool(r)))
        return r

    class RecEvery(SyncEveryWrite):
        def should_sync(self, w, t):
            return note(super().should_sync(w, t))

    class RecBatch(SyncOnBatch):
        def should_sync(self, w, t):
            return note(super().should_sync(w, t))

    class RecPeriodic(SyncPeriodic):
        def should_sync(self, w, t):
            r = super().should_sync(w, t)
            rec.oracle.append(1 if r else 0)
            return note(r)

    if spec[0] == "every":
        return RecEvery()
    if spec[0] == "batch":
        return RecBatch(spec[1])
    return RecPeriodic(spec[1] * 1e-6)


FOREIGN = 999999999


def vtok(v):
    """canonical transcript token of a value an implementation returned: `-` for None, the number for a plain
    non-negative int below FOREIGN (every value a workload writes is one), and the reserved code FOREIGN for
    anything else (an object nobody wrote, e.g. a copied tombstone sentinel, a wrapped / stringified value) — the
    judge then sees a value that was never written and reports it under the property's own clauses"""
    if v is None:
        return "-"
    if type(v) is int and 0 <= v < FOREIGN:
        return str(v)
    return str(FOREIGN)


def cell(v, tomb):
    return "-" if (v is None or v is tomb) else vtok(v)


def run_lsm(case, crash_at=None):
    """-> (rec, lsm, wal, ops_in_order)"""
    from happysimulator.components.storage import lsm_tree as L
    from happysimulator.components.storage.wal import WriteAheadLog
    from happysimulator.core.entity import Entity
    from happysimulator.core.event import Event
    from happysimulator.core.simulation import Simulation
    from happysimulator.core.temporal import Instant

    keys = case["keys"]
    rec = Rec(crash_at=crash_at)
    lat = case.get("lat", {})
    wal = None
    if case.get("wal"):
        wal = WriteAheadLog("wal", sync_policy=make_policy(case["wal"], rec),
                            write_latency=lat.get("ww", 100) * 1e-6, sync_latency=lat.get("ws", 1000) * 1e-6)
    lsm = L.LSMTree("lsm", memtable_size=case["mem"], compaction_strategy=make_strategy(case["strategy"]),
                    wal=wal, sstable_read_latency=lat.get("r", 1000) * 1e-6,
                    sstable_write_latency=lat.get("w", 2000) * 1e-6, max_levels=case["levels"])

    class Worker(Entity):
        def __init__(self, wid, ops):
            super().__init__(f"w{wid}")
            self.wid, self.ops_ = wid, ops

        def handle_event(self, event):
            for j, op in enumerate(self.ops_):
                if op[0] == "sleep":
                    yield op[1] * 1e-6
                    continue
                opid = self.wid * 100 + j
                if op[0] == "put":
                    g = lsm.put(keys[op[1]], op[2])
                elif op[0] == "del":
                    g = lsm.delete(keys[op[1]])
                elif op[0] == "get":
                    g = lsm.get(keys[op[1]])
                else:
                    g = lsm.scan(keys[op[1]], keys[op[2]] if op[2] < len(keys) else "~")
                b = len(rec.sched)
                seq = (wal.stats.writes + 1) if (wal is not None and op[0] in ("put", "del")) else 0
                entry = [op, b, None, None, seq]
                res = yield from traced(rec, opid, g, entry)
                entry[2] = len(rec.sched) - 1
                if op[0] == "get":
                    entry[3] = vtok(res)
                elif op[0] == "scan":
                    entry[3] = ",".join(f"{keys.index(k)}={vtok(v)}" for k, v in res) or "."
                else:
                    entry[3] = "ok"

    workers = [Worker(i, w["ops"]) for i, w in enumerate(case["workers"])]
    ents = [lsm] + ([wal] if wal else []) + workers
    sim = Simulation(start_time=Instant.from_seconds(0), end_time=Instant.from_seconds(1000), entities=ents)
    sim.schedule([Event(time=Instant.from_seconds(w["start"] * 1e-6), event_type="go", target=workers[i])
                  for i, w in enumerate(case["workers"])])
    try:
        sim.run()
    except _Stop:
        pass
    return rec, lsm, wal


def phase_ops(case):
    """[(op id, op)] of a multi-crash case; op id = 1000·phase + 100·worker + index"""
    out = []
    for p, ph in enumerate(case["phases"]):
        for w, wk in enumerate(ph["workers"]):
            for j, op in enumerate(wk["ops"]):
                if op[0] != "sleep":
                    out.append((p * 1000 + w * 100 + j, op))
    return out


def run_phases(case, on_crash):
    """multi-crash run: one LSMTree + WriteAheadLog, one Simulation per phase (the operations in flight at a crash
    are abandoned with their simulation); phase p stops when `crash` segments of it have executed (None: runs to the
    end), then `on_crash(p, rec, lsm, wal, first)` performs crash()/recover and records what it needs (`first` =
    global index of the phase's first segment).  One Rec with a global segment index for the whole case."""
    from happysimulator.components.storage import lsm_tree as L
    from happysimulator.components.storage.wal import WriteAheadLog
    from happysimulator.core.entity import Entity
    from happysimulator.core.event import Event
    from happysimulator.core.simulation import Simulation
    from happysimulator.core.temporal import Instant

    keys = case["keys"]
    rec = Rec(max_segments=8000)
    lat = case.get("lat", {})
    wal = WriteAheadLog("wal", sync_policy=make_policy(case["wal"], rec),
                        write_latency=lat.get("ww", 100) * 1e-6, sync_latency=lat.get("ws", 1000) * 1e-6)
    lsm = L.LSMTree("lsm", memtable_size=case["mem"], compaction_strategy=make_strategy(case["strategy"]),
                    wal=wal, sstable_read_latency=lat.get("r", 1000) * 1e-6,
                    sstable_write_latency=lat.get("w", 2000) * 1e-6, max_levels=case["levels"])

    class Worker(Entity):
        def __init__(self, base, ops):
            super().__init__(f"w{base}")
            self.base, self.ops_ = base, ops

        def handle_event(self, event):
            for j, op in enumerate(self.ops_):
                if op[0] == "sleep":
                    yield op[1] * 1e-6
                    continue
                opid = self.base + j
                if op[0] == "put":
                    g = lsm.put(keys[op[1]], op[2])
                elif op[0] == "del":
                    g = lsm.delete(keys[op[1]])
                elif op[0] == "get":
                    g = lsm.get(keys[op[1]])
                else:
                    g = lsm.scan(keys[op[1]], keys[op[2]] if op[2] < len(keys) else "~")
                seq = (wal.stats.writes + 1) if op[0] in ("put", "del") else 0
                entry = [op, len(rec.sched), None, None, seq]
                res = yield from traced(rec, opid, g, entry)
                entry[2] = len(rec.sched) - 1
                if op[0] == "get":
                    entry[3] = vtok(res)
                elif op[0] == "scan":
                    entry[3] = ",".join(f"{keys.index(k)}={vtok(v)}" for k, v in res) or "."
                else:
                    entry[3] = "ok"

    bounds = []
    for p, ph in enumerate(case["phases"]):
        first = len(rec.sched)
        rec.crash_at = None if ph.get("crash") is None else first + ph["crash"]
        t0 = 100.0 * p
        workers = [Worker(p * 1000 + i * 100, w["ops"]) for i, w in enumerate(ph["workers"])]
        sim = Simulation(start_time=Instant.from_seconds(t0), end_time=Instant.from_seconds(t0 + 50.0),
                         entities=[lsm, wal] + workers)
        sim.schedule([Event(time=Instant.from_seconds(t0 + w["start"] * 1e-6), event_type="go", target=workers[i])
                      for i, w in enumerate(ph["workers"])])
        try:
            sim.run()
        except _Stop:
            pass
        bounds.append((first, len(rec.sched)))
        on_crash(p, rec, lsm, wal, first)
    return rec, bounds


def op_lines(rec):
    out = []
    for opid in sorted(rec.ops):
        op, b, e, r = rec.ops[opid][:4]
        out.append(f"op {opid} {b} {'x' if e is None else e} {'x' if r is None else r}")
    return out


def final_lines(case, lsm):
    keys = case["keys"]
    vals = []
    for k in keys:
        v = lsm.get_sync(k)
        vals.append(vtok(v))
    summ = {d["level"]: (d["sstables"], d["total_keys"]) for d in lsm.level_summary}
    lv = " ".join(f"{summ.get(i, (0, 0))[0]}:{summ.get(i, (0, 0))[1]}" for i in range(case["levels"]))
    return [f"final {' '.join(vals)}", f"levels {lv}"]
