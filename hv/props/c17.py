"""C17 — replication: acknowledged writes are where the mode promises, replicas converge.

Correspondence (DESIGN §4 "message-passing protocols"): the real `PrimaryNode`/`BackupNode`,
`ChainNode` and `LeaderNode` objects run inside the real `Simulation` with a real `Network` whose
links draw every per-message latency from a list chosen by the generator (so replication messages
for one key overtake each other).  Thin tracing subclasses (only `handle_event` is wrapped, nothing
is re-implemented) record every delivery: which handler was started by which event, which handler
generator was resumed, every reply that reached a client future, and every replica's store after
every delivery.  That recorded sequence of deliveries *is* the schedule replayed through the Lean
model (`HappyModel/C17`), which derives payloads, replies and stores on its own; the two transcripts
are diffed line by line, and the Lean Spec predicates (`HappyModel/C17/Spec.lean`) judge the
implementation's own transcript.

Every store has its own write latency (`wlats`: one slow disk on a middle chain node / a backup / a
leader makes "acknowledged before applied" visible at the instant of the reply).  Multi-leader runs
use every resolver of `conflict_resolver.py`; the merging ones (`VectorClockMerge(merge_fn)`,
`CustomResolver` with set-union or max) are modelled by `HappyModel/C17/MLM.lean`, and their
convergence clause is judged once anti-entropy has run (`Spec.gossipComplete`).
"""
from __future__ import annotations

import atexit
import hashlib
import json
import os
import random
import re
import shutil
import tempfile
from pathlib import Path

from hv import core

# import the library once in the parent, so that fork-pool workers do not each pay for it
# inside a case's time budget
import happysimulator  # noqa: E402,F401
import happysimulator.components.replication.chain_replication  # noqa: E402,F401
import happysimulator.components.replication.multi_leader  # noqa: E402,F401
import happysimulator.components.replication.primary_backup  # noqa: E402,F401

MS = 1_000_000  # ns


# --------------------------------------------------------------------------- tracing


class Trace:
    """Delivery log shared by all traced nodes of one run."""

    def __init__(self):
        self.lines = []
        self.npid = 0
        self.nmid = 0
        self.live = 0
        self.delivered = 0
        self.futs = []          # (op, SimFuture, formatter)
        self.state_fn = None    # () -> str
        self.echo_fn = None     # (node_idx, event) -> str | None
        self.last_dst = None
        self.steps = 0

    def after(self):
        keep = []
        for op, fut, fmt in self.futs:
            if fut.is_resolved:
                self.lines.append(f"reply {op} {fmt(fut.value)}")
            else:
                keep.append((op, fut, fmt))
        self.futs = keep
        self.lines.append(self.state_fn())
        self.steps += 1
        if self.steps > 5000:
            raise RuntimeError("delivery watchdog")

    def wrap(self, node_idx, event, gen):
        pid = self.npid
        self.npid += 1
        self.live += 1
        tr = self

        def g():
            seg = 0
            val = None
            while True:
                if seg == 0:
                    echo = tr.echo_fn(node_idx, event)
                    pos = len(tr.lines)
                    if echo is not None:
                        tr.lines.append(echo)
                else:
                    tr.lines.append(f"r {pid} {seg}")
                try:
                    y = gen.send(val)
                except StopIteration as e:
                    if seg == 0 and echo is None:
                        tr.lines.insert(pos, tr.late_echo(node_idx, event))
                    tr.live -= 1
                    tr.after()
                    return e.value
                if seg == 0 and echo is None:
                    tr.lines.insert(pos, tr.late_echo(node_idx, event))
                tr.after()
                seg += 1
                val = yield y

        return g()

    def late_echo(self, node_idx, event):
        return f"ae {node_idx} {self.last_dst}"


def traced(cls, tr, idx):
    """subclass of a real node class whose handle_event is logged; everything else is the real code"""

    class T(cls):
        def handle_event(self, event):
            return tr.wrap(self._hv_idx, event, super().handle_event(event))

    T.__name__ = "Traced" + cls.__name__
    T._hv_idx = idx
    return T


def make_network(tr, lats_ns):
    from happysimulator import Network
    from happysimulator.components.network.link import NetworkLink
    from happysimulator.core.temporal import Duration
    from happysimulator.distributions.latency_distribution import LatencyDistribution

    class Scripted(LatencyDistribution):
        def __init__(self, lats):
            super().__init__(0.0)
            self.lats = list(lats) or [MS]
            self.i = 0

        def get_latency(self, current_time):
            v = self.lats[self.i % len(self.lats)]
            self.i += 1
            return Duration(v)

    class TNetwork(Network):
        def send(self, source, destination, event_type, payload=None, daemon=False):
            ev = super().send(source, destination, event_type, payload, daemon)
            ev.context["metadata"]["_mid"] = tr.nmid
            tr.nmid += 1
            tr.last_dst = getattr(destination, "_hv_idx", None)
            return ev

    net = TNetwork(name="net")
    dist = Scripted(lats_ns)

    def link(a, b):
        net.add_link(a, b, NetworkLink(name=f"l_{a.name}_{b.name}", latency=dist))

    return net, link


def kname(k):
    return f"k{k}"


def kidx(key):
    return int(key[1:]) if isinstance(key, str) and key.startswith("k") else "?"


def show_store(store, nk):
    xs = []
    for k in range(nk):
        if store.contains(kname(k)):
            xs.append(f"{k}:{store.get_sync(kname(k))}")
    return ",".join(xs) if xs else "-"


def dash(x):
    return "-" if x is None else x


def node_wlat(case, i):
    """write latency (ns) of node i's store: `wlats` (one entry per node) or the uniform `wlat`"""
    ws = case.get("wlats")
    if ws:
        return ws[i % len(ws)]
    return case["wlat"]


def gen_wlats(rng, n, slow_ok):
    """per-node store write latencies: uniform, or one node (a middle one where `slow_ok` says so)
    far slower than any network path (a slow disk), or independent small ones"""
    base = rng.choice([0, 1000, MS, MS, 5 * MS])
    style = rng.random()
    if style < 0.45 or n < 2:
        return [base] * n
    if style < 0.85:
        ws = [rng.choice([0, 1000, MS]) for _ in range(n)]
        ws[rng.choice(slow_ok)] = rng.choice([60 * MS, 150 * MS, 300 * MS, 300 * MS + 1])
        return ws
    return [rng.choice([0, 1, 1000, MS, 5 * MS, 20 * MS]) for _ in range(n)]


def generic_echo(md, node_idx, event):
    """action line for a delivery, from the event itself"""
    if "_op" in md:
        if event.event_type == "Write":
            return f"cw {md['_op']} {node_idx} {kidx(md.get('key'))} {md.get('value')}"
        return f"cr {md['_op']} {node_idx} {kidx(md.get('key'))}"
    return None


# --------------------------------------------------------------------------- property


class C17(core.Property):
    id = "C17"
    driver = "drv-c17"
    lake_targets = ["HappyProofs.C17.Props", "drv-c17"]
    audit_imports = ["HappyProofs.C17.Props"]
    lean_files = ["HappyModel/C17/*.lean", "HappyProofs/C17/*.lean", "HappyModel/Proto.lean", "Driver/C17.lean"]
    theorems = []
    variants = ["repaired", "current"]
    quick_cases = 2400
    thorough_cases = 30000
    case_timeout_s = 20
    rule = ("families pb / chain / ml in rotation: 1-8 client ops (16 in thorough) on 1-3 keys, write values unique per run or "
            "(pb, chain: one case in three) drawn from a palette of 2-3 values so that a key sees v, w, v again; multi-leader "
            "topologies mesh / star (leader 0 hub) / line (leaders with different peer sets), spokes and ends writing more; "
            "op times clustered inside one store/network latency; 0-3 backups x ASYNC/SEMI_SYNC/SYNC, chains of 2-4 nodes with "
            "and without CRAQ, 2-4 leaders with every resolver of conflict_resolver.py (LastWriterWins, VectorClockMerge with and "
            "without merge_fn, CustomResolver; merging ones with set-union and max joins, so the merge differs from both inputs), "
            "0-3 anti-entropy ticks among the writes and 0-6 anti-entropy rounds after them (all leaders at one instant, staggered, "
            "or one leader); per-node store write latencies uniform, independent, or one slow disk (60-300 ms, on a middle chain "
            "node / a backup / a leader) slower than any network path; every network latency drawn from a generated list "
            "(1 ns .. 50 ms) so replication messages overtake each other; a case is non-trivial when it has >= 2 writes and at "
            "least one delivered network message; distinct = distinct case content")
    trusted_base = [
        "hv/props/c17.py: tracing subclasses (handle_event wrapped only), scripted LatencyDistribution, Network.send id stamping",
        "schedule hand-over: the model replays the delivery sequence recorded from the implementation run of the same case",
        "KVStore.contains/get_sync, BackupNode.last_applied_seq, ChainNode.dirty_keys, LeaderNode.versions (public API) for snapshots",
        "Merkle root-hash equality is modelled as equality of the hashed key->value maps (no SHA-256 collision)",
        "CPython dict insertion order (LeaderNode._versions iteration order is modelled as an insertion-ordered list)",
        "hv/props/c17.py ml_resolver: the merge functions handed to VectorClockMerge / CustomResolver (joined value, later "
        "timestamp, greater writer id, pointwise-max clock) are harness code; MLM.joinVer is their model; a set of items is shown "
        "as its bit mask",
    ]
    assumptions = [
        "'applied at replica r' for an acknowledged write w of key k = r holds for k the value of w or of a write to k accepted later",
        "all puts of one KVStore land in the order they were started (constant write latency per store + engine time order, C01): "
        "the model rejects schedules that resume primary/head puts out of FIFO order",
        "multi-leader timestamps are the simulated clock; network latencies are >= 1 ns, so causally later versions carry later timestamps",
        "ReplicatedStore (sequential same-order puts to every replica, no messages) is not modelled",
        "with a value palette (repeated values) a value no longer identifies its write: the ack / read clauses then accept the value "
        "of any later write carrying the same value (weaker, still sound); the convergence clause is unaffected",
        "star / line topologies (MLT model, correspondence checked for every resolver): the convergence clause is judged for "
        "resolvers that return one of their inputs when the run is quiescent and Spec.gossipComplete holds; for merging "
        "resolvers off the mesh no convergence claim is made (dominance drops items, the merge is not associative across partial "
        "views); run-level convergence theorems are for the mesh (ML, MLM)",
        "merging resolvers: 'anti-entropy having run' is read as Spec.gossipComplete — after the last client-write / Replicate "
        "handler step, the AntiEntropyRequests alone (sender state at the tick, merged when the receiver's handler finishes) carry "
        "every leader's state to every leader; the convergence clause of a merging-resolver run is judged only then (delivering all "
        "Replicates is not enough: mlm_replicate_order_matters); for resolvers that return one of their inputs it is judged at "
        "every quiescent end, anti-entropy or not",
    ]
    hypotheses = [
        "ML.Coherent (per key, on the versions stamped by the run, ML.created): vector-clock dominance implies (timestamp, writer, own counter) "
        "order; same writer + same timestamp implies causally ordered — hypothesis of ml_quiescent_convergence; derived from ML.schedOK "
        "(clock readings never decrease; a leader stamps a write strictly after the timestamps of the versions it has received in Replicate "
        "messages, i.e. positive network latency) in ml_coherent_of_positive_latency",
        "chain: 2 <= n (build_chain's own precondition)",
        "mlm_run_gossip_complete_converges: quiescentB and MLM.KComplete of MLM.krun (no hypothesis on timestamps, values or "
        "schedules); ml_judge_convergence_silent: ML.schedOK; *_judge_convergence_silent: hfin (last step shows the model's "
        "stores) and, for the merging clause, hlog (the judge's reading of the log implies the model's knowledge computation)",
        "mlt_gossip_complete_converges / mlt_quiescent_gossip_complete_converges (any peer topology adj, resolver returning one of "
        "its inputs): ML.Coherent on the versions stamped by the run (MLT.created) and MLM.KComplete of MLT.krun; quiescence is "
        "not used; mlt_judge_convergence_silent additionally hfin and hlog",
        "mlm_concurrent_merge_order_independent: MLM.AllConcurrent (each merged version neither dominates nor is dominated by "
        "what was merged before it); mlm_gossip_complete_converges: MLM.EvOK (ticks come from leaders, stray values are below the "
        "join of all) and MLM.Complete (every leader knows every leader)",
    ]
    partial_theorems = {
        "HappyModel.C17.ml_quiescent_convergence_positive_latency": "full at run level for the modelled system: for every action list "
            "(any order / duplication of Replicate and anti-entropy messages, any anti-entropy traffic) with a non-decreasing clock and "
            "positive Replicate latency (ML.schedOK: every client write at a leader is stamped strictly after the timestamps of all versions "
            "delivered to that leader in Replicate messages before it; 60/60 schedules recorded from the real implementation satisfy it), at quiescence all leaders hold the same version and value of every key, the greatest "
            "written one (ml_quiescent_holds_max); coherence of the written versions is derived (ml_coherent_of_positive_latency), and "
            "ml_quiescent_convergence states the same under the bare ML.Coherent hypothesis, which cannot be dropped "
            "(ml_convergence_needs_coherence: decided 3-leader witness with a clock read backwards). Modelling limit, not a proof gap: the "
            "model never loses a message, so quiescence alone already means every leader has processed every Replicate and anti-entropy only "
            "re-delivers versions; convergence *through* anti-entropy after lost Replicates (network partitions) is outside the model and is "
            "covered by the correspondence runs only as far as the harness generates it. The strict inequality of ML.schedOK cannot "
            "be weakened to what the engine guarantees (time never goes backwards): ml_positive_latency_needed is a decided "
            "quiescent run with a monotone clock (zero link and store latency, all stamps equal) whose leaders end on 9 | 8 | 8; "
            "the same tie arises on the real code at simulated times >= 2^23 s, where Instant.to_seconds() no longer resolves "
            "nanoseconds (fixes/C17-multileader-causal-timestamp.*)",
        "HappyModel.C17.mlt_quiescent_gossip_complete_converges": "full at run level for every peer topology (mesh, star, line, any adj, "
            "symmetric or not) and every action list: complete knowledge after the last write/Replicate handler step => all leaders "
            "hold the same version and value (composition of MLT.run_all [TInv, AuxInv, SubInv], MLT.krun_split and "
            "MLT.phase2_converges). Carried as a hypothesis: ML.Coherent of the stamped versions — for the mesh model ML it is derived "
            "from positive latency (ml_coherent_of_positive_latency); that derivation (MLClock/MLSched) is not ported to MLT. Merging "
            "resolvers off the mesh: no theorem and no judged clause (the merge is not associative across partial views). The "
            "judge-reading hypotheses hfin / hlog of the *_judge_convergence_silent theorems remain hypotheses: the decimal print/parse "
            "round trip (Nat.repr / String.splitOn / String.toNat?) is not cheap in core Lean and was not attempted",
        "HappyModel.C17.mlm_judge_convergence_silent": "the run-level theorem is full: mlm_run_gossip_complete_converges — every MLM "
            "action list that is quiescent and whose anti-entropy requests after the last write/Replicate handler step make the "
            "knowledge complete (MLM.krun / KComplete) ends with all stores equal, no hypothesis on timestamps (composition of "
            "run_inv, run_aux, run_subInv, replQuiescent_of_run, replQuiescent_clocks_agree and phase2_converges). What is carried as "
            "a hypothesis (hlog) in the judge-silence theorem is that Spec.gossipComplete, which reads the *printed* delivery log, "
            "implies KComplete, which reads the action list: the same computation on two representations; proving it needs the "
            "decimal print/parse round trip of the driver. It is cross-checked on every run of the check (extra_checks: 240 merging "
            "runs in quick, 1500 in thorough, judge-gossip vs ml-kcomplete must agree, a mismatch is exit 2). Likewise "
            "ml_judge_convergence_silent and mlm_judge_convergence_silent take 'the last S line parses to storeOf of the model "
            "stores' as the hypothesis hfin",
    }

    def __init__(self):
        self._memo = {}
        # schedule hand-over from the fork-pool workers (run_impl) to the parent (model_block):
        # one directory per check process, removed at exit; entries are consumed when read
        self._main_pid = os.getpid()
        self._cache_dir = Path(tempfile.gettempdir()) / f"hv-c17-{os.getuid()}-{self._main_pid}"
        atexit.register(self._cleanup)

    def _cleanup(self):
        if os.getpid() == self._main_pid:
            shutil.rmtree(self._cache_dir, ignore_errors=True)

    # ------------------------------------------------------------------ generation
    def generate(self, rng, i, tier):
        return (self.gen_pb, self.gen_chain, self.gen_ml)[i % 3](rng, tier)

    @staticmethod
    def gen_lats(rng, n):
        style = rng.random()
        if style < 0.15:
            return [MS] * 2                                   # constant: no reordering
        if style < 0.6:
            pool = [1_000, 200_000, MS, 3 * MS, 9 * MS, 27 * MS]
        else:
            pool = [1, 2, 500_000, MS, MS + 1, 2 * MS, 50 * MS]
        return [rng.choice(pool) for _ in range(n)]

    def gen_ops(self, rng, nw, nk, nodes_w, nodes_r, p_read=0.3, palette=None):
        """client ops at times that cluster (several writes inside one store/network latency); values are
        unique per run, or (`palette`) drawn from a few values so that one key sees v, w, v again"""
        ops, t = [], MS
        val = 1
        for _ in range(nw):
            gap = rng.choice([0, 1, 1000, 300_000, MS, MS, 4 * MS, 40 * MS])
            t += gap
            if rng.random() < p_read and nodes_r:
                ops.append([t, "r", rng.choice(nodes_r), rng.randrange(nk)])
            else:
                ops.append([t, "w", rng.choice(nodes_w), rng.randrange(nk), rng.choice(palette) if palette else val])
                val += 1
        return ops

    def gen_pb(self, rng, tier):
        nb = rng.choice([0, 1, 1, 2, 2, 3])
        nk = rng.choice([1, 1, 2, 3])
        nw = rng.choice([1, 2, 3, 4, 6, 8] + ([12, 16] if tier == "thorough" else []))
        # value palette: unique values, or two / three values that repeat (A-B-A on one key)
        palette = rng.choice([None, None, None, [1, 2], [1, 2], [1, 2, 3]])
        if palette:
            nk = rng.choice([1, 1, 2])
            nw = max(nw, 3)
        ops = self.gen_ops(rng, nw, nk, [0], list(range(nb + 1)), palette=palette)
        # a late read on every node so that the final values are also observed through the API
        # node 0 is the primary; a slow disk is put on a backup
        wlats = gen_wlats(rng, nb + 1, list(range(1, nb + 1)) or [0])
        return {"family": "pb", "mode": rng.choice(["async", "semi", "sync", "sync"]), "nb": nb, "nk": nk,
                "wlat": wlats[0], "wlats": wlats, "rlat": rng.choice([1000, MS]),
                "ops": ops, "lats": self.gen_lats(rng, 4 * nw * max(nb, 1))}

    def gen_chain(self, rng, tier):
        n = rng.choice([2, 2, 3, 3, 4])
        nk = rng.choice([1, 1, 2, 3])
        craq = rng.random() < 0.6
        nw = rng.choice([1, 2, 3, 4, 6, 8] + ([12, 16] if tier == "thorough" else []))
        wnodes = [0] * 12 + list(range(1, n))           # a few writes at non-head nodes (rejected)
        palette = rng.choice([None, None, None, [1, 2], [1, 2, 3]])
        if palette:
            nk = rng.choice([1, 1, 2])
            nw = max(nw, 3)
        ops = self.gen_ops(rng, nw, nk, wnodes, list(range(n)), p_read=0.4 if craq else 0.25, palette=palette)
        # heterogeneous stores: the slow disk sits on a middle node when there is one, else on the tail
        wlats = gen_wlats(rng, n, list(range(1, n - 1)) or [n - 1])
        return {"family": "chain", "n": n, "craq": craq, "nk": nk,
                "wlat": wlats[0], "wlats": wlats, "rlat": rng.choice([0, 1000, MS, 3 * MS]),
                "ops": ops, "lats": self.gen_lats(rng, 6 * nw * n)}

    ML_RESOLVERS = ["lww", "vcm", "clww", "vcm-union", "custom-union", "vcm-max", "custom-max"]

    def gen_ml(self, rng, tier):
        n = rng.choice([2, 2, 3, 3, 4])
        nk = rng.choice([1, 1, 2, 3])
        nw = rng.choice([1, 2, 3, 4, 6, 8] + ([12, 16] if tier == "thorough" else []))
        # peer topology: full mesh, or star (leader 0 is the hub) / line, where leaders have different
        # peer sets (their vector-clock snapshots carry different id sets) and non-adjacent leaders
        # learn each other's writes through anti-entropy only
        topo = rng.choice(["mesh", "mesh", "mesh", "star", "star", "line"]) if n >= 3 else "mesh"
        if topo != "mesh":
            nk = rng.choice([1, 1, 2])
            nw = max(nw, 2)
        wn = list(range(n)) if topo == "mesh" else list(range(n)) + list(range(1, n)) * 2    # spokes / ends write more
        ops = self.gen_ops(rng, nw, nk, wn, list(range(n)), p_read=0.15)
        # anti-entropy ticks: some in the middle of the writes, some after everything settled
        t_end = ops[-1][0]
        for _ in range(rng.choice([0, 1, 2, 3])):
            ops.append([rng.choice([rng.randrange(MS, t_end + 2 * MS), t_end + rng.choice([200, 400]) * MS]), "a", rng.randrange(n)])
        # "anti-entropy having run": rounds well after the last write has been replicated; in a round
        # every leader ticks at the same instant (requests cross), or slightly apart (exchanges
        # overlap), or a single leader ticks.  Peers are the node's own random.choice.
        t = t_end + 1000 * MS
        for _ in range(rng.choice([0, 0, 1, 2, 3, 4, 6] if topo == "mesh" else [0, 2, 3, 4, 6, 8])):
            style = rng.random()
            if style < 0.45:
                for i in range(n):
                    ops.append([t, "a", i])
            elif style < 0.7:
                for i in rng.sample(range(n), n):
                    ops.append([t, "a", i])
                    t += rng.choice([1, 1000, MS, 20 * MS])
            else:
                ops.append([t, "a", rng.randrange(n)])
            t += 600 * MS
        ops.sort(key=lambda o: o[0])
        wlats = gen_wlats(rng, n, list(range(n)))
        return {"family": "ml", "n": n, "nk": nk, "topo": topo, "resolver": rng.choice(self.ML_RESOLVERS),
                "wlat": wlats[0], "wlats": wlats, "rlat": rng.choice([1000, MS]),
                "ops": ops, "lats": self.gen_lats(rng, 40), "rseed": rng.randrange(1000)}

    # ------------------------------------------------------------------ implementation
    def run_impl(self, case):
        out = getattr(self, "impl_" + case["family"])(case)
        self._remember(case, out)
        return out

    def _key(self, case):
        return hashlib.sha1(json.dumps(case, sort_keys=True).encode()).hexdigest()

    def _remember(self, case, out):
        k = self._key(case)
        self._memo[k] = out
        if len(self._memo) > 50000:
            self._memo.clear()
        if os.getpid() == self._main_pid:
            return
        try:
            self._cache_dir.mkdir(exist_ok=True)
            (self._cache_dir / k).write_text("\n".join(out))
        except OSError:
            pass

    def _impl_transcript(self, case):
        """the implementation transcript of `case` (schedule source for the model)"""
        k = self._key(case)
        if k in self._memo:
            return self._memo[k]
        f = self._cache_dir / k
        try:
            out = f.read_text().split("\n")
            f.unlink()
            self._memo[k] = out
            return out
        except OSError:
            pass
        return core.run_impl_safe(self, case)

    def _schedule_ops(self, case, sim, nodes, tr, fmt_w, fmt_r):
        from happysimulator import Event, Instant, SimFuture

        for op, o in enumerate(case["ops"]):
            fut = SimFuture()
            if o[1] == "a":
                sim.schedule(Event(time=Instant(o[0]), event_type="AntiEntropy", target=nodes[o[2]], daemon=False))
                continue
            if o[1] == "w":
                md = {"key": kname(o[3]), "value": o[4], "reply_future": fut, "_op": op}
                ev = Event(time=Instant(o[0]), event_type="Write", target=nodes[o[2]], context={"metadata": md})
                tr.futs.append((op, fut, fmt_w))
            else:
                md = {"key": kname(o[3]), "reply_future": fut, "_op": op}
                ev = Event(time=Instant(o[0]), event_type="Read", target=nodes[o[2]], context={"metadata": md})
                tr.futs.append((op, fut, fmt_r))
            sim.schedule(ev)

    @staticmethod
    def _finish(tr, sim_ok):
        q = sim_ok and tr.live == 0 and tr.delivered == tr.nmid
        return tr.lines + [f"Q {1 if q else 0}"]

    def impl_pb(self, case):
        from happysimulator import Instant, Simulation
        from happysimulator.components.datastore import KVStore
        from happysimulator.components.replication.primary_backup import BackupNode, PrimaryNode, ReplicationMode

        random.seed(0)
        tr = Trace()
        nb, nk = case["nb"], case["nk"]
        net, link = make_network(tr, case["lats"])
        rl = case["rlat"] / 1e9
        stores = [KVStore(f"s{i}", write_latency=node_wlat(case, i) / 1e9, read_latency=rl) for i in range(nb + 1)]
        mode = {"async": ReplicationMode.ASYNC, "semi": ReplicationMode.SEMI_SYNC, "sync": ReplicationMode.SYNC}[case["mode"]]
        blist = []
        primary = traced(PrimaryNode, tr, 0)("n0", store=stores[0], backups=blist, network=net, mode=mode)
        backups = [traced(BackupNode, tr, b + 1)(f"n{b + 1}", store=stores[b + 1], network=net, primary=primary) for b in range(nb)]
        blist.extend(backups)
        nodes = [primary] + backups
        for b in backups:
            link(primary, b)
            link(b, primary)

        def echo(idx, event):
            md = event.context.get("metadata", {})
            g = generic_echo(md, idx, event)
            if g is not None:
                return g
            tr.delivered += 1
            k = md.get("key")
            return f"d {md.get('_mid')} {idx} {event.event_type} {dash(kidx(k) if k is not None else None)} {dash(md.get('value'))} {dash(md.get('seq'))}"

        def state():
            return ("S " + " | ".join(show_store(s, nk) for s in stores) + " ; last "
                    + " ".join(str(b.last_applied_seq) for b in backups)).rstrip() if backups else \
                   ("S " + show_store(stores[0], nk) + " ; last ")

        def fmt_w(v):
            return f"{v.get('status')} {v.get('seq')}"

        def fmt_r(v):
            s = f"val {dash(v.get('value'))}"
            if v.get("stale"):
                s += f" stale {v.get('seq')}"
            return s

        tr.echo_fn, tr.state_fn = echo, state
        sim = Simulation(start_time=Instant.Epoch, sources=[],
                         entities=nodes + [net] + stores)
        self._schedule_ops(case, sim, nodes, tr, fmt_w, fmt_r)
        sim.run()
        return self._finish(tr, True)

    def impl_chain(self, case):
        from happysimulator import Instant, Simulation
        from happysimulator.components.datastore import KVStore
        from happysimulator.components.replication.chain_replication import ChainNode, ChainNodeRole

        random.seed(0)
        tr = Trace()
        n, nk, craq = case["n"], case["nk"], case["craq"]
        net, link = make_network(tr, case["lats"])
        rl = case["rlat"] / 1e9
        stores = [KVStore(f"s{i}", write_latency=node_wlat(case, i) / 1e9, read_latency=rl) for i in range(n)]
        nodes = []
        for i in range(n):
            role = ChainNodeRole.HEAD if i == 0 else (ChainNodeRole.TAIL if i == n - 1 else ChainNodeRole.MIDDLE)
            nodes.append(traced(ChainNode, tr, i)(f"n{i}", store=stores[i], network=net, role=role, craq_enabled=craq))
        for i, nd in enumerate(nodes):          # the wiring of build_chain (public attributes)
            nd.head_node = nodes[0]
            if i > 0:
                nd.prev_node = nodes[i - 1]
            if i < n - 1:
                nd.next_node = nodes[i + 1]
        for a in nodes:
            for b in nodes:
                if a is not b:
                    link(a, b)

        def echo(idx, event):
            md = event.context.get("metadata", {})
            g = generic_echo(md, idx, event)
            if g is not None:
                return g
            tr.delivered += 1
            k = md.get("key")
            return f"d {md.get('_mid')} {idx} {event.event_type} {dash(kidx(k) if k is not None else None)} {dash(md.get('value'))} {dash(md.get('seq'))}"

        def dirty(nd):
            ks = sorted(kidx(k) for k in nd.dirty_keys)
            return ",".join(map(str, ks)) if ks else "-"

        def state():
            return "S " + " | ".join(show_store(s, nk) for s in stores) + " ; dirty " + " | ".join(dirty(nd) for nd in nodes)

        def fmt_w(v):
            return f"ok {v.get('seq')}" if v.get("status") == "ok" else "error"

        def fmt_r(v):
            return f"val {dash(v.get('value'))}"

        tr.echo_fn, tr.state_fn = echo, state
        sim = Simulation(start_time=Instant.Epoch, sources=[],
                         entities=nodes + [net] + stores)
        self._schedule_ops(case, sim, nodes, tr, fmt_w, fmt_r)
        sim.run()
        return self._finish(tr, True)

    @staticmethod
    def ml_kind(case):
        """model resolver of a case: lww (returns one of its inputs) | union | max (merging)"""
        r = case.get("resolver", "lww")
        return "union" if r.endswith("-union") else ("max" if r.endswith("-max") else "lww")

    @staticmethod
    def ml_peers(case, i):
        """peer indices of leader i, in add_peers order (MLT.mesh / star / line)"""
        n, topo = case["n"], case.get("topo", "mesh")
        if topo == "star":
            return [j for j in range(n) if j != 0] if i == 0 else [0]
        if topo == "line":
            return ([i - 1] if i > 0 else []) + ([i + 1] if i + 1 < n else [])
        return [j for j in range(n) if j != i]

    @staticmethod
    def ml_resolver(name):
        """every conflict resolver the library offers; the merging ones combine two concurrent versions
        into a third: joined value, later timestamp, greater writer id, pointwise-max vector clock"""
        from happysimulator.components.replication.conflict_resolver import (
            CustomResolver, LastWriterWins, VectorClockMerge, VersionedValue)

        def merged(a, b, value):
            va, vb = a.vector_clock or {}, b.vector_clock or {}
            return VersionedValue(value=value, timestamp=max(a.timestamp, b.timestamp),
                                  writer_id=max(a.writer_id, b.writer_id),
                                  vector_clock={k: max(va.get(k, 0), vb.get(k, 0)) for k in set(va) | set(vb)})

        def union(key, a, b):
            return merged(a, b, tuple(sorted(set(a.value) | set(b.value))))

        def vmax(key, a, b):
            return merged(a, b, max(a.value, b.value))

        def fold(fn):
            def resolve_all(key, versions):
                out = versions[0]
                for v in versions[1:]:
                    out = fn(key, out, v)
                return out
            return resolve_all

        if name == "lww":
            return LastWriterWins()
        if name == "vcm":
            return VectorClockMerge()
        if name == "clww":
            return CustomResolver(lambda key, vs: max(vs, key=lambda v: (v.timestamp, v.writer_id)))
        if name == "vcm-union":
            return VectorClockMerge(union)
        if name == "custom-union":
            return CustomResolver(fold(union))
        if name == "vcm-max":
            return VectorClockMerge(vmax)
        if name == "custom-max":
            return CustomResolver(fold(vmax))
        raise core.InfraError(f"unknown resolver {name}")

    def impl_ml(self, case):
        from happysimulator import Event, Instant, Simulation
        from happysimulator.components.datastore import KVStore
        from happysimulator.components.replication.multi_leader import LeaderNode

        random.seed(case.get("rseed", 0))       # LeaderNode picks its anti-entropy peer with random.choice
        tr = Trace()
        n, nk = case["n"], case["nk"]
        sets = self.ml_kind(case) == "union"
        # union resolvers: a write carries the one-item set (val,), shown as the bit mask of its items
        enc = (lambda v: (v,)) if sets else (lambda v: v)
        dec = (lambda x: sum(1 << i for i in x) if isinstance(x, tuple) else x) if sets else (lambda x: x)
        net, link = make_network(tr, case["lats"])
        rl = case["rlat"] / 1e9
        stores = [KVStore(f"s{i}", write_latency=node_wlat(case, i) / 1e9, read_latency=rl) for i in range(n)]
        nodes = [traced(LeaderNode, tr, i)(f"n{i}", store=stores[i], network=net,
                                          conflict_resolver=self.ml_resolver(case["resolver"]),
                                          anti_entropy_interval=100000.0) for i in range(n)]
        for i, a in enumerate(nodes):
            a.add_peers([nodes[j] for j in self.ml_peers(case, i)])
            for b in nodes:
                if a is not b:
                    link(a, b)

        def echo(idx, event):
            md = event.context.get("metadata", {})
            if "_op" in md:
                if event.event_type == "Write":
                    tr.lines.append(f"t {nodes[idx].now.nanoseconds}")
                    return f"cw {md['_op']} {idx} {kidx(md.get('key'))} {dec(md.get('value'))}"
                return generic_echo(md, idx, event)
            if event.event_type == "AntiEntropy":
                return None                         # peer known only after random.choice ran
            tr.delivered += 1
            k = md.get("key")
            v = md.get("value")
            return f"d {md.get('_mid')} {idx} {event.event_type} {dash(kidx(k) if k is not None else None)} {dash(dec(v) if v is not None else None)} -"

        def show(store):
            xs = []
            for k in range(nk):
                if store.contains(kname(k)):
                    xs.append(f"{k}:{dec(store.get_sync(kname(k)))}")
            return ",".join(xs) if xs else "-"

        def vers(nd):
            vs = nd.versions
            xs = []
            for k in range(nk):
                v = vs.get(kname(k))
                if v is not None:
                    vc = ".".join(str((v.vector_clock or {}).get(f"n{j}", 0)) for j in range(n))
                    xs.append(f"{k}={dec(v.value)}@{round(v.timestamp * 1e9)}/{v.writer_id[1:]}[{vc}]")
            return ",".join(xs) if xs else "-"

        def state():
            return "S " + " | ".join(show(s) for s in stores) + " ; V " + " | ".join(vers(nd) for nd in nodes)

        def fmt_w(v):
            return str(v.get("status"))

        def fmt_r(v):
            x = v.get("value")
            return f"val {dash(dec(x) if x is not None else None)}"

        tr.echo_fn, tr.state_fn = echo, state
        sim = Simulation(start_time=Instant.Epoch, sources=[],
                         entities=nodes + [net] + stores)
        # anti-entropy ticks are plain events to the node (what get_anti_entropy_event() builds)
        ops = [[o[0], o[1], o[2], o[3], enc(o[4])] if o[1] == "w" else o for o in case["ops"]]
        self._schedule_ops(dict(case, ops=ops), sim, nodes, tr, fmt_w, fmt_r)
        sim.run()
        return self._finish(tr, True)

    # ------------------------------------------------------------------ model / judge
    @staticmethod
    def _schedule(impl_out):
        """action lines of an implementation transcript, reduced to what the model may be told"""
        acts = []
        for line in impl_out:
            t = line.split()
            if not t:
                continue
            if t[0] in ("cw", "cr", "ae", "t"):
                acts.append(line)
            elif t[0] == "d":
                acts.append(f"d {t[1]}")
            elif t[0] == "r":
                acts.append(f"r {t[1]}")
        return acts

    def model_block(self, case, variant):
        impl = self._impl_transcript(case)
        body = self._schedule(impl)
        fam = case["family"]
        if fam == "pb":
            return (f"pb {variant} {case['mode']} {case['nb']} {case['nk']}", body)
        if fam == "chain":
            return (f"chain {variant} {case['n']} {1 if case['craq'] else 0} {case['nk']}", body)
        if fam == "ml":
            return (f"ml {variant} {case['n']} {case['nk']} {self.ml_kind(case)} {case.get('topo', 'mesh')}", body)
        raise core.InfraError(f"unknown family {fam}")

    def _after_timeout(self, case, impl_out):
        """A pool worker that hit the case timeout under machine load: `model_block` has already re-run
        the case serially in the parent to obtain the schedule.  If that run completed, it is the
        implementation's transcript (the run is deterministic); a genuine hang times out again and stays
        a disagreement.  (core.evaluate applies the same retry to the first few timeouts only.)"""
        if impl_out == ["IMPL-TIMEOUT"]:
            t = self._memo.get(self._key(case))
            if t and not t[0].startswith("IMPL-"):
                return t
        return impl_out

    @staticmethod
    def _mask_ts(case, lines):
        """cases flagged `ts_unjudged` run at simulated times where `Instant.to_seconds()` (a float) no
        longer resolves nanoseconds: the `@timestamp` of the `V` lines is then not compared (the model
        stamps exact nanoseconds); values, writers, clocks and every decision still are"""
        if not case.get("ts_unjudged"):
            return lines
        return [re.sub(r"@\d+/", "@_/", l) if l.startswith("S ") else l for l in lines]

    def compare_view(self, case, impl_out):
        return self._mask_ts(case, self._after_timeout(case, impl_out))

    def model_postprocess(self, case, out):
        return self._mask_ts(case, out)

    def judge_block(self, case, impl_out):
        impl_out = self._after_timeout(case, impl_out)
        if impl_out and impl_out[0].startswith("IMPL-"):
            return None
        fam = case["family"]
        if fam == "pb":
            return (f"judge-pb {case['mode']} {case['nb']}", list(impl_out))
        if fam == "chain":
            return (f"judge-chain {case['n']} {1 if case['craq'] else 0}", list(impl_out))
        if fam == "ml":
            return (f"judge-ml {case['n']} {0 if self.ml_kind(case) == 'lww' else 1} {1 if case.get('topo', 'mesh') == 'mesh' else 0}", list(impl_out))
        return None

    def extra_checks(self, ctx):
        """The theorem `mlm_run_gossip_complete_converges` reads "anti-entropy having run" off the model's
        action list (`MLM.krun` / `KComplete`), the judge reads it off the implementation's delivery log
        (`Spec.gossipComplete`); the two are not linked by a proof (print/parse round trip).  They are
        computed here for the same runs and must give the same answer — a mismatch is a defect of the
        framework, not of /repo, so it is reported as harness trouble."""
        rng = random.Random(ctx.seed * 7919 + 17)
        n_cases = 1500 if ctx.tier == "thorough" else 240
        blocks, cases = [], []
        for _ in range(n_cases):
            c = self.gen_ml(rng, ctx.tier)
            c["topo"] = "mesh"
            if self.ml_kind(c) == "lww":
                c["resolver"] = rng.choice(["vcm-union", "custom-union", "vcm-max", "custom-max"])
            out = core.run_impl_safe(self, c)
            if out and out[0].startswith("IMPL-"):
                continue
            cases.append(c)
            self._memo[self._key(c)] = out
            blocks.append((f"ml-kcomplete {c['n']} {c['nk']} {self.ml_kind(c)}", self._schedule(out)))
            blocks.append((f"judge-gossip {c['n']}", list(out)))
            blocks.append(self.model_block(c, self.variants[0]))
        outs = ctx.driver.run_blocks(blocks)
        complete = 0
        for i, c in enumerate(cases):
            m, j, t = outs[3 * i], outs[3 * i + 1], outs[3 * i + 2]
            mk = m[0].split() if m else []
            if t != self._memo.get(self._key(c)) or len(mk) < 4 or mk[3] != "false":
                continue        # model and implementation disagree on this run: the main loop's business
            if not j or mk[1] != j[0].split()[1]:
                raise core.InfraError(f"C17: Spec.gossipComplete and MLM.kcomplete differ on {json.dumps(c)}: {m} vs {j}")
            complete += mk[1] == "1"
        ctx.stats["gossip_judge_vs_model_cases"] = len(cases)
        ctx.stats["gossip_judge_vs_model_complete"] = complete
        return []

    def nontrivial_key(self, case, impl_out):
        nw = sum(1 for o in case["ops"] if o[1] == "w")
        if nw >= 2 and any(l.startswith("d ") for l in impl_out):
            return self._key(case)
        return None

    def shrink(self, case):
        ops = case["ops"]
        n = len(ops)
        step = max(1, n // 2)
        while step >= 1:
            for i in range(0, n, step):
                cand = dict(case)
                cand["ops"] = ops[:i] + ops[i + step:]
                if len(cand["ops"]) < n and cand["ops"]:
                    yield cand
            step //= 2
        if len(case["lats"]) > 1:
            for i in range(len(case["lats"])):
                cand = dict(case)
                cand["lats"] = case["lats"][:i] + case["lats"][i + 1:]
                yield cand
        ws = case.get("wlats")
        if ws and len(set(ws)) > 1:
            for i, w in enumerate(ws):
                if w != min(ws):
                    cand = dict(case)
                    cand["wlats"] = ws[:i] + [min(ws)] + ws[i + 1:]
                    yield cand

    def mutate(self, case, rng):
        c = json.loads(json.dumps(case))
        k = rng.random()
        if k < 0.15 and c.get("wlats"):
            c["wlats"][rng.randrange(len(c["wlats"]))] = rng.choice([0, 1000, MS, 20 * MS, 150 * MS, 300 * MS])
        elif k < 0.5 and c["lats"]:
            for _ in range(rng.randint(1, 3)):
                c["lats"][rng.randrange(len(c["lats"]))] = rng.choice([1, 1000, MS, 7 * MS, 60 * MS])
        elif k < 0.8 and len(c["ops"]) > 1:
            i = rng.randrange(1, len(c["ops"]))
            c["ops"][i][0] = c["ops"][i - 1][0] + rng.choice([0, 1, 1000, MS])
            c["ops"].sort(key=lambda o: o[0])
        else:
            rng.shuffle(c["lats"])
        return c


THEOREMS = [
    "HappyModel.C17.sync_ack_all_backups",
    "HappyModel.C17.semisync_ack_one_backup",
    "HappyModel.C17.pb_quiescent_convergence",
    "HappyModel.C17.backup_reorder_diverges",
    "HappyModel.C17.chain_ack_all_nodes",
    "HappyModel.C17.chain_read_committed",
    "HappyModel.C17.chain_quiescent_convergence",
    "HappyModel.C17.ml_install_is_merge",
    "HappyModel.C17.ml_merge_order_independent",
    "HappyModel.C17.ml_quiescent_holds_max",
    "HappyModel.C17.ml_quiescent_convergence",
    "HappyModel.C17.ml_coherent_of_distinct_stamps",
    "HappyModel.C17.ml_coherent_of_positive_latency",
    "HappyModel.C17.ml_quiescent_convergence_positive_latency",
    "HappyModel.C17.ml_convergence_needs_coherence",
    "HappyModel.C17.mlm_install_is_pick",
    "HappyModel.C17.mlm_pick_clock_is_max",
    "HappyModel.C17.mlm_merge_clock_order_independent",
    "HappyModel.C17.mlm_concurrent_merge_order_independent",
    "HappyModel.C17.mlm_same_clock_install_is_join",
    "HappyModel.C17.mlm_gossip_complete_converges",
    "HappyModel.C17.mlm_replicate_order_matters",
    "HappyModel.C17.mlm_quiescent_clocks_agree",
    "HappyModel.C17.mlm_quiescent_covers",
    "HappyModel.C17.mlm_run_gossip_complete_converges",
    "HappyModel.C17.mlm_judge_convergence_silent",
    "HappyModel.C17.ml_judge_convergence_silent",
    "HappyModel.C17.ml_positive_latency_needed",
    "HappyModel.C17.ml_dominates_asymm",
    "HappyModel.C17.ml_dominates_trans",
    "HappyModel.C17.mlt_disjoint_clocks_go_to_resolver",
    "HappyModel.C17.mlt_gossip_complete_converges",
    "HappyModel.C17.mlt_quiescent_gossip_complete_converges",
    "HappyModel.C17.mlt_judge_convergence_silent",
]
C17.theorems = THEOREMS
PROPERTY = C17()
