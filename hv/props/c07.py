"""C07 — no library component emits an event into the past or spins at a frozen clock.

Partial by nature (DESIGN §8 C07, §12): Lean carries what is logic — for the engine model of C01,
`HappyProofs/C07/Props.lean` proves that handlers which never stamp an event earlier than `now` never
make the engine discard anything, and that handlers which emit only strictly-future events cannot feed
an instant (deliveries at one clock value are bounded by what was pending when the clock got there).
Whether every *library component* is such a handler is decided by a monitored run of generated
scenarios of every component family (`hv/scenarios/`): the monitor wraps `EventHeap.push/pop` of the
real `Simulation` from outside and the Lean Spec (`HappyModel/C07/Spec.lean`) judges its trace.

The model side has no per-component model: the driver's `model` mode states the theorems' expectation
for a scenario summary (`past 0`, `timetravel 0`, `spin 0`), so any violation is also a disagreement.

One component's timer *is* modelled (`HappyModel/C07/Rearm.lean`, family `rearm-shift`): `ShiftedServer`'s
self-perpetuating `_ShiftChange` event over generated `ShiftSchedule`s whose boundaries come from the duration palette
(incl. values that lose a nanosecond in `Instant.from_seconds`).  The driver's `rearm` mode predicts every
`_ShiftChange` delivery (instant, capacity in force); Lean proves that the pre-fix timer re-arms at the same instant
forever at such a boundary and that the timer that exists handles every boundary once, in order, never in the past.

Two more timer idioms are modelled the same way (`HappyModel/C07/Timers.lean`, families `timer-tick` / `timer-manual`):
JobScheduler's periodic `_scheduler_tick` (every tick delivery, `now + int(interval*1e9)` apart) and CRDTStore with
gossip disabled (interval 0) receiving hand-made `GossipTick`s (exactly one delivery per manual tick).  The general
progress statement for handlers that emit at `now` with a decreasing rank is proved (`HappyProofs/C07/Ranked.lean`).

Scenario generation (`hv/scenarios/`): every family draws every constructor parameter and every policy / strategy
variant of its components (`python -m hv.scenarios.coverage` lists what is left), durations from a boundary palette
(`base.dur_ms`), sizes around the library's internal constants (`base.size_over`), light / overload / burst regimes;
families may define `gen_cfg_wide` (all variants in one run).
"""
from __future__ import annotations

import copy
import json
import random

from hv import core

MODEL_BACKED_ELSEWHERE = {
    "C08": "queues / servers / queue policies / QueueDriver",
    "C09": "Resource, sync primitives, ConnectionPool, Bulkhead",
    "C10": "rate limiter policies, RateLimitedEntity",
    "C11": "Raft", "C12": "Paxos family, leader election, distributed lock", "C13": "membership, phi detector",
    "C14": "LSM, B-tree, KV store, transactions", "C15": "WAL + LSM crash recovery",
    "C16": "caches / eviction policies / soft TTL", "C17": "replication",
    "C18": "logical clocks, CRDTs", "C19": "messaging, streaming", "C20": "sketches",
    "C06": "fault windows",
}
TRACE_MARK = "--- trace"
INFO_MARK = "--- info"


class C07(core.Property):
    id = "C07"
    driver = "drv-c07"
    lake_targets = ["HappyProofs.C07.Props", "drv-c07"]
    audit_imports = ["HappyProofs.C07.Props"]
    lean_files = ["HappyModel/C07/*.lean", "HappyProofs/C07/*.lean", "HappyModel/Proto.lean", "Driver/C07.lean",
                  "HappyModel/C01/Engine.lean", "HappyProofs/C01/Lemmas.lean", "HappyProofs/C01/Inv.lean"]
    theorems = [
        "HappyModel.C07.no_stale_pop",
        "HappyModel.C07.emitted_never_discarded",
        "HappyModel.C07.instant_budget",
        "HappyModel.C07.deliveries_at_instant_bounded",
        "HappyModel.C07.instant_does_not_feed_itself",
        "HappyModel.C07.judge_none_iff_holds",
        "HappyModel.C07.spin_witness_unbounded",
        "HappyModel.C07.Rearm.old_rearms_same_instant",
        "HappyModel.C07.Rearm.old_spins",
        "HappyModel.C07.Rearm.old_unbounded",
        "HappyModel.C07.Rearm.chain_length_le",
        "HappyModel.C07.Rearm.chain_not_past",
        "HappyModel.C07.Rearm.chain_indices",
        "HappyModel.C07.Rearm.chain_exact",
        "HappyModel.C07.deliveries_at_instant_ranked_bound",
        "HappyModel.C07.finite_per_instant_ranked_holds",
        "HappyModel.C07.rank_hypothesis_needed",
        "HappyModel.C07.Timers.tick_progress",
        "HappyModel.C07.Timers.tickChain_get",
        "HappyModel.C07.Timers.guarded_tick_at_most_once_per_instant",
        "HappyModel.C07.Timers.tick_zero_spins",
        "HappyModel.C07.Timers.tick_zero_unbounded",
        "HappyModel.C07.Timers.disabled_manual_tick_schedules_nothing",
        "HappyModel.C07.Timers.old_disabled_tick_spins",
        "HappyModel.C07.Timers.warmupNew_never_past",
        "HappyModel.C07.Timers.warmupOld_past_iff",
        "HappyModel.C07.tickMachine_strictFuture",
        "HappyModel.C07.timers_no_stale_pop",
        "HappyModel.C07.timers_deliveries_at_instant_bounded",
        "HappyModel.C07.manualMachine_strictFuture",
        "HappyModel.C07.manual_deliveries_at_instant_bounded",
        "HappyModel.C07.rearmMachine_ranked",
        "HappyModel.C07.rearm_no_stale_pop",
        "HappyModel.C07.rearm_deliveries_at_instant_bounded",
        "HappyModel.C07.FloatStamp.stampInt_never_past",
        "HappyModel.C07.FloatStamp.stampFloat_zero_past_iff",
        "HappyModel.C07.FloatStamp.stampFloat_past_iff",
        "HappyModel.C07.FloatStamp.stampFloat_safe_of_delay",
    ]
    partial_theorems = {
        "HappyModel.C07.Rearm.chain_exact":
            "the timer model covers ShiftedServer's `_ShiftChange` chain only (instants and capacities of the shift changes, "
            "compared with the real component on generated schedules); the job flow through the server is C08's model",
        "HappyModel.C07.deliveries_at_instant_bounded":
            "proved under the explicit handler hypothesis StrictFuture (every emitted event is strictly later than now); "
            "the general statement for handlers that may emit at `now` with a decreasing rank "
            "(`finite_per_instant_ranked`) is proved as finite_per_instant_ranked_holds / deliveries_at_instant_ranked_bound; "
            "whether a library component satisfies either hypothesis is decided by the monitored scenario runs, not by Lean",
        "HappyModel.C07.no_stale_pop":
            "a theorem about the engine model for every handler with EmitsGeNow; that each library component is such a "
            "handler is the monitored claim (`past 0`) — components have no Lean model in C07 itself",
    }
    hypotheses = ["EmitsGeNow: every spec a handler returns has time ≥ now (checked on the real components by the push monitor)",
                  "PreGeStart: pre-run events are scheduled at or after the start time",
                  "StrictFuture (progress theorems only): every spec a handler returns has time > now",
                  "Ranked mc fan (ranked progress theorems): a handler emits at most `fan` events, each strictly later than now or at now "
                  "with a strictly smaller rank (Ev.data) than the event being handled",
                  "FloatStamp.NoGain / LosesAtMostOne conv: the ns -> float seconds -> ns round trip never rounds up and loses at most "
                  "one nanosecond (assumed of the library's IEEE-double conversions; conv is a parameter, floats do not enter)",
                  "Rearm.Sorted bs: the schedule's boundary instants int(b*1e9) are non-decreasing in schedule order",
                  "Rearm.LossyAt bs t (old-timer theorems only): some boundary stamped t reads back (ns/1e9) strictly before itself"]
    variants = ["current"]
    quick_cases = 330
    thorough_cases = 3000
    case_timeout_s = 60
    pool_workers = 1   # a case takes ~0.1 s in-process; the fork pool only adds stalls on a loaded machine
    search_budget = {"quick": 24, "thorough": 200}
    CAP = 20000
    rule = ("one case = (scenario family, generated cfg, seed); families are the modules hv/scenarios/fam_*.py, one per "
            "component directory of happysimulator/components plus stock load sources; generation is round-robin over "
            "families (families the static audit flags get extra configurations); every family's gen_cfg draws every "
            "constructor parameter / policy / strategy variant of its components (hv/scenarios/coverage.py lists what is "
            "left), durations from a boundary palette (whole ms, 1-4 decimal digits, values that lose a nanosecond in the "
            "seconds->ns truncation such as 1.001 s and 2.05 s, related durations in both orders: pause longer than interval, "
            "timeout shorter than latency), sizes around and above the library's internal constants, light load / sustained "
            "overload / same-instant bursts; 40 % of the cases are a family's maximum-coverage configuration (all variants "
            "in one run) where it defines one; the thorough tier lengthens a fifth of the runs 2-3x; a case is non-trivial when the run made "
            "≥ 50 deliveries without a library exception; distinct = distinct (family, cfg, seed). Theorem-backed elsewhere in "
            "/verif (component models): " + "; ".join(f"{k}: {v}" for k, v in sorted(MODEL_BACKED_ELSEWHERE.items())) +
            ". Families whose module says MODEL=None are covered by the monitor only. Every 12th case is a `rearm-shift` case: a "
            "generated ShiftSchedule for ShiftedServer, whose `_ShiftChange` deliveries (instant, capacity) are compared with the "
            "Lean timer model (HappyModel/C07/Rearm.lean) and whose monitored trace is judged like any other; every 24th case is a "
            "`timer-tick` (JobScheduler tick interval / start instant from the duration palette) or `timer-manual` (CRDTStore, gossip "
            "interval 0, hand-made GossipTicks) case compared with HappyModel/C07/Timers.lean.")
    trusted_base = [
        "hv/scenarios/monitor.py (wraps EventHeap.push/pop of the Simulation instance; reads Simulation._event_heap, _clock, Event._cancelled)",
        "hv/scenarios/fam_*.py scenario builders (drive the real components through a real Simulation)",
        "logging handler on happysimulator.core.simulation counting 'Time travel detected'",
        "per-instant delivery watchdog with cap 20000 standing in for 'unbounded'",
        "rearm-shift glue: ns = int(b * 1e9) and lossy = (ns / 1e9 < b) are computed in Python floats for each boundary b; "
        "a ShiftedServer subclass overriding handle_event records (now, current_capacity) after each '_ShiftChange'",
        "timer-tick glue: interval ns = int(interval * 1e9) in Python floats; tick deliveries read from the monitor's delivery "
        "list by event type '_scheduler_tick'; timer-manual: a CRDTStore subclass overriding handle_event records 'GossipTick' calls",
    ]
    assumptions = [
        "C07 has no per-component Lean model: the model transcript is the theorems' expectation (past 0, timetravel 0, spin 0) for every scenario, "
        "so a monitored violation is both a disagreement and a Spec violation; components are covered exactly as far as a scenario family drives them",
        "'unbounded number of deliveries at one instant' is observed as 'more than 20000 deliveries at one clock value' (run aborted)",
        "library exceptions raised during a scenario are reported (impl_errors) but are not a C07 clause",
        "rearm-shift: boundaries lie on a 1 µs grid (distinct boundaries are ≥ 1 ns apart), the first job arrives 370 ns and the "
        "run ends 777 ns off the ms grid, so float and integer comparisons of instants agree; only deliveries up to end_time are compared",
    ]

    # ------------------------------------------------------------------ generation
    def _families(self):
        from hv.scenarios import families

        return families()

    def _order(self):
        fams = sorted(self._families())
        hot = set(getattr(self, "_hot", ()))
        return [f for f in fams if f in hot] + fams

    def generate(self, rng: random.Random, i: int, tier: str) -> dict:
        from hv.scenarios import draw_cfg

        if i % 12 == 5:
            return self._gen_rearm(rng)
        if i % 24 == 11:
            return self._gen_timer(rng)
        order = self._order()
        name = order[i % len(order)]
        # 40 %: the family's maximum-coverage configuration (every policy / strategy variant in one run, sizes above
        # the library's internal constants, sustained overload, lossy durations), where the family defines one
        cfg = draw_cfg(self._families()[name], rng)
        if tier == "thorough" and "end" in cfg and isinstance(cfg["end"], (int, float)) and rng.random() < 0.2:
            cfg["end"] = float(cfg["end"]) * rng.choice([2, 3])        # some long runs (wrap-arounds, drift)
        # the case seed: mostly a random 31-bit value, sometimes 0 / 1 (valid seeds that look falsy / trivial)
        seed = rng.choice([0, 0, 1]) if rng.random() < 0.08 else rng.randrange(2**31)
        return {"family": name, "cfg": cfg, "seed": seed, "cap": self.CAP}

    # ------------------------------------------------------------------ the modelled timer (ShiftedServer)
    REARM = "rearm-shift"

    def _gen_rearm(self, rng):
        """a ShiftSchedule for the component whose timer has a Lean model (HappyModel/C07/Rearm.lean): boundaries from
        the duration palette (whole ms, sub-ms digits, values that lose a nanosecond in Instant.from_seconds)"""
        from hv.scenarios.base import dur_ms

        end_ms = rng.choice([2000, 3000, 4000, 6000])
        pts = set()
        while len(pts) < rng.randint(2, 7):
            pts.add(dur_ms(rng, 60, end_ms + 400))
        pts = sorted(pts)
        shifts = []
        for k in range(len(pts) - 1):
            r = rng.random()
            if r < 0.7:
                shifts.append([pts[k], pts[k + 1], rng.choice([0, 1, 1, 2, 3])])
            elif r < 0.85 and k + 2 < len(pts):
                shifts.append([pts[k], pts[k + 2], rng.choice([1, 2])])      # overlaps the next shift
            # else: a gap (default capacity)
        if not shifts:
            shifts.append([pts[0], pts[-1], 1])
        if rng.random() < 0.3:
            shifts.insert(0, [0, pts[0], rng.choice([0, 1])])                 # a shift starting at time zero
        return {"family": self.REARM, "shifts": shifts, "default": rng.choice([0, 0, 1, 2]),
                "t0_ms": rng.randint(1, 50), "end_ms": end_ms, "svc_ms": dur_ms(rng, 1, 40),
                "jobs_ms": sorted(rng.randint(60, end_ms) for _ in range(rng.randint(0, 12))),
                "seed": rng.randrange(2**31), "cap": self.CAP}

    # ------------------------------------------------------------------ further modelled timers (Timers.lean)
    TICK, MANUAL = "timer-tick", "timer-manual"

    def _gen_timer(self, rng):
        """JobScheduler's periodic `_scheduler_tick` (tick) / CRDTStore with gossip disabled and hand-made GossipTicks (manual)"""
        from hv.scenarios.base import dur_ms

        end_ms = rng.choice([1000, 2000, 3000])
        if rng.random() < 0.6:
            return {"family": self.TICK, "iv_ms": dur_ms(rng, 2, 2100), "t0_ms": rng.choice([0, 0, rng.randint(1, 400)]),
                    "end_ms": end_ms, "jobs": rng.randint(0, 3), "job_iv_ms": dur_ms(rng, 1, 500),
                    "seed": rng.randrange(2**31), "cap": self.CAP}
        ticks = sorted(rng.choice([rng.randint(1, end_ms), rng.choice([100, 500])]) for _ in range(rng.randint(1, 6)))
        return {"family": self.MANUAL, "manual_ms": ticks, "end_ms": end_ms, "peers": rng.randint(1, 3),
                "writes": rng.randint(0, 5), "seed": rng.randrange(2**31), "cap": self.CAP}

    @staticmethod
    def _timer_args(case):
        end = int(case["end_ms"]) * 1_000_000 + 777
        if case["family"] == "timer-tick":
            iv = int(float(case["iv_ms"]) / 1000.0 * 1_000_000_000)          # Duration.from_seconds(tick_interval)
            return iv, int(case["t0_ms"]) * 1_000_000, end
        return [int(ms) * 1_000_000 for ms in case["manual_ms"]], end

    def _run_timer(self, case):
        from happysimulator.core.entity import Entity
        from happysimulator.core.event import Event
        from happysimulator.core.simulation import Simulation
        from happysimulator.core.temporal import Instant
        from hv.scenarios.base import seed_all
        from hv.scenarios.monitor import Monitor, RunawayAbort, SpinAbort

        seed_all(int(case["seed"]))
        if case["family"] == self.TICK:
            from happysimulator.components.scheduling import JobDefinition, JobScheduler

            _iv, t0, end = self._timer_args(case)
            sched = JobScheduler("cron", tick_interval=float(case["iv_ms"]) / 1000.0)

            class Worker(Entity):
                def handle_event(self, event):
                    return None

            class Starter(Entity):
                def handle_event(self, event):
                    return [sched.start()]

            worker, starter = Worker("worker"), Starter("starter")
            for k in range(int(case["jobs"])):
                sched.add_job(JobDefinition(name=f"job{k}", target=worker, event_type="Run",
                                            interval=float(case["job_iv_ms"]) / 1000.0 * (k + 1)))
            sim = Simulation(end_time=Instant(end), entities=[sched, worker, starter])
            sim.schedule(Event(time=Instant(t0), event_type="go", target=starter))
            want = "_scheduler_tick"
        else:
            from happysimulator.components.crdt import CRDTStore
            from happysimulator.components.network import Network, datacenter_network

            manual, end = self._timer_args(case)
            net = Network(name="net")
            tick_log = []

            class LoggedStore(CRDTStore):
                def handle_event(self, event):      # generator continuations do not come through here
                    if event.event_type == "GossipTick":
                        tick_log.append(self.now.nanoseconds)
                    return super().handle_event(event)

            a = LoggedStore("node-a", network=net, gossip_interval=0)
            peers = [CRDTStore(f"node-{chr(98 + i)}", network=net, gossip_interval=0) for i in range(int(case["peers"]))]
            a.add_peers(peers)
            for b in peers:
                b.add_peers([a])
                net.add_bidirectional_link(a, b, datacenter_network(f"link-{b.name}"))
            sim = Simulation(end_time=Instant(end), entities=[a, *peers, net])
            for k in range(int(case["writes"])):
                sim.schedule(Event(time=Instant(1000 * (k + 1)), event_type="Write", target=a,
                                   context={"metadata": {"key": f"k{k}", "operation": "increment", "value": 1}}))
            for t in manual:
                sim.schedule(Event(time=Instant(t), event_type="GossipTick", target=a))
            want = "GossipTick"
        mon = Monitor(sim, cap=int(case.get("cap", self.CAP)), keep_deliveries=True).attach()
        err = None
        try:
            sim.run()
        except (SpinAbort, RunawayAbort):
            pass
        except Exception as e:
            err = type(e).__name__
        finally:
            mon.detach()
        if case["family"] == self.TICK:
            log = [t for (t, typ, _tgt) in mon.deliveries if typ == want and t <= end]
        else:
            log = [t for t in tick_log if t <= end]
        return mon, err, log

    @staticmethod
    def _rearm_tables(case):
        """glue: the float boundaries as the library sees them: ns = int(b * 1e9), lossy = ns / 1e9 < b"""
        secs = sorted({float(x) / 1000.0 for sh in case["shifts"] for x in sh[:2]})
        bounds = []
        for b in secs:
            ns = int(b * 1_000_000_000)
            bounds.append((ns, 1 if ns / 1_000_000_000 < b else 0))
        idx = {b: j for j, b in enumerate(secs)}
        shifts = sorted(((idx[float(a) / 1000.0], idx[float(b) / 1000.0], int(c)) for a, b, c in case["shifts"]
                         if float(b) > float(a)), key=lambda t: t[0])
        t0 = int(case["t0_ms"]) * 1_000_000 + 370
        end = int(case["end_ms"]) * 1_000_000 + 777
        return bounds, shifts, t0, end

    def _run_rearm(self, case):
        from happysimulator.components.common import Sink
        from happysimulator.components.industrial import Shift, ShiftedServer, ShiftSchedule
        from happysimulator.core.event import Event
        from happysimulator.core.simulation import Simulation
        from happysimulator.core.temporal import Instant
        from hv.scenarios.base import seed_all
        from hv.scenarios.monitor import Monitor, RunawayAbort, SpinAbort

        seed_all(int(case["seed"]))
        _bounds, _shifts, t0, end = self._rearm_tables(case)
        log = []

        class Logged(ShiftedServer):
            def handle_event(self, event):
                r = super().handle_event(event)
                if event.event_type == "_ShiftChange" and self.now.nanoseconds <= end:
                    log.append((self.now.nanoseconds, self.current_capacity))
                return r

        sink = Sink("sink")
        sched = ShiftSchedule([Shift(float(a) / 1000.0, float(b) / 1000.0, int(c)) for a, b, c in case["shifts"]
                               if float(b) > float(a)], default_capacity=int(case["default"]))
        srv = Logged("shifted", sched, service_time=float(case["svc_ms"]) / 1000.0, downstream=sink)
        sim = Simulation(end_time=Instant(end), entities=[srv, sink])
        sim.schedule(Event(time=Instant(t0), event_type="Job", target=srv))
        for ms in case["jobs_ms"]:
            sim.schedule(Event(time=Instant(int(ms) * 1_000_000 + 370), event_type="Job", target=srv))
        mon = Monitor(sim, cap=int(case.get("cap", self.CAP)), keep_deliveries=False).attach()
        err = None
        try:
            sim.run()
        except (SpinAbort, RunawayAbort):
            pass
        except Exception as e:
            err = type(e).__name__
        finally:
            mon.detach()
        return mon, err, log

    # ------------------------------------------------------------------ implementation
    def run_impl(self, case):
        from hv.scenarios.monitor import run_scenario

        if case.get("family") in (self.REARM, self.TICK, self.MANUAL):
            if case["family"] == self.REARM:
                m, err, log = self._run_rearm(case)
                lines = [f"sc {t} {c}" for t, c in log]
            else:
                m, err, log = self._run_timer(case)
                lines = [f"tk {t}" for t in log]
            out = [f"past {m.n_past}", f"timetravel {m.timetravel}", f"spin {m.spin}"]
            out += lines
            out += [INFO_MARK, f"pushes {m.n_pushes}", f"deliveries {m.n_deliveries}",
                    f"maxPerInstant {m.max_per_instant}", f"cancelled {m.n_cancelled}", f"stalePops {m.n_stale_pops}",
                    f"runaway {m.runaway}", f"error {err or 'none'}", TRACE_MARK]
            out += [f"p {c} {t} {em}" for (c, t, em) in m.pushes]
            out += [f"d {c} {n}" for (c, n) in m.per_clock]
            out.append(f"w {m.timetravel}")
            return out
        cap = int(case.get("cap", self.CAP))
        r = run_scenario(case["family"], case["cfg"], int(case["seed"]), cap=cap, keep_deliveries=False)
        m = r.mon
        out = [f"past {m.n_past}", f"timetravel {m.timetravel}", f"spin {m.spin}", INFO_MARK,
               f"pushes {m.n_pushes}", f"deliveries {m.n_deliveries}", f"maxPerInstant {m.max_per_instant}",
               f"cancelled {m.n_cancelled}", f"stalePops {m.n_stale_pops}", f"runaway {m.runaway}",
               f"error {r.error or 'none'}"]
        for (c, t, em, what) in m.past:
            out.append(f"offender {em} clock={c} time={t} event={what}")
        for et in m.timetravel_types:
            out.append(f"discardedType {et}")
        out.append(TRACE_MARK)
        out += [f"p {c} {t} {em}" for (c, t, em) in m.pushes]
        out += [f"d {c} {n}" for (c, n) in m.per_clock]
        out.append(f"w {m.timetravel}")
        return out

    def compare_view(self, case, impl_out):
        if impl_out and impl_out[0].startswith("IMPL-"):
            return impl_out
        if case.get("family") in (self.REARM, self.TICK, self.MANUAL) and INFO_MARK in impl_out:
            return impl_out[:impl_out.index(INFO_MARK)]       # summary + the timer's deliveries
        return impl_out[:3]

    def model_block(self, case, variant):
        if case.get("family") == self.REARM:
            bounds, shifts, t0, end = self._rearm_tables(case)
            return (f"rearm {int(case['default'])} {t0} {end}",
                    [f"b {ns} {l}" for ns, l in bounds] + [f"s {lo} {hi} {c}" for lo, hi, c in shifts])
        if case.get("family") == self.TICK:
            iv, t0, end = self._timer_args(case)
            return (f"tick {iv} {t0} {end}", [])
        if case.get("family") == self.MANUAL:
            manual, end = self._timer_args(case)
            return (f"manualtick {end}", [f"m {t}" for t in manual])
        return (f"model {case['family']}", [])

    def judge_block(self, case, impl_out):
        if not impl_out or impl_out[0].startswith("IMPL-") or TRACE_MARK not in impl_out:
            return None
        k = impl_out.index(TRACE_MARK)
        return (f"judge {case['family']} {int(case.get('cap', self.CAP))}", impl_out[k + 1:])

    def nontrivial_key(self, case, impl_out):
        if case.get("family") in (self.REARM, self.TICK, self.MANUAL):
            n = sum(1 for ln in impl_out if ln.startswith(("sc ", "tk ")))
            return json.dumps(case, sort_keys=True) if n >= 1 and "error none" in impl_out else None
        info = {ln.split()[0]: ln.split()[1:] for ln in impl_out[:12] if ln and not ln.startswith("-")}
        err = " ".join(info.get("error", ["none"]))
        if err != "none":   # accounted for in the evidence (extra_checks runs after the cases)
            d = self.__dict__.setdefault("_lib_errors", {})
            k = f"{case['family']}: {err}"
            d[k] = d.get(k, 0) + 1
        try:
            if int(info.get("deliveries", ["0"])[0]) >= 50 and info.get("error", ["none"])[0] == "none":
                return json.dumps([case["family"], case["cfg"], case["seed"]], sort_keys=True)
        except Exception:
            pass
        return None

    # ------------------------------------------------------------------ shrink / mutate
    SHRINK_BUDGET = 40

    def shrink(self, case, budget=True):
        """generic structural shrink of cfg: drop list elements, lower numbers, shorten the horizon"""
        self._shrunk = getattr(self, "_shrunk", 0)
        if case.get("family") in (self.TICK, self.MANUAL):
            return
        if case.get("family") == self.REARM:
            for k in range(len(case["shifts"])):
                if len(case["shifts"]) > 1:
                    yield {**case, "shifts": case["shifts"][:k] + case["shifts"][k + 1:]}
            if case["jobs_ms"]:
                yield {**case, "jobs_ms": []}
            return
        def walk(node, path):
            if isinstance(node, dict):
                for k in sorted(node):
                    yield from walk(node[k], path + [k])
            elif isinstance(node, list):
                if len(node) > 1:
                    for i in range(len(node)):
                        yield ("drop", path, i)
                for i, x in enumerate(node):
                    yield from walk(x, path + [i])
            elif isinstance(node, bool):
                if node:
                    yield ("set", path, False)
            elif isinstance(node, int) and node > 1:
                yield ("set", path, node // 2)
                yield ("set", path, node - 1)
            elif isinstance(node, float) and node > 0.002:
                yield ("set", path, round(node / 2, 3))

        for op, path, arg in walk(case["cfg"], []):
            if budget:
                self._shrunk += 1
                if self._shrunk > self.SHRINK_BUDGET:
                    return
            c = copy.deepcopy(case)
            node = c["cfg"]
            for p in path[:-1]:
                node = node[p]
            if op == "drop":
                tgt = node[path[-1]] if path else c["cfg"]
                del tgt[arg]
            else:
                node[path[-1]] = arg
            yield c
        if case["seed"] > 3:
            yield {**case, "seed": case["seed"] % 3}

    def mutate(self, case, rng):
        from hv.scenarios import draw_cfg

        if case.get("family") == self.REARM:
            return self._gen_rearm(rng)
        if case.get("family") in (self.TICK, self.MANUAL):
            return self._gen_timer(rng)
        fam = self._families()[case["family"]]
        if rng.random() < 0.5:
            return {**case, "seed": rng.randrange(2**31)}
        return {**case, "cfg": draw_cfg(fam, rng), "seed": rng.randrange(2**31)}

    # ------------------------------------------------------------------ audit + coverage accounting
    def extra_checks(self, ctx):
        from hv.scenarios import IMPORT_ERRORS
        from hv.scenarios.static_audit import run_audit

        fams = self._families()
        aud = run_audit(core.REPO)
        ctx.stats["static_audit"] = {
            "files_scanned": aud["files"], "generator_functions": aud["generator_functions"],
            "findings_count": len(aud["findings"]), "findings": aud["findings"][:40],
            "note": "AST scan, supporting only: points the generator at component directories first; not a verdict",
        }
        ctx.stats["scenario_families"] = {
            n: {"model_backed_by": getattr(m, "MODEL", None), "components": list(getattr(m, "COMPONENTS", []))}
            for n, m in sorted(fams.items())}
        ctx.stats["families_model_backed_elsewhere"] = sorted(n for n, m in fams.items() if getattr(m, "MODEL", None))
        ctx.stats["families_monitor_only"] = sorted(n for n, m in fams.items() if not getattr(m, "MODEL", None))
        ctx.stats["family_import_errors"] = dict(IMPORT_ERRORS)
        ctx.stats["component_dirs_without_family"] = self._uncovered(fams)
        ctx.stats["library_exceptions_during_scenarios"] = dict(self.__dict__.get("_lib_errors", {}))
        try:
            from hv.scenarios.coverage import report

            cov = report()
            ctx.stats["constructor_coverage"] = {
                "library_classes": cov["library_classes"],
                "classes_never_instantiated": cov["never_instantiated"],
                "constructor_parameters_never_set": cov["parameters_never_set"],
                "enum_members_never_used": cov["enum_members_never_used"],
                "note": "inspect + AST scan of hv/scenarios/fam_*.py (hv/scenarios/coverage.py); supporting only",
            }
        except Exception as e:   # the report is supporting information only
            ctx.stats["constructor_coverage"] = {"error": f"{type(e).__name__}: {e}"}
        return []

    def _uncovered(self, fams):
        base = core.REPO / "happysimulator" / "components"
        dirs = sorted(p.name for p in base.iterdir() if p.is_dir() and not p.name.startswith("_"))
        alias = {"queue_policies": "queues", "server": "queues", "rate_limiter": "ratelimit", "load_balancer": "loadbalancer",
                 "consensus": "raft", "sync": "sync"}
        return [d for d in dirs if d not in fams and alias.get(d, d) not in fams]

    def hot_families(self):
        """families whose component directory the static audit flags"""
        try:
            from hv.scenarios.static_audit import run_audit

            dirs = {f["where"].split("/")[1] for f in run_audit(core.REPO)["findings"]}
        except Exception:
            return []
        return sorted(d for d in dirs if d in self._families())


PROPERTY = C07()
PROPERTY._hot = PROPERTY.hot_families()
