"""C13 — membership: no false deaths on a healthy network, real failures are detected.

Correspondence: clusters of 2–8 real `MembershipProtocol` nodes run inside the real `Simulation`
over the real `Network`/`NetworkLink` objects of /repo.  The harness chooses every one-way delay
(a latency object fed from the case seed), the `random.shuffle` results (probe order, delegates),
crash times, and the `Network.partition()` / `Partition.heal()` calls (partial, healing and
overlapping partitions; messages the network refuses are logged as `l` lines).  The sequence of events delivered to the nodes (the *schedule*) is recorded and
replayed through the Lean model (`HappyModel/C13`), which keeps its own message soup and timers;
after every delivered event the acting node's `get_member_state` row, the messages it emitted
(with piggy-backed updates) and the timers it armed are compared.  The Lean Spec predicates
(`HappyModel/C13/Spec.lean`) judge the implementation's own transcript.

Second family: a stand-alone `PhiAccrualDetector` driven by heartbeat times and sampled on an
increasing time grid (mean/std bit patterns and `is_available` decisions are compared with the
model's float glue; the sampled phi values are judged for monotonicity, `+inf` included, along
silences that reach the subnormal range of the tail probability and its underflow).  The sample
times of a silence are refined *adaptively* while the implementation runs (`refine_samples`: bounded
increments, 1 ns bisection + dyadic ladder around every level 1…16 / threshold / float-regime
boundary, bisection into slope anomalies); every sample taken is listed in the transcript, the model
is asked about exactly those times (`model_block_from_impl`) and the Lean judge sees all of them.
"""
from __future__ import annotations

import atexit
import hashlib
import json
import math
import sys
import os
import random
import shutil
import struct
import tempfile

from hv import core

U = 1953125  # grid unit: 1/512 s in ns (exact in binary floating point)

_CACHE_DIR = tempfile.mkdtemp(prefix="hv-c13-")
_OWNER = os.getpid()
_MEM: dict = {}


@atexit.register
def _cleanup():
    if os.getpid() == _OWNER:
        shutil.rmtree(_CACHE_DIR, ignore_errors=True)


def fbits(x: float) -> int:
    return struct.unpack("<Q", struct.pack("<d", x))[0]


def phi_of_y(y: float) -> float:
    p = 0.5 * math.erfc(y / math.sqrt(2))
    if p < sys.float_info.min:     # the code treats a subnormal tail probability like an underflowed one
        return float("inf")
    return -math.log10(p)


_YSTAR: dict = {}


def ystar(thr: float) -> float:
    """least double y whose phi reaches thr (phi_of_y is the code's own formula)"""
    if thr in _YSTAR:
        return _YSTAR[thr]
    lo, hi = -60.0, 60.0   # phi_of_y(60) = +inf: the tail probability underflows near y = 38.5
    assert phi_of_y(lo) < thr <= phi_of_y(hi)
    while True:
        mid = (lo + hi) / 2
        if mid <= lo or mid >= hi:
            break
        if phi_of_y(mid) < thr:
            lo = mid
        else:
            hi = mid
    _YSTAR[thr] = hi
    return hi


def case_key(case) -> str:
    return hashlib.sha256(json.dumps(case, sort_keys=True).encode()).hexdigest()


class _Abort(Exception):
    pass


def run_cluster(case):
    """-> (transcript lines, schedule lines).  Drives the real objects."""
    from happysimulator.components.consensus import membership as M
    from happysimulator.components.network.link import NetworkLink
    from happysimulator.components.network.network import Network
    from happysimulator.core.entity import Entity
    from happysimulator.core.event import Event
    from happysimulator.core.simulation import Simulation
    from happysimulator.core.temporal import Duration, Instant
    from happysimulator.distributions.latency_distribution import LatencyDistribution

    n = case["n"]
    ivu, suspu = case["iv"], case["susp"]
    interval, susp = ivu / 512.0, suspu / 512.0
    rng = random.Random(case["seed"])
    drng = random.Random(case["seed"] ^ 0x9E3779B9)
    dmax, dmode = case["dmax"], case.get("dmode", "uniform")
    out, sched = [], []
    crashed = [False] * n
    st = {"shuf": None, "next_id": 0, "events": 0, "lost": {}, "nshuf": {}, "node": None}
    smode, fav = case.get("shuf", "random"), set(case.get("shufv", []))
    limit = 400 * n * max(1, case["rounds"]) + 1000

    def idx(name):
        return int(name[1:])

    class Shim:
        """stands in for the `random` module inside membership.py: shuffles come from the case seed
        and are recorded (they are inputs of the model)"""

        @staticmethod
        def shuffle(lst):
            # every result is a permutation drawn from the case seed; the *policy* of the case then
            # arranges it (any permutation is a legal outcome of random.shuffle): favoured members
            # last / first / alternating per node, ascending, descending
            rng.shuffle(lst)
            if smode == "asc":
                lst.sort(key=idx)
            elif smode == "desc":
                lst.sort(key=idx, reverse=True)
            elif smode in ("last", "first", "flip"):
                who = st.get("node")
                cnt = st["nshuf"].get(who, 0)
                st["nshuf"][who] = cnt + 1
                to_end = smode == "last" or (smode == "flip" and cnt % 2 == 1)
                lst.sort(key=(lambda x: idx(x) in fav) if to_end else (lambda x: idx(x) not in fav))
            st["shuf"] = [idx(x) for x in lst]

        def __getattr__(self, name):
            return getattr(rng, name)

    class Lat(LatencyDistribution):
        def __init__(self):
            super().__init__(0.0)

        def get_latency(self, current_time):
            if dmode == "const":
                d = dmax
            elif dmode == "bimodal":
                d = dmax if drng.random() < 0.5 else min(1, dmax)
            else:
                d = drng.randint(0, dmax)
            return Duration(d * U)

    def row(node):
        cells = []
        for x in range(n):
            if x == node.idx:
                cells.append("-")
                continue
            s = node.get_member_state(f"n{x}")
            inc = node._members[f"n{x}"].incarnation  # private: needed for the revive clause
            cells.append(s.name[0] + str(inc))
        return " ".join(cells)

    def report(node):
        """every public summary of the node's view: stats counters, the three member lists (member
        table order), the counts shown by repr"""
        import re as _re
        stt = node.stats
        lst = lambda names: ",".join(str(idx(x)) for x in names) or "-"
        m = _re.search(r"alive=(-?\d+), suspect=(-?\d+), dead=(-?\d+)", repr(node))
        rc = m.groups() if m else ("?", "?", "?")
        return (f"{stt.alive_count} {stt.suspect_count} {stt.dead_count} {lst(node.alive_members)} "
                f"{lst(node.suspected_members)} {lst(node.dead_members)} {rc[0]} {rc[1]} {rc[2]}")

    def upds(meta):
        us = meta.get("updates") or []
        if not us:
            return "-"
        return ";".join(f"{idx(u['member'])}:{u['state'][0]}:{u['incarnation']}" for u in us)

    class Node(M.MembershipProtocol):
        def handle_event(self, ev):
            st["events"] += 1
            if st["events"] > limit:
                raise _Abort()
            a = self.idx
            now = self.now.nanoseconds
            et = ev.event_type
            meta = ev.context.get("metadata", {})
            if et == "MembershipProbeTick":
                echo = f"T {a} {now}"
            elif et in ("MembershipPing", "MembershipAck"):
                echo = f"D {meta.get('_hv')} {now}"
            elif et == "MembershipIndirectPing":
                echo = f"O {a} {idx(meta['probe_target'])} i {now}"
            elif et == "MembershipSuspicionTimeout":
                echo = f"O {a} {idx(meta['suspect'])} s {now}"
            else:
                echo = f"? {et}"
            out.append(echo)
            if crashed[a]:
                sched.append(echo)
                if echo[0] == "D":
                    out.append(f"to {a} crashed")
                return None
            st["shuf"] = None
            st["node"] = a
            res = super().handle_event(ev)
            sh = st["shuf"]
            sched.append(echo + ("" if not sh else " " + " ".join(map(str, sh))))
            if echo[0] == "D":
                out.append(f"to {a}")
            out.append(f"r {a} {row(self)}")
            out.append(f"s {a} {report(self)}")
            for other in nodes:
                if other is not self:
                    r = row(other)
                    if r != rows[other.idx]:
                        rows[other.idx] = r
                        out.append(f"r {other.idx} {r}")
                        out.append(f"s {other.idx} {report(other)}")
            rows[a] = row(self)
            evs = res if isinstance(res, list) else ([] if res is None else [res])
            for e in evs:
                if e.target is net:
                    m = e.context["metadata"]
                    k = st["next_id"]
                    st["next_id"] += 1
                    m["_hv"] = k
                    kind = "p" if e.event_type == "MembershipPing" else "a"
                    f = m.get("indirect_for")
                    out.append(f"{sent_tag(k, m)} {k} {kind} {a} {idx(m['destination'])} {'-' if f is None else idx(f)} {upds(m)}")
                elif e.event_type == "MembershipIndirectPing":
                    out.append(f"t {idx(e.context['metadata']['probe_target'])} i {e.time.nanoseconds}")
                elif e.event_type == "MembershipSuspicionTimeout":
                    out.append(f"t {idx(e.context['metadata']['suspect'])} s {e.time.nanoseconds}")
                elif e.event_type == "MembershipProbeTick":
                    out.append(f"k {e.time.nanoseconds}")
                else:
                    out.append(f"? emitted {e.event_type}")
            return res

    def sent_tag(k, m):
        """'m' = handed to the network, 'l' = the network refuses to route it (active partition).  The
        decision is read from the public `is_partitioned` at send time; `Net.handle_event` below
        cross-checks it against what the network really does with the message."""
        lost = net.is_partitioned(m["source"], m["destination"])
        st["lost"][k] = lost
        return "l" if lost else "m"

    class Net(Network):
        def handle_event(self, ev):
            md = ev.context.get("metadata", {})
            k = md.get("_hv")
            if k is not None and self.is_partitioned(md.get("source"), md.get("destination")) != st["lost"].get(k):
                out.append(f"? route-mismatch {k}")
            return super().handle_event(ev)

    class Ctl(Entity):
        def handle_event(self, ev):
            meta = ev.context.get("metadata", {})
            if ev.event_type == "HvCut":
                h, ga, gb = meta["h"], meta["ga"], meta["gb"]
                handles[h] = net.partition([nodes[i] for i in ga], [nodes[j] for j in gb])
                line = f"P {self.now.nanoseconds} {h} {','.join(map(str, ga)) or '-'} {','.join(map(str, gb)) or '-'}"
                out.append(line)
                sched.append(line)
                return None
            if ev.event_type == "HvHeal":
                h = meta["h"]
                if handles.get(h) is not None:
                    handles[h].heal()
                line = f"H {self.now.nanoseconds} {h}"
                out.append(line)
                sched.append(line)
                return None
            if ev.event_type == "HvStart":
                a = meta["node"]
                st["shuf"] = None
                st["node"] = a
                evs = nodes[a].start()
                sched.append(f"init {a} {self.now.nanoseconds} " + " ".join(map(str, st["shuf"] or [])))
                return evs
            if ev.event_type == "HvInject":
                src, dst, ups = meta["src"], meta["dst"], meta["ups"]
                e = net.send(source=nodes[src], destination=nodes[dst], event_type="MembershipPing",
                             payload={"from": f"n{src}", "incarnation": 0,
                                      "updates": [{"member": f"n{m}", "state": {"s": "suspect", "d": "dead", "a": "alive"}[k],
                                                   "incarnation": inc} for m, k, inc in ups]},
                             daemon=True)
                k = st["next_id"]
                st["next_id"] += 1
                e.context["metadata"]["_hv"] = k
                u = upds(e.context["metadata"])
                out.append(f"J {self.now.nanoseconds}")
                out.append(f"{sent_tag(k, e.context['metadata'])} {k} p {src} {dst} - {u}")
                sched.append(f"J {self.now.nanoseconds} {src} {dst} {u}")
                return [e]
            if ev.event_type == "HvCrash":
                x = meta["node"]
                crashed[x] = True
                line = f"C {x} {self.now.nanoseconds}"
                out.append(line)
                sched.append(line)
            return None

    net = Net(name="net")
    handles = {}
    nodes = []
    for a in range(n):
        nd = Node(f"n{a}", net, probe_interval=interval, suspicion_timeout=susp,
                  indirect_probe_count=case.get("indirect", 3), phi_threshold=case["thr"])
        nd.idx = a
        nodes.append(nd)
    for a in nodes:
        for b in nodes:
            if a is not b:
                a.add_member(b)
                net.add_link(a, b, NetworkLink(name=f"l{a.idx}_{b.idx}", latency=Lat()))
    rows = [row(nd) for nd in nodes]
    ctl = Ctl("ctl")
    offs = case.get("offs") or [0] * n
    horizon = (max(offs) + case["rounds"] * ivu) * U
    sim = Simulation(end_time=Instant(horizon), entities=[net, ctl, *nodes])
    old_random = M.random
    M.random = Shim()
    try:
        for a in range(n):
            sim.schedule(Event(time=Instant(offs[a] * U), event_type="HvStart", target=ctl, daemon=True,
                               context={"metadata": {"node": a}}))
        for x, t in case.get("crashes", []):
            sim.schedule(Event(time=Instant(t * U), event_type="HvCrash", target=ctl, daemon=True,
                               context={"metadata": {"node": x}}))
        # partition / heal operations happen 1 ns after a grid point: never at the same instant as a
        # send, so "blocked at send time" and "blocked when the network routes it" coincide
        for h, (t, ga, gb, theal) in enumerate(case.get("parts", [])):
            sim.schedule(Event(time=Instant(t * U + 1), event_type="HvCut", target=ctl, daemon=True,
                               context={"metadata": {"h": h, "ga": ga, "gb": gb}}))
            if theal is not None:
                sim.schedule(Event(time=Instant(theal * U + 1), event_type="HvHeal", target=ctl, daemon=True,
                                   context={"metadata": {"h": h}}))
        for t, src, dst, ups in case.get("inject", []):
            sim.schedule(Event(time=Instant(t * U), event_type="HvInject", target=ctl, daemon=True,
                               context={"metadata": {"src": src, "dst": dst, "ups": ups}}))
        try:
            sim.run()
        except _Abort:
            out.append("ABORT event-limit")
    finally:
        M.random = old_random
    for nd in nodes:
        out.append(f"F r {nd.idx} {row(nd)}")
        out.append(f"F s {nd.idx} {report(nd)}")
    return out, sched


# ---------------------------------------------------------------------------------------------
# adaptive sampling of phi along one silence
#
# The case fixes the heartbeats and a coarse list of sample times per silence.  The harness then
# *chooses further sample times from the values the implementation returns* (a deterministic function
# of the implementation), so that a local decrease of phi is found wherever it is, not only where the
# generator happened to put two samples:
#   A  subdivide until consecutive samples differ by at most 0.05 (phi < 20) / 2 (beyond);
#   B  for every level in LEVELS (1 … 16, the threshold, the phi values at which the float formula
#      changes regime: libm erfc break points, subnormal tail probability, underflow to +inf) bisect
#      down to 1 ns to the first sample that reaches the level, then probe both sides of it at
#      1, 2, 4, … ns (a downward step sitting exactly at such a level is straddled);
#   C  slope anomalies: exact phi is convex in time (the normal tail is log-concave), so an interval
#      whose slope is lower than its left neighbour's hides a downward step (higher than its right
#      neighbour's: an upward one); the most deficient / most excessive intervals are bisected down
#      to 1 ns, always into the half that carries the anomaly.
# Convexity only directs the search; what is judged (Lean `judge-phi`) is monotonicity of the sampled
# values, on the transcript that lists every sample taken, in time order.

_SQ2 = math.sqrt(2.0)
_REGIME_Y = [x * _SQ2 for x in (-6.0, -1 / 0.35, -1.25, -0.84375, 0.0, 0.84375, 1.25, 1 / 0.35, 6.0, 28.0)]
_SUBNORMAL = -math.log10(2.2250738585072014e-308)


def phi_levels(thr):
    """the documented thresholds first, then the regime boundaries of the float formula, then far out"""
    first = [float(k) for k in range(1, 17)]
    if float(thr) not in first:
        first.append(float(thr))
    regime = sorted({phi_of_y(y) for y in _REGIME_Y} | {0.5})
    far = [20.0, 50.0, 100.0, 200.0, 300.0]
    out = []
    for l in first + [_SUBNORMAL] + regime + far:
        if 0 < l <= _SUBNORMAL and l not in out:
            out.append(l)
    return out


def refine_samples(f, base, thr, budget=2600):
    """base: sorted sample times (ns) of one silence; f(ns) -> phi.  Returns the sorted list of all
    times sampled.  Stops as soon as two consecutive samples decrease (or a NaN shows up).

    Refinement is confined to the part of the silence in which the tail probability is a *normal*
    double (phi <= 307.65, plus 2^20 ns): further out glibc's erfc loses precision (an intermediate
    exp() is subnormal, relative error ~1e-7) and phi of the unmodified code does wobble at
    nanosecond scale (fixes/C13-phi-subnormal-tail-wobble.known.md); out there only the samples of the
    case itself (spaced >= 1e-3 standard deviations) are taken."""
    import heapq

    val = {}
    state = {"n": 0}

    def ev(t):
        v = val.get(t)
        if v is None:
            v = val[t] = f(t)
            state["n"] += 1
        return v

    for t in base:
        ev(t)
    lo, hi = base[0], base[-1]
    if hi - lo < 2:
        return sorted(val)

    def bisect_to(a, b, level):
        """val[a] < level <= val[b]  ->  adjacent (a, b) with the same property"""
        while b - a > 1:
            c = (a + b) // 2
            if ev(c) >= level:
                b = c
            else:
                a = c
        return a, b

    def first_crossing(level, upto):
        ts = [t for t in sorted(val) if t <= upto]
        for a, b in zip(ts, ts[1:]):
            if not val[a] >= level and val[b] >= level:
                return a, b
        return None

    # where the tail probability leaves the normal range
    if val[lo] >= _SUBNORMAL:
        return sorted(val)
    br = first_crossing(_SUBNORMAL, hi)
    if br is not None:
        hi = min(hi, bisect_to(br[0], br[1], _SUBNORMAL)[1] + (1 << 20))

    def samples():
        return [t for t in sorted(val) if t <= hi]

    def bad():
        ts = sorted(val)
        for a, b in zip(ts, ts[1:]):
            va, vb = val[a], val[b]
            if va != va or vb != vb or vb < va:
                return True
        return False

    # -- A: bounded increments: 0.05 below phi = 20, 5 % (at least 2) beyond
    def subdivide(near, cap):
        heap = []

        def push(a, b):
            if b - a < 2:
                return
            va, vb = val[a], val[b]
            if (va < 20.0) != near:
                return
            tol = 0.05 if near else max(2.0, 0.05 * va)
            g = (400.0 if va != math.inf else 0.0) if vb == math.inf else vb - va
            if g > tol:
                heapq.heappush(heap, (-g / tol, a, b))

        ts = samples()
        for a, b in zip(ts, ts[1:]):
            push(a, b)
        stop = state["n"] + cap
        while heap and state["n"] < stop:
            _, a, b = heapq.heappop(heap)
            c = (a + b) // 2
            ev(c)
            push(a, c)
            push(c, b)

    # -- B: level crossings and a dyadic ladder around each
    def levels():
        for level in phi_levels(thr):
            if state["n"] >= budget:
                break
            br = first_crossing(level, hi)
            if br is None:
                continue
            reach = max(1 << 10, 64 * (br[1] - br[0]))
            a, b = bisect_to(br[0], br[1], level)
            d = 1
            while d <= reach:
                for t in (b - d, b + d):
                    if lo <= t <= hi:
                        ev(t)
                d *= 2
            if bad():
                return

    # -- C: slope anomalies (run before and after the level stage)
    def slopes():
        ts = samples()
        out = []
        for a, b in zip(ts, ts[1:]):
            va, vb = val[a], val[b]
            out.append((a, b, (vb - va) / (b - a) if vb != math.inf and va != math.inf else None))
        return out

    def descend(a, b, ref, sign):
        """sign = +1: look for the half whose slope falls short of `ref` (slope of the left
        neighbour); sign = -1: for the half whose slope exceeds `ref` (slope of the right neighbour)"""
        while b - a > 1 and state["n"] < budget:
            c = (a + b) // 2
            va, vc, vb = val[a], ev(c), val[b]
            if vc != vc or vc == math.inf:
                return
            if vc < va:
                b = c
                continue
            if vb < vc:
                a = c
                continue
            sl, sr = (vc - va) / (c - a), (vb - vc) / (b - c)
            if sign > 0:
                dl, dr = ref - sl, max(sl, ref) - sr
                if dl >= dr:
                    b = c
                else:
                    a, ref = c, max(sl, ref)
            else:
                dl, dr = sl - min(sr, ref), sr - ref
                if dr >= dl:
                    a = c
                else:
                    b, ref = c, min(sr, ref)

    def anomalies(rounds):
        for _ in range(rounds):
            sl = slopes()
            short, excess = [], []
            for i in range(1, len(sl)):
                (a0, b0, s0), (a1, b1, s1) = sl[i - 1], sl[i]
                if s0 is None or s1 is None:
                    continue
                if b1 - a1 >= 2 and s1 < s0:
                    short.append(((s0 - s1) * (b1 - a1), a1, b1, s0))
                if b0 - a0 >= 2 and s0 > s1:
                    excess.append(((s0 - s1) * (b0 - a0), a0, b0, s1))
            short.sort(reverse=True)
            excess.sort(reverse=True)
            for _, a, b, ref in short[:6]:
                descend(a, b, ref, +1)
            for _, a, b, ref in excess[:2]:
                descend(a, b, ref, -1)
            if bad() or state["n"] >= budget:
                break

    subdivide(True, budget // 5)
    subdivide(False, budget // 8)
    if bad():
        return sorted(val)
    anomalies(1)
    if bad():
        return sorted(val)
    levels()
    if bad():
        return sorted(val)
    anomalies(2)
    return sorted(val)


def _op_ns(op):
    return op[1] * U + (op[2] if len(op) > 2 else 0)


def _new_detector(case):
    from happysimulator.components.consensus.phi_accrual_detector import PhiAccrualDetector

    init = case.get("init")
    return PhiAccrualDetector(threshold=case["thr"], max_sample_size=case.get("maxn", 200),
                              initial_interval=(init / 512.0 if init else None))


def phi_budgets(case):
    """how many adaptively chosen samples each silence gets: a dry run over the coarse samples with a
    scratch detector ranks the silences by the suspicion level they reach (capped at 20: beyond the
    documented thresholds all are alike; later silences first among equals)"""
    total = case.get("refine_budget", 5200)
    d = _new_detector(case)
    reach, k = {}, 0
    for op in case["ops"]:
        if op[0] == "h":
            d.heartbeat(_op_ns(op) / 1e9)
            k += 1
        else:
            v = d.phi(_op_ns(op) / 1e9)
            v = 20.0 if v != v or v > 20.0 else v
            reach[k] = max(reach.get(k, 0.0), v)
    out = {}
    for k in sorted(reach, key=lambda k: (-reach[k], -k)):
        out[k] = min(2600, total)
        total -= out[k]
    return out


def run_phi(case):
    d = _new_detector(case)
    refine = case.get("refine", 1)
    budgets = phi_budgets(case) if refine else {}
    out = []
    seg = []
    st = {"k": 0}

    def flush():
        if not seg:
            return
        times = list(seg)
        b = budgets.get(st["k"], 0)
        if b > 0 and all(x <= y for x, y in zip(seg, seg[1:])):
            times = refine_samples(lambda ns: d.phi(ns / 1e9), seg, case["thr"], budget=b)
        for ns in times:
            t = ns / 1e9
            out.append(f"q {ns} {1 if d.is_available(t) else 0} {fbits(d.phi(t))}")
        del seg[:]

    for op in case["ops"]:
        ns = _op_ns(op)
        if op[0] == "h":
            flush()
            d.heartbeat(ns / 1e9)
            st["k"] += 1
            s = d.stats
            out.append(f"h {ns} {s.heartbeats_received} {fbits(s.mean_interval)} {fbits(s.std_interval)}")
        else:
            seg.append(ns)
    flush()
    return out


class C13(core.Property):
    id = "C13"
    driver = "drv-c13"
    lake_targets = ["HappyProofs.C13.Props", "drv-c13"]
    audit_imports = ["HappyProofs.C13.Props"]
    lean_files = ["HappyModel/C13/*.lean", "HappyProofs/C13/*.lean", "HappyModel/Proto.lean", "Driver/C13.lean"]
    theorems = []
    variants = ["repaired"]
    quick_cases = 240
    thorough_cases = 8000
    case_timeout_s = 240  # event-count watchdog bounds real hangs; the wall limit only has to survive a loaded machine
    search_budget = {"quick": 150, "thorough": 3000}
    rule = ("family cluster: 2–8 MembershipProtocol nodes in the real Simulation/Network for 8–40 probe rounds; "
            "probe interval 1/16–2 s, suspicion timeout from below interval/2 to 5 intervals, phi threshold 1–16, "
            "indirect_probe_count 0–8, "
            "per-message one-way delays drawn from [0, dmax] with dmax from 1/512 s to 2 intervals (on / just below / "
            "just above interval/2), 0–3 crashes (before the first tick, on a tick, mid-run; up to all members but one), "
            "optional start offsets, forged late gossip; one sixth are detection scenarios in which an observer has "
            "nobody to relay an indirect probe through (a pair, indirect_probe_count = 0, all other peers crashed — "
            "mostly before anybody heard from them — with short suspicion timeouts so that they are DEAD when the next "
            "victim is probed) or in which only direct probing can find victims that were never heard from while the "
            "shuffle oracle puts them last in every pass (or alternately first and last, or sorts the order), "
            "small delays and a horizon beyond every detection deadline; "
            "one third of the clusters run over a network that is partitioned with the real "
            "Network.partition()/Partition.heal(): a victim cut off from some peers for good, from all peers and "
            "re-connected, a minority split, overlapping handles, a flapping cut — mostly with no crash at all; "
            "non-trivial = at least one message delivered; family phi: stand-alone detector (half of the histories at "
            "the edges of its input space: last heartbeat at timestamp 0, single / repeated / out-of-order heartbeats, "
            "no or tiny bootstrap interval, window of one, sampled to beyond the detection silence), heartbeats on a 1/512 s "
            "grid, samples at ns resolution around the threshold crossing and along a long silence placed by "
            "standardised distance (−3 … 10^5 standard deviations), dense through the range where the tail "
            "probability is a subnormal double and across its underflow to 0 (phi = +inf); every silence is then "
            "re-sampled adaptively from the implementation's own values (up to 2600 further samples per silence, 5200 "
            "per case): subdivision until consecutive samples differ by <= 0.05 below phi = 20 (5 % beyond), for every "
            "level 1..16 / the threshold / the phi values at the libm-erfc break points / subnormal / +inf a bisection "
            "to 1 ns and probes at +-1, 2, 4, ... ns around the crossing, and bisection to 1 ns into the intervals whose "
            "slope falls short of their left neighbour's (exact phi is convex: the normal tail is log-concave) or "
            "exceeds their right neighbour's; "
            "distinct = distinct case content")
    trusted_base = [
        "hv/props/c13.py harness (Node subclass logging delivered events, crash = node ignores events, "
        "latency object and random.shuffle shim fed from the case seed)",
        "private attribute MemberInfo.incarnation read for the DEAD→ALIVE clause (get_member_state exposes only the state)",
        "times on a 1/512 s grid so that float seconds ↔ integer ns conversions are exact",
        "phi decision glue: y computed in Lean floats (same libm pow/sqrt), compared with ystar found by bisection "
        "on the code's own -log10(0.5*erfc(y/sqrt 2)); math.erfc/log10 themselves are parameters of phi_monotone",
        "real engine event ordering (C01) decides the schedule; the model replays it and rejects overdue timers",
        "partition()/heal() calls are issued 1 ns after a grid instant, so 'blocked when sent' (public is_partitioned, "
        "logged by the harness) equals 'blocked when routed' (cross-checked inside a Network subclass)",
        "adaptive phi sampling (refine_samples) chooses sample times from the values the implementation returns; it "
        "only adds samples — every value judged was returned by PhiAccrualDetector.phi for a time inside the silence, "
        "in increasing time order; convexity of phi is a search heuristic, never a judged clause",
        "phi values cross the protocol as IEEE-754 bit patterns; for non-negative doubles the order of the patterns is "
        "the order of the values (Spec.pvOfBits), +inf = 0x7FF0000000000000",
    ]
    assumptions = [
        "crash = the member stops handling events for good (its in-flight messages are still delivered)",
        "full mesh: every node has add_member()ed every other node, in index order",
        "'a bound well below the probe interval' is read as 2*delta < probe_interval/2 + suspicion_timeout "
        "(implied by delta < probe_interval/2 <= suspicion_timeout); delta is the largest one-way delay observed",
        "detection bound: crash + delta + ((crashes+1)*(n-1)+2) probe intervals + interval/2",
        "detector-level detection (clause 5): once a heartbeat has been recorded — timestamp 0 is a timestamp — and the interval "
        "window is not empty (bootstrap interval > 0 or a positive gap between consecutive heartbeats, max_sample_size >= 1), a "
        "sample taken m + 39*max(m, min_std) after the last heartbeat (m = largest interval ever recorded, min_std = 0.1 s) "
        "must have reached the threshold (thresholds up to 300)",
        "'reporting a member ALIVE' covers every public report of a node: after every delivered event the counters of `stats`, "
        "the lists alive_members / suspected_members / dead_members and the counts shown by repr() are logged (`s` lines) next to "
        "the get_member_state row and must agree with it (Spec.reportOk, signature membership/report/stats-disagree-with-member-states)",
        "any permutation is a legal result of random.shuffle: the case may fix a policy for the oracle (favoured members last / "
        "first / alternating per node, ascending, descending) instead of drawing uniformly from the case seed",
        "adaptive phi sampling is confined to the part of a silence in which the tail probability is a normal double "
        "(phi <= 307.65, plus 2^20 ns): beyond, glibc's erfc is accurate to ~1e-7 only and phi of the unmodified code "
        "wobbles at nanosecond scale (fixes/C13-phi-subnormal-tail-wobble.known.md); there only the case's own samples "
        "(>= 1e-3 standard deviations apart) are taken, and judged strictly",
        "clauses 1 and 2 are judged only on runs in which the network refused no message (no send across an active "
        "partition) and nothing was forged; clause 3 (DEAD is not ALIVE again without a higher incarnation) is judged "
        "on every run, over the whole history of each cell, not just consecutive reports",
    ]
    hypotheses = [
        # --- schedule hypotheses (about the action list; decidable; what the engine provides) ---
        "monoRun: action times do not decrease (failure_detected_*, crash_yields_quiet_run). Not derived inside C13: the "
        "model is a transition system over an action list whose order is an input (the recorded delivery order of the real "
        "engine); that the engine delivers in time order is C01's theorem about its own heap model, and composing the two would "
        "need the membership handlers embedded as entities of the C01 engine model plus a refinement proof (not done)",
        "timelyRun delta: at every action no message in flight is older than delta, and no partition is active "
        "(no_false_death, failure_detected_*). Necessary: clause 1 is false with slow links (corpus, seeded change r1-m1); "
        "the judge measures delta on every trace and applies clauses 1 and 2 only when 2*delta < half + susp",
        "punctualRun a (failure_detected_full / _within_crashes / _row): (i) dueOk — no probe tick and no armed timer of the "
        "*observer* a is skipped; (ii) shufOk — a probe tick of a that starts a new pass is handed a permutation (any) of the "
        "list it shuffles. Nothing is assumed about other nodes. (i) is exactly what the correspondence driver checks on every "
        "replayed schedule of the real engine (theorem overdue_nil_dueOk: no `overdue` line ⇒ dueOk for every live node; an "
        "`overdue` or `badshuf` line is a model/implementation disagreement), so it is validated on every run, not proved from "
        "C01 (same reason as monoRun). The phi-path theorem failure_detected_by_phi needs only tickDueRun (the observer's probe "
        "ticks are not skipped; implied by punctualRun: tickDueRun_of_punctual), no timer and no shuffle hypothesis",
        "orderOk: the initial probe order of the observer is a permutation (any) of the other members; observer started by "
        "cx + delta (failure_detected_full, _within_crashes, _row)",
        "BlockedRun a b: is_partitioned(a, b) before every action of the run (partition_isolates) — the premise of the clause",
        # --- numeric side conditions ---
        "2*delta < half + susp (no_false_death; failure_detected_within_crashes / _row, where it makes 'DEAD implies crashed' "
        "available so that the bound counts crashes; failure_detected_full does NOT need it and uses k = n)",
        "half < interval (failure_detected_full family): the ack timeout fires before the next probe tick — true of the code "
        "(half = probe_interval * 0.5)",
        # --- code variant ---
        "c.fix = true, i.e. the repaired _handle_indirect_ping (failure_detected_partial, failure_detected_full family, "
        "no_delegate_detected, unacked_probe_dead_after_suspicion, lone_observer_detects). Necessary for the probe path: "
        "current_unacked_probe_keeps_alive is the witness for the pinned code. NOT needed for the phi path: "
        "failure_detected_by_phi holds for both variants",
        # --- function parameters of the exact phi model (erfc / log10 / mean / std are parameters; floats are validated by X) ---
        "PhiHyp: tail antitone, nlog antitone on positives and non-negative on the range of tail, 0 < sd (phi_monotone, "
        "phi_inf_absorbing, phi_reaches_level, phi_silence_detected, failure_detected_by_phi)",
        "MeanSdBound m min_std: on a non-empty window with entries <= m, mean <= m and clamped deviation <= max(m, min_std); "
        "threshold <= level at standardised distance Y (judge: Y = 39, threshold <= 300) (phi_reaches_level, "
        "phi_silence_detected, failure_detected_by_phi)",
        "failure_detected_by_phi, on the state at the crash: the observer's detector for x has recorded a heartbeat l0 <= cx, "
        "its window is non-empty with entries <= m, and cx + delta <= l0 + m (m also covers the time since the last heartbeat); "
        "max_sample_size >= 1. An observer that never heard from x has no phi path (phi = 0: 'insufficient data') — that case "
        "is failure_detected_full's",
        # --- discharged in this round ---
        "QuietRun a x (failure_detected_partial, failure_detected_by_phi_partial, no_delegate_detected, lone_observer_detects): "
        "no longer a free hypothesis for runs with a crash — crash_yields_quiet_run + quiet_run_after_crash derive it after "
        "cx + delta from monoRun + timelyRun; the 'avail = false' hypothesis of failure_detected_by_phi_partial is derived for "
        "the concrete detector in failure_detected_by_phi (DetInv.unavailable via phi_reaches_level)",
        "indirect_probe_count = 0 or an empty shuffled candidate list (no_delegate_detected); n = 2 or every other "
        "peer DEAD in the observer's view (no_delegate_candidates); Lone x: the observer's probe order is [x] and x is not DEAD "
        "(lone_observer_detects); tick at most one interval after crash + delta (lone_observer_within_deadline) — these are "
        "the case distinctions of the special-case lemmas; failure_detected_full covers all of them without such premises",
    ]
    partial_theorems = {}

    # ------------------------------------------------------------------ generation
    def generate(self, rng: random.Random, i: int, tier: str) -> dict:
        # quick tier: ~250 cases take ~20 s in-process; on a loaded machine the fork pool is slower
        # than that and its stalls show up as IMPL-TIMEOUT.  Thorough keeps the pool.
        self.pool_workers = 1 if tier == "quick" else None
        if i % 12 == 11:
            return self.gen_phi_boundary(rng, tier)
        if i % 6 == 5:
            return self.gen_phi(rng, tier)
        if i % 6 in (1, 3):
            return self.gen_partition(rng, tier)
        if i % 12 in (4, 8):
            return self.gen_detect(rng, tier)
        return self.gen_cluster(rng, tier)

    INDIRECT = [3, 3, 1, 0, 2, 0, 5, 8]

    def gen_detect(self, rng, tier):
        """clause 2 under stress: observers that have nobody to relay an indirect probe through.
        Shapes: a pair (n = 2: there never is a delegate), indirect_probe_count = 0 in a larger
        cluster, all members but one (or two) crash — most of them at the start, before anybody has
        heard from them, so that the phi detector has nothing to go on and every other peer is DEAD
        by the time a later victim is probed — and a count of 1–2 with as many crashes.  Delays are
        small (the bound `2*delta < half + susp` holds) and the run is long enough for the deadline
        `detectDeadline` of every crash to pass, so clause 2 is really judged."""
        shape = rng.choice(["pair", "pair", "nodelegates", "nodelegates", "masscrash", "masscrash", "fewdelegates",
                            "roundrobin", "roundrobin", "roundrobin"])
        ivu = rng.choice([32, 64, 128, 256, 512])
        half = ivu // 2
        if shape == "roundrobin":
            # only direct probing can find the victims (they fall silent before anybody has heard from
            # them), every observer has at least two peers, and the shuffle policy is adversarial for
            # the round-robin order: the victims land in the last slot of every pass (or alternately
            # first and last: the longest gap between two probes a correct round robin allows)
            n = rng.choice([3, 3, 3, 4, 4, 5, 6])
            k = rng.choice([1, 1, 1, 2])
            indirect = rng.choice([0, 1, 3, 3, n])
        elif shape == "pair":
            n, k = 2, 1
            indirect = rng.choice([0, 1, 3, 3, 5])
        elif shape == "nodelegates":
            n = rng.choice([3, 3, 4, 5, 6])
            k = rng.choice([1, 1, 2, n - 1])
            indirect = 0
        elif shape == "masscrash":
            n = rng.choice([3, 3, 4, 4, 5])
            k = rng.choice([n - 1, n - 1, n - 2])
            indirect = rng.choice([0, 1, 2, 3, 3, n])
        else:
            n = rng.choice([3, 4, 5])
            k = rng.choice([1, 2])
            indirect = rng.choice([1, 1, 2])
        k = max(1, min(k, n - 1))
        if shape == "masscrash":
            # short suspicion timeouts: the first victims are DEAD before the later ones are probed
            susp = rng.choice([max(1, half // 2), half, half, ivu, ivu, ivu + half])
        else:
            susp = rng.choice([max(1, half // 2), half, half + 1, ivu, ivu + half, 2 * ivu, 3 * ivu + 1, 5 * ivu])
        dmax = rng.choice([1, 1, 2, max(1, half // 4), max(1, half // 2), max(1, half - 1)])
        while 2 * dmax >= half + susp:
            dmax = max(1, dmax // 2)
            if dmax == 1 and 2 >= half + susp:
                susp += 1
        offs = [0] * n
        if rng.random() < 0.4:
            offs = [rng.randrange(ivu) for _ in range(n)]
        victims = rng.sample(range(n), k)
        crashes = []
        for x in victims:
            mode = rng.random() * (0.6 if shape == "roundrobin" else 1.0)
            if mode < 0.6:     # before its own first tick and before any peer probes it: never heard from
                t = rng.choice([0, 0, 1, half, ivu - 1, min(offs) + ivu - 1])
            elif mode < 0.8:   # around the first round of probes
                t = rng.randint(ivu, (n + 1) * ivu)
            else:
                t = rng.randint(1, 6) * ivu + rng.choice([-1, 0, 1, half])
            crashes.append([x, max(0, t)])
        last = max(t for _, t in crashes)
        ticks = (k + 1) * (n - 1) + 2
        rounds = ticks + (last + dmax + max(offs)) // ivu + rng.choice([2, 3, 6])
        case = {"family": "cluster", "n": n, "iv": ivu, "susp": susp, "thr": rng.choice([1.0, 8.0, 8.0, 8.0, 16.0]),
                "indirect": indirect, "rounds": rounds, "seed": rng.getrandbits(32), "dmax": dmax,
                "dmode": rng.choice(["uniform", "const", "bimodal"]), "crashes": crashes, "offs": offs}
        if shape == "roundrobin":
            case["shuf"], case["shufv"] = rng.choice(["last", "last", "last", "flip", "first"]), sorted(victims)
        else:
            self.shuffle_policy(rng, case, victims, 0.5)
        return case

    SHUF_MODES = ["last", "last", "first", "flip", "asc", "desc"]

    def shuffle_policy(self, rng, case, victims, prob):
        """with probability `prob` the case fixes how the oracle arranges every `random.shuffle` result
        (the favoured members — the victims, or a random subset — last / first / alternating, or the
        whole list sorted); otherwise shuffles are uniform from the case seed"""
        if rng.random() >= prob:
            return
        fav = sorted(victims) if victims and rng.random() < 0.7 else \
            sorted(rng.sample(range(case["n"]), rng.randint(1, max(1, case["n"] - 1))))
        case["shuf"], case["shufv"] = rng.choice(self.SHUF_MODES), fav

    def gen_partition(self, rng, tier):
        """clusters whose network is cut for a while: nobody has to crash for views to diverge.
        Shapes: a victim cut off from a subset of its peers for good (partial partition), a victim
        (or a minority) cut off from everybody and re-connected later, two overlapping partitions,
        a random split; each with fast links, so that every DEAD verdict is caused by the cut, and
        long enough for suspicion, death, gossip about it and contact after it."""
        n = rng.choice([2, 3, 4, 4, 5, 5, 5, 6, 7])
        ivu = rng.choice([32, 64, 128, 256, 512])
        half = ivu // 2
        susp = rng.choice([half, ivu, ivu, ivu + half, ivu + half, 2 * ivu, 3 * ivu + 1, max(1, half // 2)])
        thr = rng.choice([1.0, 4.0, 8.0, 8.0, 8.0, 12.0, 16.0])
        dmax = rng.choice([1, 1, 2, max(1, half // 4), max(1, half // 2), half - 1, half + 1])
        dmode = rng.choice(["uniform", "uniform", "const", "bimodal"])
        rounds = rng.choice([16, 24, 32, 40] if n <= 5 or tier == "thorough" else [16, 24])
        horizon = rounds * ivu
        nodes = list(range(n))
        victim = rng.randrange(n)
        others = [x for x in nodes if x != victim]
        t_cut = rng.randint(1, max(2, rounds // 3)) * ivu + rng.choice([0, 0, 1, half, ivu // 5, ivu - 1])
        later = lambda lo: min(horizon, lo + rng.choice([1, 2, 3, 4, 6, 8]) * ivu + rng.choice([0, 1, half, ivu // 5]))
        shape = rng.choice(["partial", "partial", "heal", "heal", "minority", "overlap", "split", "flap"])
        parts = []
        if shape == "partial":
            k = rng.randint(1, max(1, len(others) - 1))
            parts.append([t_cut, [victim], sorted(rng.sample(others, k)), None if rng.random() < 0.7 else later(t_cut)])
        elif shape == "heal":
            parts.append([t_cut, [victim], others, later(t_cut)])
        elif shape == "minority":
            k = rng.randint(1, max(1, (n - 1) // 2))
            ga = sorted(rng.sample(nodes, k))
            parts.append([t_cut, ga, [x for x in nodes if x not in ga], later(t_cut) if rng.random() < 0.7 else None])
        elif shape == "overlap":
            k = rng.randint(1, len(others))
            a = sorted(rng.sample(others, k))
            b = sorted(rng.sample(others, rng.randint(1, len(others))))
            t2 = later(t_cut)
            parts.append([t_cut, [victim], a, later(t_cut) if rng.random() < 0.6 else None])
            parts.append([t2, b, [victim], later(t2) if rng.random() < 0.6 else None])
        elif shape == "split":
            ga = sorted(rng.sample(nodes, rng.randint(1, n - 1)))
            gb = sorted(rng.sample(nodes, rng.randint(1, n - 1)))  # may overlap ga: both directions of a pair, self pairs
            parts.append([t_cut, ga, gb, later(t_cut) if rng.random() < 0.5 else None])
        else:  # flap: the same cut made and healed repeatedly
            t = t_cut
            for _ in range(rng.choice([2, 3])):
                th = later(t)
                parts.append([t, [victim], sorted(rng.sample(others, rng.randint(1, len(others)))), th])
                t = later(th)
        crashes = []
        if rng.random() < 0.2:
            crashes.append([rng.choice(others), rng.randint(0, horizon)])
        offs = [0] * n
        if rng.random() < 0.4:
            offs = [rng.randrange(ivu) for _ in range(n)]
        case = {"family": "cluster", "n": n, "iv": ivu, "susp": susp, "thr": thr, "indirect": rng.choice(self.INDIRECT),
                "rounds": rounds, "seed": rng.getrandbits(32), "dmax": dmax, "dmode": dmode,
                "crashes": crashes, "offs": offs, "parts": parts}
        if rng.random() < 0.25:
            # late duplicates of gossip (a re-sent ping carrying an old update about the victim)
            inject = []
            for _ in range(rng.choice([1, 2, 4])):
                src, dst = rng.sample(range(n), 2)
                inject.append([rng.randint(t_cut, horizon), src, dst, [[victim, rng.choice("ssd"), 0]]])
            case["inject"] = inject
        return case

    def gen_cluster(self, rng, tier):
        n = rng.choice([2, 3, 3, 4, 4, 5, 5, 6, 7, 8])
        ivu = rng.choice([32, 64, 128, 256, 512, 1024])
        half = ivu // 2
        susp = rng.choice([half, half + 1, ivu, ivu, 2 * ivu, 3 * ivu + 1, 5 * ivu, 5 * ivu, max(1, half - 1), max(1, half // 2)])
        thr = rng.choice([1.0, 2.0, 4.0, 8.0, 8.0, 8.0, 12.0, 16.0])
        dmax = rng.choice([1, 1, 2, max(1, half // 2), max(1, half // 2 + 1), half - 1, half - 1, half, half + 1, ivu, 2 * ivu])
        dmode = rng.choice(["uniform", "uniform", "const", "bimodal"])
        big = tier == "thorough"
        rounds = rng.choice([8, 12, 20, 30] if n <= 5 else [8, 12, 20] if not big else [12, 20, 30, 40])
        horizon = rounds * ivu
        crashes = []
        k = rng.choice([0, 0, 1, 1, 1, 2, 3 if n >= 5 else 1])
        # at least one observer stays; now and then only one (nobody left to relay an indirect probe)
        victims = rng.sample(range(n), min(k, n - 1 if rng.random() < 0.25 else max(0, n - 2)))
        for x in victims:
            mode = rng.random()
            if mode < 0.25:
                t = rng.choice([0, 1, ivu - 1, ivu, ivu + 1])
            elif mode < 0.5:
                t = rng.randint(0, min(horizon, (n - 1) * ivu))
            elif mode < 0.75:
                t = rng.randint(1, max(1, rounds // 2)) * ivu + rng.choice([-1, 0, 0, 1, half])
            else:
                t = rng.randint(0, horizon)
            crashes.append([x, max(0, t)])
        offs = [0] * n
        if rng.random() < 0.3:
            offs = [rng.randrange(ivu) for _ in range(n)]
        elif rng.random() < 0.2:
            offs = [rng.choice([0, 1, half]) for _ in range(n)]
        inject = []
        if rng.random() < 0.2:
            for _ in range(rng.choice([1, 2, 4, 8])):
                src, dst = rng.sample(range(n), 2)
                ups = []
                for _ in range(rng.choice([1, 1, 2, 3])):
                    ups.append([rng.randrange(n), rng.choice("sdaaa"), rng.choice([0, 0, 1, 1, 2, 3])])
                inject.append([rng.randint(1, horizon), src, dst, ups])
        case = {"family": "cluster", "n": n, "iv": ivu, "susp": susp, "thr": thr, "indirect": rng.choice(self.INDIRECT),
                "rounds": rounds, "seed": rng.getrandbits(32), "dmax": dmax, "dmode": dmode,
                "crashes": crashes, "offs": offs}
        if inject:
            case["inject"] = inject
        self.shuffle_policy(rng, case, victims, 0.3)
        return case

    def gen_phi(self, rng, tier):
        thr = rng.choice([1.0, 2.0, 4.0, 8.0, 8.0, 12.0, 16.0, 0.5, 3.3])
        init = rng.choice([None, 64, 256, 512, 512, 1024])
        maxn = rng.choice([200, 200, 3, 5])
        ops, t = [], rng.choice([0, 0, 100, 5000])
        nseg = rng.choice([1, 2, 4, 8])
        base = rng.choice([16, 64, 256, 512])
        window = [init / 512.0] if init else []   # the generator's own estimate of the interval window
        last = None
        tail_mode = rng.choice(["none", "ladder", "ladder", "dense", "dense"])
        for si in range(nseg):
            reps = rng.choice([1, 1, 2, 3, 6])
            for _ in range(reps):
                t += max(0, base + rng.choice([0, 0, 1, -1, base // 2, -base // 2, 3 * base, -base]))
                ops.append(["h", t])
                if last is not None and t > last:
                    window.append((t - last) / 512.0)
                    if len(window) > maxn:
                        window.pop(0)
                last = t
            # samples: increasing times after the last heartbeat, some off-grid (sub-unit ns offsets)
            q = t
            step = rng.choice([1, 4, base // 4 or 1, base])
            seg = []
            for _ in range(rng.choice([3, 6, 12])):
                q += rng.choice([0, step, step, 2 * step])
                seg.append(["q", q, rng.choice([0, 0, 1, 977, 1953124])])
            if window and tail_mode != "none" and (si == nseg - 1 or rng.random() < 0.3):
                seg += self.tail_samples(rng, t, window, thr, tail_mode)
            seg.sort(key=lambda o: o[1] * U + o[2])
            ops += seg
            t = max([t, q + 1] + [o[1] + 1 for o in seg])
        case = {"family": "phi", "thr": thr, "init": init, "maxn": maxn, "ops": ops}
        if tier == "thorough":
            case["refine_budget"] = 2600   # (adaptive samples per case; the default of the quick tier is 5200)
        return case

    MIN_STD_NS = 100_000_000   # PhiAccrualDetector's default min_std = 0.1 s (the harness never overrides it)

    def gen_phi_boundary(self, rng, tier):
        """heartbeat histories at the edges of the detector's input space, each followed by a silence
        that is sampled from the last heartbeat to well beyond `Spec.silenceBound`: a last heartbeat at
        the simulation epoch (timestamp 0: a single heartbeat at 0, repeated heartbeats at 0, a
        history that returns to 0 out of order), a single heartbeat (with and without a bootstrap
        interval: without one there is no data and phi stays 0), repeated timestamps (intervals of 0
        are not recorded), out-of-order timestamps (negative intervals are not recorded, the last
        heartbeat moves back), tiny and large bootstrap intervals, a window of one."""
        thr = rng.choice([1.0, 2.0, 4.0, 8.0, 8.0, 12.0, 16.0, 0.5, 3.3, 100.0, 300.0])
        init = rng.choice([None, None, 1, 8, 64, 512, 512, 2048])
        maxn = rng.choice([200, 200, 1, 2, 3])
        g = rng.choice([1, 16, 64, 512, 1024])
        t0 = rng.choice([0, 0, 0, 0, 1, g, 5000])
        shape = rng.choice(["single", "single", "repeat", "repeat", "regular", "return", "return", "backwards", "mixed"])
        if shape == "single":
            hs = [t0]
        elif shape == "repeat":
            hs = [t0] * rng.choice([2, 3, 5])
        elif shape == "regular":
            hs = [t0 + j * g for j in range(rng.choice([2, 3, 6]))]
        elif shape == "return":     # regular heartbeats, then one that carries the first timestamp again
            hs = [t0 + j * g for j in range(rng.choice([2, 3, 5]))] + [t0] * rng.choice([1, 2])
        elif shape == "backwards":  # strictly decreasing timestamps down to t0
            hs = [t0 + j * g for j in range(rng.choice([2, 4]), -1, -1)]
        else:
            hs = [t0 + rng.choice([0, 0, g, 2 * g, 3 * g]) for _ in range(rng.choice([3, 5, 8]))]
        ops = []
        last = None
        m = init or 0           # bound on every interval ever recorded, in grid units
        for j, t in enumerate(hs):
            ops.append(["h", t])
            if last is not None and t > last:
                m = max(m, t - last)
            last = t
            if j < len(hs) - 1 and rng.random() < 0.3:
                continue
            # the silence after this heartbeat (the next heartbeat, if any, may lie inside it in time:
            # samples are issued in time order per silence, heartbeats are not bound to it)
            final = j == len(hs) - 1
            bound = m * U + 39 * max(m * U, self.MIN_STD_NS)
            marks = [0, 1, m * U // 2, m * U, m * U + 1, 2 * m * U, m * U + 3 * self.MIN_STD_NS, bound // 2,
                     bound - U, bound - 1, bound, bound + 1, bound + U, 2 * bound, 10 * bound + 7]
            if not final:
                marks = [x for x in marks if rng.random() < 0.3]
            seg = sorted({last * U + x for x in marks if x >= 0})
            ops += [["q", ns // U, ns % U] for ns in seg]
        case = {"family": "phi", "thr": thr, "init": init, "maxn": maxn, "ops": ops}
        if rng.random() < 0.5:
            case["refine"] = 0
        elif tier == "thorough":
            case["refine_budget"] = 2600
        return case

    def tail_samples(self, rng, last, window, thr, mode):
        """a long silence: sample times placed by standardised distance y = (elapsed - mean)/sd from the
        expected arrival — below the mean, around the threshold crossing, tens of standard deviations
        out, through the range where the tail probability is a subnormal double, across the point where
        it underflows to 0 (phi = +inf), and far beyond.  The boundaries come from the float formula
        itself (bisection), not from constants."""
        mean = sum(window) / len(window)
        var = sum((x - mean) ** 2 for x in window) / len(window) if len(window) > 1 else 0.0
        sd = max(math.sqrt(var), 0.1)
        y_thr = ystar(thr)
        y_sub = ystar(-math.log10(2.2250738585072014e-308))   # tail probability leaves the normal range
        y_inf = ystar(float("inf"))                            # tail probability underflows to 0
        ys = [-3.0, -0.5, 0.0, 0.5, y_thr - 0.01, y_thr, y_thr + 0.01, 10.0, 15.0, 20.0, 25.0, 30.0, 35.0,
              y_sub - 0.5, y_sub - 0.01, y_sub, y_sub + 0.01, (y_sub + y_inf) / 2, y_inf - 0.01, y_inf, y_inf + 0.01,
              y_inf + 0.5, 45.0, 60.0, 100.0, 1e3, 1e5]
        ys = [y for y in ys if rng.random() < 0.8]
        if mode == "dense":
            k = rng.choice([24, 48, 96])
            lo, hi = y_sub - rng.choice([0.05, 0.3]), y_inf + rng.choice([0.05, 0.3])
            ys += [lo + (hi - lo) * j / k for j in range(k + 1)]
            ys += [rng.uniform(y_sub, y_inf + 0.1) for _ in range(rng.choice([0, 8, 16]))]
        out = []
        for y in sorted(ys):
            el = mean + y * sd
            if el < 0:
                continue
            ns = last * U + int(round(el * 1e9))
            out.append(["q", ns // U, ns % U])
        return out

    # ------------------------------------------------------------------ implementation
    def _cluster(self, case):
        key = case_key(case)
        if key in _MEM:
            return _MEM[key]
        res = run_cluster(case)
        if len(_MEM) > 64:
            _MEM.clear()
        _MEM[key] = res
        return res

    def run_impl(self, case):
        if case["family"] == "phi":
            return run_phi(case)
        key = case_key(case)
        _MEM.pop(key, None)
        out, sched = self._cluster(case)
        try:
            with open(os.path.join(_CACHE_DIR, key), "w") as f:
                json.dump(sched, f)
        except OSError:
            pass
        return out

    def _schedule(self, case):
        key = case_key(case)
        p = os.path.join(_CACHE_DIR, key)
        if key in _MEM:
            return _MEM[key][1]
        if os.path.exists(p):
            with open(p) as f:
                return json.load(f)
        try:
            return self._cluster(case)[1]  # cache miss: take the schedule from a fresh run of the implementation
        except Exception:
            return []

    # ------------------------------------------------------------------ model / judge
    def model_block(self, case, variant):
        if case["family"] == "phi":
            return self.model_block_from_impl(case, variant, run_phi(case))
        ivu = case["iv"]
        hdr = (f"cluster {case['n']} {ivu * U} {ivu // 2 * U} {case['susp'] * U} {case.get('indirect', 3)} "
               f"{0 if variant == 'current' else 1} {fbits(ystar(case['thr']))} {1 if 0.0 < case['thr'] else 0} {fbits(ivu / 512.0)}")
        return (hdr, self._schedule(case))

    def model_block_from_impl(self, case, variant, impl_out):
        """phi family: the sample times were chosen adaptively while the implementation ran (they are
        listed in its transcript), the model is asked about exactly those times; the heartbeats come
        from the case.  The phi bit patterns are echoed by the model (judged, not compared)."""
        if case["family"] != "phi":
            return self.model_block(case, variant)
        init = case.get("init")
        hdr = f"phi {fbits(ystar(case['thr']))} {1 if 0.0 < case['thr'] else 0} {case.get('maxn', 200)} " \
              f"{fbits(init / 512.0) if init else 'none'}"
        body = []
        hs = [op[1] * U + (op[2] if len(op) > 2 else 0) for op in case["ops"] if op[0] == "h"]
        if impl_out and impl_out[0].startswith("IMPL-"):
            return (hdr, [f"h {ns}" for ns in hs])
        k = 0
        for line in impl_out:
            ts = line.split()
            if ts[0] == "h":
                body.append(f"h {hs[k] if k < len(hs) else ts[1]}")
                k += 1
            elif ts[0] == "q" and len(ts) >= 4:
                body.append(f"q {ts[1]} {ts[3]}")
        body += [f"h {ns}" for ns in hs[k:]]
        return (hdr, body)

    def judge_block(self, case, impl_out):
        if impl_out and impl_out[0].startswith("IMPL-"):
            return None
        if case["family"] == "phi":
            init = case.get("init")
            return (f"judge-phi {fbits(case['thr'])} {init * U if init else 0} {self.MIN_STD_NS} {case.get('maxn', 200)}",
                    list(impl_out))
        ivu = case["iv"]
        return (f"judge-cluster {case['n']} {ivu * U} {ivu // 2 * U} {case['susp'] * U}", list(impl_out))

    def nontrivial_key(self, case, impl_out):
        if case["family"] == "phi":
            return json.dumps(case, sort_keys=True) if any(o[0] == "q" for o in case["ops"]) else None
        if any(l.startswith("D ") for l in impl_out):
            return json.dumps(case, sort_keys=True)
        return None

    def shrink(self, case):
        if case["family"] == "phi":
            xs = case["ops"]
            step = max(1, len(xs) // 2)
            while step >= 1:
                for i in range(0, len(xs), step):
                    c = dict(case)
                    c["ops"] = xs[:i] + xs[i + step:]
                    if len(c["ops"]) < len(xs):
                        yield c
                step //= 2
            return
        if case["rounds"] > 2:
            for r in (case["rounds"] // 2, case["rounds"] - 1):
                c = dict(case)
                c["rounds"] = max(2, r)
                yield c
        for i in range(len(case.get("crashes", []))):
            c = dict(case)
            c["crashes"] = case["crashes"][:i] + case["crashes"][i + 1:]
            yield c
        for i in range(len(case.get("inject", []))):
            c = dict(case)
            c["inject"] = case["inject"][:i] + case["inject"][i + 1:]
            if not c["inject"]:
                del c["inject"]
            yield c
        for i, part in enumerate(case.get("parts", [])):
            c = dict(case)
            c["parts"] = case["parts"][:i] + case["parts"][i + 1:]
            if not c["parts"]:
                del c["parts"]
            yield c
            for g in (1, 2):           # a smaller group
                if len(part[g]) > 1:
                    for j in range(len(part[g])):
                        c = dict(case)
                        q = list(part)
                        q[g] = part[g][:j] + part[g][j + 1:]
                        c["parts"] = case["parts"][:i] + [q] + case["parts"][i + 1:]
                        yield c
            if part[3] is not None:    # never healed
                c = dict(case)
                c["parts"] = case["parts"][:i] + [[part[0], part[1], part[2], None]] + case["parts"][i + 1:]
                yield c
        if any(case.get("offs") or []):
            c = dict(case)
            c["offs"] = [0] * case["n"]
            yield c
        if case["n"] > 2:
            top = case["n"] - 1
            if all(x != top for x, _ in case.get("crashes", [])) and not case.get("inject") and \
                    all(top not in pt[1] and top not in pt[2] for pt in case.get("parts", [])):
                c = dict(case)
                c["n"] = top
                c["offs"] = (case.get("offs") or [0] * case["n"])[:top]
                yield c
        if case["dmode"] != "const":
            c = dict(case)
            c["dmode"] = "const"
            yield c
        if case["dmax"] > 1:
            c = dict(case)
            c["dmax"] = case["dmax"] // 2
            yield c

    def mutate(self, case, rng):
        c = json.loads(json.dumps(case))
        if c["family"] == "phi":
            return self.gen_phi(rng, "quick") if rng.random() < 0.6 else self.gen_phi_boundary(rng, "quick")
        k = rng.random()
        if c.get("parts") and k < 0.5:
            pt = rng.choice(c["parts"])
            horizon = c["rounds"] * c["iv"]
            j = rng.random()
            if j < 0.4:
                pt[0] = max(1, min(horizon, pt[0] + rng.choice([-1, 1, c["iv"] // 2, -c["iv"] // 2, c["iv"]])))
                if pt[3] is not None:
                    pt[3] = max(pt[3], pt[0] + 1)
            elif j < 0.7:
                pt[3] = None if pt[3] is not None and rng.random() < 0.3 else \
                    min(horizon, pt[0] + rng.randint(1, 8) * c["iv"] + rng.choice([0, 1, c["iv"] // 2]))
            else:
                c["seed"] = rng.getrandbits(32)
            return c
        if k < 0.3:
            c["seed"] = rng.getrandbits(32)
        elif k < 0.5:
            c["dmax"] = max(1, c["dmax"] + rng.choice([-1, 1, c["iv"] // 4]))
        elif k < 0.7:
            x = rng.randrange(c["n"])
            c["crashes"] = [cr for cr in c["crashes"] if cr[0] != x]
            if len(c["crashes"]) < c["n"] - 1:
                c["crashes"].append([x, rng.randint(0, c["rounds"] * c["iv"])])
        elif k < 0.85:
            c["susp"] = max(1, c["susp"] + rng.choice([-1, 1, c["iv"]]))
        else:
            c["thr"] = rng.choice([1.0, 4.0, 8.0, 16.0])
        return c


THEOREMS = [
    "HappyModel.C13.no_false_death",
    "HappyModel.C13.no_false_death_view",
    "HappyModel.C13.dead_not_revived_without_incarnation",
    "HappyModel.C13.dead_never_alive_again",
    "HappyModel.C13.revive_trace_is_pairwise",
    "HappyModel.C13.partition_blocks",
    "HappyModel.C13.partition_isolates",
    "HappyModel.C13.heal_only_unblocks",
    "HappyModel.C13.phi_inf_absorbing",
    "HappyModel.C13.phi_monotone",
    "HappyModel.C13.phi_reaches_level",
    "HappyModel.C13.phi_silence_detected",
    "HappyModel.C13.failure_detected_partial",
    "HappyModel.C13.failure_detected_by_phi_partial",
    "HappyModel.C13.failure_detected_by_phi",
    "HappyModel.C13.report_agrees_with_states",
    "HappyModel.C13.report_lists_exact",
    "HappyModel.C13.failure_detected_report",
    "HappyModel.C13.tickDueRun_of_punctual",
    "HappyModel.C13.overdue_nil_dueOk",
    "HappyModel.C13.crash_yields_quiet_run",
    "HappyModel.C13.quiet_run_after_crash",
    "HappyModel.C13.round_robin_reaches",
    "HappyModel.C13.round_robin_between",
    "HappyModel.C13.failure_detected_full",
    "HappyModel.C13.failure_detected_within_crashes",
    "HappyModel.C13.failure_detected_row",
    "HappyModel.C13.no_delegate_detected",
    "HappyModel.C13.no_delegate_candidates",
    "HappyModel.C13.unacked_probe_dead_after_suspicion",
    "HappyModel.C13.lone_observer_detects",
    "HappyModel.C13.lone_observer_within_deadline",
    "HappyModel.C13.current_unacked_probe_keeps_alive",
]
C13.theorems = THEOREMS
PROPERTY = C13()
