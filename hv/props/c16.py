"""C16 — caches stay within capacity, never lose writes, respect staleness bounds.

Families
  policy    the nine eviction policies of eviction_policies.py driven by direct calls
            (on_access / on_insert / on_remove / evict / clear); RNG draws are inputs.
  store     CachedStore inside a real Simulation (backing KVStore with latency), overlapping
            get / put / delete / invalidate / invalidate_all / flush operations.
  softttl   SoftTTLCache inside a real Simulation, access times on the zone boundaries.

The same inputs go to the Lean model (`HappyModel/C16`), transcripts are diffed, and the Lean Spec
predicates judge the implementation's own observations.
"""
from __future__ import annotations

import copy
import importlib
import json
import random
import traceback

from hv import core

POLICIES = ["lru", "lfu", "ttl", "fifo", "random", "slru", "sampled", "clock", "twoq"]
NKEYS = 4


class _OracleRng(random.Random):
    """Stands in for the policy's private RNG: the draw is dictated by the case.
    `prio` is a priority list over all keys; choice() returns the first candidate in priority
    order, sample(pop, k) the first k candidates in priority order."""

    def __init__(self, picks=None):
        super().__init__(0)
        self.prio = []
        self.picks = picks          # store family: draws used round-robin, one per RNG call
        self.n = 0

    def _next(self):
        if self.picks is not None:
            self.prio = self.picks[self.n % len(self.picks)] if self.picks else []
            self.n += 1

    def _rank(self, key):
        k = int(key[1:])
        return self.prio.index(k) if k in self.prio else len(self.prio) + k

    def choice(self, seq):
        self._next()
        return min(seq, key=self._rank)

    def sample(self, population, k, **kw):
        self._next()
        return sorted(population, key=self._rank)[:k]


def make_policy(name, arg, clock):
    from happysimulator.components.datastore import eviction_policies as ep

    if name == "lru":
        return ep.LRUEviction(), None
    if name == "lfu":
        return ep.LFUEviction(), None
    if name == "ttl":
        return ep.TTLEviction(ttl=float(arg), clock_func=clock), None
    if name == "fifo":
        return ep.FIFOEviction(), None
    if name == "slru":
        return ep.SLRUEviction(), None
    if name == "clock":
        return ep.ClockEviction(), None
    if name == "twoq":
        return ep.TwoQueueEviction(), None
    if name == "random":
        p = ep.RandomEviction(seed=0)
        p._rng = _OracleRng()
        return p, p._rng
    if name == "sampled":
        p = ep.SampledLRUEviction(sample_size=max(1, int(arg)), seed=0)
        p._rng = _OracleRng()
        return p, p._rng
    raise ValueError(name)


def drain_copy(pol):
    """the complete eviction order from the current state, through the public API on a copy"""
    c = copy.deepcopy(pol)
    out = []
    for _ in range(64):
        k = c.evict()
        if k is None:
            break
        out.append(int(k[1:]))
    return out


class _GenShadow:
    """Generator-side bookkeeping of "which keys would a cache hold now".  Case generation must not
    depend on the implementation behaving sanely: the held set is kept by the harness itself
    (insert adds, remove discards, clear empties); the real policy is asked only *which* key an
    evict() names, every call into it is guarded, and after the first exception (or a nonsensical
    answer) the shadow stops consulting it and picks the victim itself (first held key in the
    case's priority order).  Whatever happens the case is kept and reaches run_impl, where an
    exception of the implementation is an observation (IMPL-EXC), not a harness failure."""

    def __init__(self, name, arg):
        self.clock = [0]
        self.held = set()
        self.pol = self.orc = None
        try:
            self.pol, self.orc = make_policy(name, arg, lambda: float(self.clock[0]))
        except Exception:
            self.pol = None

    def _call(self, f, *a):
        if self.pol is None:
            return None
        try:
            return f(*a)
        except Exception:
            self.pol = None          # implementation raised: from here on the shadow is on its own
            return None

    def apply(self, op):
        self.clock[0] = op[1]
        kind = op[0]
        if kind == "i":
            self._call(lambda: self.pol.on_insert(K(op[2])))
            self.held.add(op[2])
        elif kind == "a":
            self._call(lambda: self.pol.on_access(K(op[2])))
        elif kind == "r":
            self._call(lambda: self.pol.on_remove(K(op[2])))
            self.held.discard(op[2])
        elif kind == "e":
            if self.orc is not None:
                self.orc.prio = op[2:]
            k = self._call(lambda: self.pol.evict())
            v = None
            if isinstance(k, str) and k[1:].isdigit() and int(k[1:]) in self.held:
                v = int(k[1:])
            elif self.held:
                prio = list(op[2:])
                v = min(self.held, key=lambda x: prio.index(x) if x in prio else len(prio) + x)
            if v is not None:
                self.held.discard(v)
        else:
            self._call(lambda: self.pol.clear())
            self.held = set()


MS = 1_000_000
WARM0 = 2000      # operation numbers of the gets issued by a CacheWarmer


# ---------------------------------------------------------------------------- value domain
# The model treats a written value as an opaque identity (`put k v`, v unique per script).  What the
# real cache is handed for identity v is chosen by the case (`case["vals"][str(v)]`): the int v
# itself, or a *falsy but not None* object — 0, 0.0, "", False, empty containers, user objects whose
# __bool__/__len__ say "empty".  A cache must treat all of them as present values.
# Immutable falsy constants are shared objects, so each kind is used at most once per script;
# the container / object kinds are created fresh per value and can repeat.  Decoding is by identity.
FALSY_ONCE = ["zero", "fzero", "estr", "false", "etuple", "ebytes", "efrozenset", "czero"]
FALSY_FRESH = ["elist", "edict", "eset", "ebytearray", "falsyobj", "emptyobj"]


class _FalsyObj:
    """a user value whose truth value is False (e.g. a result wrapper for 'nothing found')"""
    __slots__ = ("tag",)

    def __init__(self, tag):
        self.tag = tag

    def __bool__(self):
        return False


class _EmptyObj:
    """a user collection that is currently empty"""
    __slots__ = ("tag",)

    def __init__(self, tag):
        self.tag = tag

    def __len__(self):
        return 0


def make_value(v, kind):
    if kind == "int":
        return v
    return {"zero": lambda: 0, "fzero": lambda: float("0.0"), "estr": lambda: "", "false": lambda: False,
            "etuple": tuple, "ebytes": bytes, "efrozenset": frozenset, "czero": lambda: complex(0),
            "elist": list, "edict": dict, "eset": set, "ebytearray": bytearray,
            "falsyobj": lambda: _FalsyObj(v), "emptyobj": lambda: _EmptyObj(v)}[kind]()


class Values:
    def __init__(self, case):
        self.kinds = case.get("vals") or {}
        self.objs = {}

    def enc(self, v):
        if v not in self.objs:
            self.objs[v] = make_value(v, self.kinds.get(str(v), "int"))
        return self.objs[v]

    def dec(self, obj):
        if obj is None:
            return "None"
        for v, o in self.objs.items():
            if o is obj:
                return str(v)
        return f"?{type(obj).__name__}"


def pick_vals(rng, values):
    """assign a python value kind to each written value identity"""
    p = rng.choice([0.0, 0.0, 0.3, 0.6, 1.0])
    once = list(FALSY_ONCE)
    rng.shuffle(once)
    vals = {}
    for v in values:
        if rng.random() < p:
            if once and rng.random() < 0.6:
                vals[str(v)] = once.pop()
            else:
                vals[str(v)] = rng.choice(FALSY_FRESH)
    return vals


def fmt_res(kind, r, values=None):
    if kind == "flush":
        return f"n={r}"
    if kind == "get":
        return values.dec(r) if values is not None else ("None" if r is None else str(r))
    if r is None:
        return "None"
    if r is True:
        return "True"
    if r is False:
        return "False"
    return str(r)


def run_store_sim(case, repo_cls=None):
    """Run the real CachedStore inside a real Simulation. Returns (transcript, schedule lines)."""
    from happysimulator.components.datastore import CachedStore, KVStore
    from happysimulator.core.entity import Entity
    from happysimulator.core.event import Event
    from happysimulator.core.simulation import Simulation
    from happysimulator.core.temporal import Instant

    lat = case["lat"]
    ops = case["ops"]
    out, sched = [], []
    holder = {}
    vt = Values(case)

    def clock():
        return float(holder["cl"].now.nanoseconds // MS)

    pol, orc = make_policy(case["policy"], case["arg"], clock)
    if orc is not None:
        orc.picks = [list(p) for p in case["picks"]]
    backing = KVStore("backing", read_latency=lat["rl"] / 1e9, write_latency=lat["wl"] / 1e9,
                      delete_latency=lat["dl"] / 1e9)
    cache = CachedStore("cache", backing, case["cap"], pol, cache_read_latency=lat["cl"] / 1e9,
                        write_through=bool(case["wt"]))

    def snap(i):
        c = sorted(int(k[1:]) for k in cache.get_cached_keys())
        d = sorted(int(k[1:]) for k in cache.get_dirty_keys())
        p = sorted(drain_copy(pol))
        b = sorted((int(k[1:]), vt.dec(backing.get_sync(k))) for k in backing.keys())
        j = lambda xs: " ".join(map(str, xs))
        line = f"adv {i} | C {j(c)} | D {j(d)} | P {j(p)} | B {' '.join(f'{k}={v}' for k, v in b)}"
        out.append(" ".join(line.split()))

    class Client(Entity):
        def handle_event(self, ev):
            i = ev.context["metadata"]["i"]
            op = ops[i]
            kind = op[1]
            if len(sched) > 400:
                raise RuntimeError("watchdog: too many deliveries")

            def traced(gen, extra=""):
                try:
                    sched.append(f"adv {i} {self.now.nanoseconds}{extra}")
                    y = next(gen)
                    while True:
                        snap(i)
                        sent = yield y
                        sched.append(f"adv {i} {self.now.nanoseconds}")
                        y = gen.send(sent)
                except StopIteration as e:
                    snap(i)
                    return e.value

            if kind not in ("get", "put", "del", "flush", "inv", "invall"):
                raise ValueError(kind)
            try:
                if kind == "get":
                    r = yield from traced(cache.get(K(op[2])))
                elif kind == "put":
                    r = yield from traced(cache.put(K(op[2]), vt.enc(op[3])))
                elif kind == "del":
                    r = yield from traced(cache.delete(K(op[2])))
                elif kind == "flush":
                    order = " ".join(str(int(k[1:])) for k in cache.get_dirty_keys())
                    r = yield from traced(cache.flush(), (" " + order) if order else "")
                elif kind == "inv":
                    sched.append(f"adv {i} {self.now.nanoseconds}")
                    r = cache.invalidate(K(op[2]))
                    snap(i)
                elif kind == "invall":
                    sched.append(f"adv {i} {self.now.nanoseconds}")
                    r = cache.invalidate_all()
                    snap(i)
            except Exception as e:
                # the cache operation raised: an observation (the operation never returns; judged as
                # store/op/raised after the clauses on the snapshots), the other operations go on
                if not any(str(core.REPO) in fr.filename for fr in traceback.extract_tb(e.__traceback__)):
                    raise
                snap(i)
                out.append(f"ret {i} raised:{type(e).__name__}")
                return
            out.append(f"ret {i} {fmt_res(kind, r, vt)}")

    cl = Client("client")
    holder["cl"] = cl
    end = max([op[0] for op in ops] + [0]) + 1000 * MS
    entities = [backing, cache, cl]
    warm = case.get("warm")
    warmer = None
    if warm:
        # CacheWarmer (cache_warming.py) is one more client of the cache: it calls cache.get(key) for
        # each key and re-yields the delays.  It is handed a proxy whose get() is the real
        # CachedStore.get wrapped so that every segment is logged like a client operation
        # (operation numbers WARM0, WARM0+1, … in the order the warmer issues them).
        from happysimulator.components.datastore import CacheWarmer

        class Proxy:
            """the cache as the warmer sees it: every attribute is the real CachedStore's (a warmer may look at
            backing_store, contains_cached, … of the cache it was given), get() is wrapped to log its segments"""
            n = 0

            def __getattr__(self, name):
                return getattr(cache, name)

            def get(self, key):
                i = WARM0 + Proxy.n
                Proxy.n += 1
                if len(sched) > 400:
                    raise RuntimeError("watchdog: too many deliveries")

                def traced():
                    gen = cache.get(key)
                    try:
                        sched.append(f"adv {i} {warmer.now.nanoseconds}")
                        y = next(gen)
                        while True:
                            snap(i)
                            sent = yield y
                            sched.append(f"adv {i} {warmer.now.nanoseconds}")
                            y = gen.send(sent)
                    except StopIteration as e:
                        snap(i)
                        out.append(f"ret {i} {fmt_res('get', e.value, vt)}")
                        return e.value

                return traced()

        keys = [K(k) for k in warm["keys"]]
        warmer = CacheWarmer("warmer", Proxy(), (lambda: list(keys)) if warm.get("callable") else keys,
                             warmup_rate=float(warm["rate"]))
        warmer.start_warming()
        entities.append(warmer)
        end = max(end, warm["t"] + 1000 * MS)
    sim = Simulation(entities=entities, end_time=Instant(end))
    for i, op in enumerate(ops):
        sim.schedule(Event(time=Instant(op[0]), event_type="op", target=cl, context={"metadata": {"i": i}}))
    if warm:
        sim.schedule(Event(time=Instant(warm["t"]), event_type="cache_warm", target=warmer, context={"action": "warm_next"}))
    sim.run()
    if warm:
        st = warmer.stats
        out.append(f"warm n={st.keys_to_warm} warmed={st.keys_warmed} failed={st.keys_failed} "
                   f"complete={1 if warmer.is_complete and warmer.progress == 1.0 else 0}")
    return out, sched


def run_soft_sim(case):
    """Run the real SoftTTLCache inside a real Simulation. Returns (transcript, schedule, judge lines)."""
    from happysimulator.components.datastore import KVStore, SoftTTLCache
    from happysimulator.core.entity import Entity
    from happysimulator.core.event import Event
    from happysimulator.core.simulation import Simulation
    from happysimulator.core.temporal import Duration, Instant

    ops = case["ops"]
    out, sched, judge = [], [], []
    cur = [None]          # op whose segment is executing (for attributing backing reads)
    vt = Values(case)

    class LoggedKV(KVStore):
        """the user-supplied backing store; reports every read that returned a value"""

        def get(self, key):
            v = yield from super().get(key)
            if v is not None:
                out.append(f"src {int(key[1:])} {vt.dec(v)}")
                judge.append(f"src {int(key[1:])} {vt.dec(v)} {self.now.nanoseconds}")
            return v

    backing = LoggedKV("backing", read_latency=case["rl"] / 1e9, write_latency=case["wl"] / 1e9)

    def snap(i):
        c = sorted(int(k[1:]) for k in cache.get_cached_keys())
        universe = [K(k) for k in range(NKEYS)]
        f = sorted(int(k[1:]) for k in universe if cache.is_refreshing(k))
        b = sorted((int(k[1:]), vt.dec(backing.get_sync(k))) for k in backing.keys())
        o = [int(k[1:]) for k in cache._access_order]      # LRU bookkeeping (private; front = next victim)
        j = lambda xs: " ".join(map(str, xs))
        line = f"adv {i} | C {j(c)} | F {j(f)} | O {j(o)} | B {' '.join(f'{k}={v}' for k, v in b)}"
        out.append(" ".join(line.split()))
        judge.append(f"obs | C {j(c)} | O {j(sorted(o))}")

    def traced(gen, i, now, extra=""):
        try:
            sched.append(f"adv {i} {now().nanoseconds}{extra}")
            y = next(gen)
            while True:
                snap(i)
                sent = yield y
                sched.append(f"adv {i} {now().nanoseconds}")
                y = gen.send(sent)
        except StopIteration as e:
            snap(i)
            return e.value

    nref = [0]

    class TracedCache(SoftTTLCache):
        def handle_event(self, event):
            if event.event_type == "_sttl_refresh":
                i = 1000 + nref[0]
                nref[0] += 1
                key = event.context["metadata"]["key"]
                yield from traced(super().handle_event(event), i, lambda: self.now, f" refresh {int(key[1:])}")
                out.append(f"ret {i} ok")
                return None
            return (yield from super().handle_event(event))

    cache = TracedCache("cache", backing, Duration(case["soft"]), Duration(case["hard"]),
                        cache_capacity=case["cap"] or None, cache_read_latency=case["cl"] / 1e9)

    class Client(Entity):
        def handle_event(self, ev):
            i = ev.context["metadata"]["i"]
            op = ops[i]
            kind = op[1]
            if len(sched) > 600:
                raise RuntimeError("watchdog: too many deliveries")
            t0 = self.now.nanoseconds
            if kind == "get":
                r = yield from traced(cache.get(K(op[2])), i, lambda: self.now)
                judge.append(f"get {op[2]} {t0} {self.now.nanoseconds} {fmt_res(kind, r, vt)}")
                out.append(f"ret {i} {fmt_res(kind, r, vt)}")
                return
            if kind == "put":
                yield from traced(cache.put(K(op[2]), vt.enc(op[3])), i, lambda: self.now)
                judge.append(f"src {op[2]} {op[3]} {self.now.nanoseconds}")
            else:
                sched.append(f"adv {i} {self.now.nanoseconds}")
                if kind == "inv":
                    cache.invalidate(K(op[2]))
                elif kind == "invall":
                    cache.invalidate_all()
                elif kind == "bput":
                    backing.put_sync(K(op[2]), vt.enc(op[3]))
                elif kind == "bdel":
                    backing.delete_sync(K(op[2]))
                else:
                    raise ValueError(kind)
                snap(i)
            out.append(f"ret {i} ok")

    cl = Client("client")
    end = max([op[0] for op in ops] + [0]) + 10_000 * MS
    sim = Simulation(entities=[backing, cache, cl], end_time=Instant(end))
    for i, op in enumerate(ops):
        sim.schedule(Event(time=Instant(op[0]), event_type="op", target=cl, context={"metadata": {"i": i}}))
    sim.run()
    return out, sched, judge


def K(k):
    return f"k{k}"


# ---------------------------------------------------------------------------- extension families
# Components with their own model files live in separate modules (hv/props/c16_<x>.py, Lean
# HappyModel/C16/<X>*.lean behind `<X>.handle?` in the driver).  A module provides
#   FAMILY, SLOTS (how many of every 20 generated cases it wants), generate(rng, tier),
#   run_impl(case), model_block(case, variant, impl_out), judge_block(case, impl_out),
#   nontrivial_key(case, impl_out), THEOREMS, RULE, TRUSTED, ASSUMPTIONS, HYPOTHESES, PARTIAL
#   and optionally shrink(case), mutate(case, rng), compare_view(case, impl_out).
EXT = {}
for _name in ("c16_tier", "c16_page", "c16_wpol"):
    try:
        _m = importlib.import_module(f"hv.props.{_name}")
    except ModuleNotFoundError as _e:
        if _e.name != f"hv.props.{_name}":
            raise
        continue
    EXT[_m.FAMILY] = _m      # ENABLED = False (module under construction) only keeps it out of generation


class C16(core.Property):
    id = "C16"
    driver = "drv-c16"
    lake_targets = ["HappyProofs.C16.Props", "drv-c16"]
    audit_imports = ["HappyProofs.C16.Props"]
    lean_files = ["HappyModel/C16/*.lean", "HappyProofs/C16/*.lean", "HappyModel/Proto.lean", "Driver/C16.lean"]
    theorems = []
    quick_cases = 3000
    thorough_cases = 60000
    rule = ("family policy: ≤150 direct calls (on_access/on_insert/on_remove/evict/clear) on one of the nine policies over ≤4 keys, "
            "80 % following the cache's protocol (insert only untracked keys, evict when full at capacity 1–4), TTL clock readings on the "
            "ttl boundary (and stepping back), RNG draws given as priority lists; 30 % of the policy cases are clear() rounds for every one of the nine policies "
            "(fill to capacity, touch, clear(), re-insert the SAME keys, insert further keys with evict-when-full, remove / touch the re-inserted keys, 1–3 rounds), "
            "and for every case containing a clear() the calls after the last one are replayed on a freshly constructed policy (companion run of the clear law); "
            "a call that raises ends the policy run and is judged; the generator keeps its own held-set (the real policy is only asked, guardedly, which key an evict names); family store: real Simulation, CachedStore(capacity 1–3) "
            "over KVStore with read/write/delete latencies 1–8 ms, 3–16 get/put/delete/invalidate/invalidate_all/flush operations issued "
            "sequentially, at 0–6 ms spacing or exactly one latency apart (overlaps and ties), all nine policies × write-through/write-back, "
            "30 % of the store cases open with invalidate_all() rounds (fill, read, invalidate_all, the same keys written / read again, then other keys until the cache is full and evicts, "
            "delete / invalidate of re-inserted keys); a cache operation that raises is recorded and judged (store/op/raised) while the other operations go on; "
            "written values are opaque identities mapped per case to the int itself or to a falsy-but-not-None python object (0, 0.0, '', False, (), b'', frozenset(), 0j, fresh [] / {} / set() / bytearray(), "
            "user objects with __bool__ False or __len__ 0; none / 30 % / 60 % / all of the values of a script), for every policy × write mode; "
            "30 % of the store cases contain in-flight-window rounds (2–3 puts / deletes of ONE key started a fraction of the write latency apart so that their backing-store applications are in flight at once, "
            "the key dropped from the cache by the delete itself, an invalidate or an eviction, gets whose backing read lands before / between / exactly on / after the instants the writes are applied, then a get once all are applied); "
            "25 % of the store cases are warm-overlap rounds (1–3 keys written, applied and invalidated; a CacheWarmer fetches them one after the other while puts / deletes / invalidates of the key being fetched start before, inside, at the ends of and after the fetch's backing-read window; then every warmed key is read); the warmer is handed the cache itself (every attribute of the real CachedStore, get() wrapped for tracing); "
            "30 % of the remaining store cases add a CacheWarmer (0–6 keys with repeats and absent keys, 1–10 ms apart, list or callable provider) started at 0, on/next to an operation or right after an invalidate_all, running next to the client traffic; "
            "then flush and a read of every key; family softttl (same value domain): real Simulation, SoftTTLCache(soft 0–20 ms, hard soft+0–30 ms, capacity "
            "none/1/2/3 over 2–4 keys when finite), gets at entry age soft/hard ±1 ns and ± read latency, backing store rewritten/deleted behind the cache, "
            "refresh-window rounds (a stale hit starts a background refresh, misses of other keys complete inside the refresh's read latency and evict the key, or it is invalidated, before the refresh installs its value); "
            "after every segment size ≤ capacity and LRU-tracked keys = cached keys are judged; "
            "non-trivial: policy case with ≥1 successful evict, store/softttl case with >4 transcript lines; distinct = distinct case content")
    trusted_base = [
        "hv/props/c16.py adapters (drive the real policy / cache objects, canonical transcript)",
        "RandomEviction/SampledLRUEviction: the private `_rng` is replaced by an oracle whose draws are part of the case",
        "policy tracked-key set is read by draining a deepcopy through the public evict()",
        "engine-based families: the segment schedule (which operation advanced at each delivery, with its time) is taken from the real run and fed to the model; the engine's ordering is C01/C02's business",
        "SoftTTLCache.handle_event is wrapped by a subclass to log refresh segments; flush iteration order is read with get_dirty_keys() right before flush()",
        "SoftTTLCache: the LRU bookkeeping is read from the private `_access_order` after every segment (compared with the model in order; the Spec judge gets it sorted, next to get_cached_keys())",
        "written values are decoded from what the cache returns by object identity (the adapter keeps the object it passed to put())",
        "CacheWarmer is handed a proxy whose get() is the real CachedStore.get wrapped to log its segments",
    ]
    assumptions = [
        "read-after-write is additionally judged with overlapping writes ordered (readOkOrd): a get may not return the value of a write w' when a write that completed before the get was issued was both issued after w' and completed after w' (the cache takes writes in issue order, the backing store in completion order); proved for write-through stores; the write-back store as it is violates it in one known way (an eviction's / invalidation's / flush's synchronous write-back overtaken by a delete issued earlier that is still in flight — signature store/read-after-write/superseded/wb/writeback-overtaken-by-earlier-delete, known finding fixes/C16-writeback-overtaken-by-delete.known.md, theorem read_after_write_ordered_writeback_false); any other write-back violation is reported under …/wb/value or …/wb/absent",
        "read-after-write is judged as a regular register over segment order: a get may return the value of any write to its key that is not entirely followed by another write which completed before the get was issued (a delete writes 'absent'); put values are unique per script",
        "lost-write is judged at quiescence against the backing store's contents, exempting keys still reported dirty",
        "soft-TTL age is judged black-box: the returned value must have been read from the backing store (seen by the user-supplied KVStore subclass) or written through the cache less than hard_ttl before the get was issued; the Lean theorem is about the entry's cached_at at the moment the serve decision is taken",
        "TTLEviction clock: integer-valued float milliseconds (exact); SoftTTL TTLs passed as Duration nanoseconds (no float comparison anywhere)",
        "value domain: None is not used as a written value — KVStore.get / CachedStore.get document None as 'not found', so a stored None cannot be told from absence through the API; every other falsy value is in the domain",
        "cache_warming.py: the warmer's gets are ordinary operations of the store model (numbered from 2000); CacheWarmer.warmup_latency is accepted but never used by the code and is not judged; warmup_time_seconds (float statistic) is not compared",
    ]
    variants = ["repaired", "current"]
    hypotheses = [
        "policy theorems: well-formed histories (on_insert only for a key that is not tracked — the protocol CachedStore._cache_put follows; proved at the store level)",
        "store theorems: capacity ≥ 1 (the constructor rejects less), policy made by Pol.ofName",
        "soft_ttl_age_at_return(_within): repaired variant, soft_ttl ≤ hard_ttl, operation ids of the schedule pairwise distinct (tStartIds as).Nodup; clock readings arbitrary (also non-monotone)",
        "writeback_reaches_store, read_after_write_all_interleavings, read_after_write_sequential, soft_ttl_age_le_hard: repaired variant (fixes/C16-*.diff); soft_ttl ≤ hard_ttl (constructor)",
        "read_after_write_ordered_all_interleavings: write-through, repaired variant, Schedule ops as, and lateOk [] as — no resume of an id before its start (a spurious earlier resume would move the judge's issue index of that operation; observed runs never contain one); write-back stores: read_after_write_ordered_writeback_false (decided counterexample, the model being the code as it is)",
        "read_after_write_all_interleavings: Schedule ops as — operation ids unique, every first segment in the schedule is that of its table entry (a flush with any iteration order of the dirty set), no id started twice, put values pairwise distinct; resumes of ids with nothing pending are allowed anywhere (they are no-ops)",
    ]
    partial_theorems = {
        "HappyModel.C16.soft_ttl_age_le_hard": "age is measured when the serve decision is taken (issue time of a hit, end of the wait of a coalesced request); the return-time form is soft_ttl_age_at_return (age at return < hard_ttl + the time between the operation's first and returning segment, for every schedule with distinct operation ids) and soft_ttl_age_at_return_within (< hard_ttl + d when every operation returns within d of its first segment). Remaining gap: that d = cache_read_latency for a hit is the engine's doing (the model takes the clock reading of every segment as an input) — it is the observed schedule, not a theorem",
    }

    # ------------------------------------------------------------------ generation
    def generate(self, rng: random.Random, i: int, tier: str) -> dict:
        # of every 20 cases the last few go to the extension families, the rest to the core ones
        slot, base = i % 20, 20
        for m in EXT.values():
            if not getattr(m, "ENABLED", True):
                continue
            base -= m.SLOTS
            if slot >= base:
                return m.generate(rng, tier)
        i = (i // 20) * base + slot
        pol = POLICIES[(i // 3) % len(POLICIES)]
        if i % 3 == 0:
            return self.gen_policy(rng, tier, pol)
        if i % 3 == 2 and (i // 27) % 2 == 0:
            return self.gen_soft(rng, tier)
        case = self.gen_store(rng, tier, pol, wt=(i // 54) % 2)
        # a scheduled operation stamped before the clock is discarded by the engine and would be judged as
        # an operation that never completes: generated times are non-negative by construction, checked here
        assert all(op[0] >= 0 for op in case.get("ops", [])) and (case.get("warm") or {"t": 0})["t"] >= 0, "negative time generated"
        return case

    def gen_soft(self, rng, tier):
        soft = rng.choice([0, 10, 10, 20]) * MS
        hard = soft + rng.choice([0, 10, 10, 30]) * MS
        rl = rng.choice([1, 5, 5, 10]) * MS
        wl = rng.choice([1, 5]) * MS
        cl = rng.choice([100_000, 100_000, 0, MS])
        cap = rng.choice([0, 0, 1, 1, 2, 2, 3])
        nk = rng.choice([1, 2, 3]) if cap == 0 else rng.choice([2, 3, 4, 4])
        ops = []
        v = [1]

        def nv():
            v[0] += 1
            return v[0]

        t = 0
        cached = {}
        for k in range(nk):
            if rng.random() < 0.8:
                ops.append([0, "bput", k, nv()])
        n = rng.choice([3, 5, 8, 12])
        for _ in range(n):
            k = rng.randrange(nk)
            r = rng.random()
            base = cached.get(k)
            if base is not None and soft < hard and rng.random() < 0.35:
                # a background refresh of k in flight (stale hit at ts, the refresh reads the backing store
                # until ts + rl) while the entry leaves the cache: misses of other keys that complete inside
                # the window evict it (finite capacity), or it is invalidated; then traffic goes on
                ts = max(t, base + rng.choice([soft, soft + 1, (soft + hard) // 2, hard - 1]))
                ops.append([ts, "get", k])
                others = [x for x in range(nk) if x != k]
                rng.shuffle(others)
                for x in others[:rng.choice([1, max(1, cap), max(1, cap), cap + 1])]:
                    # completes at ts + e, e in (0, rl]
                    e = rng.choice([1, 100_000, rl // 2, rl - 1, rl])
                    ops.append([max(0, ts - rl + e), "get", x])
                    if rng.random() < 0.5 and not any(o[1] == "bput" and o[2] == x for o in ops):
                        ops.append([0, "bput", x, nv()])
                if rng.random() < 0.3:
                    ops.append([ts + rng.choice([1, rl // 2, rl - 1]), "inv", k])
                t = ts + rl + rng.choice([0, 1, rl // 2, rl])
                ops.append([t, "get", rng.randrange(nk)])
                cached.pop(k, None)
                continue
            if base is not None and rng.random() < 0.7:
                # on / around the zone boundaries of the entry we believe is cached
                off = rng.choice([soft - 1, soft, soft + 1, hard - 1, hard, hard + 1, hard - rl // 2,
                                  hard + rl // 2, hard - rl, soft + rl, (soft + hard) // 2, hard + rl + 1])
                t = max(t, base + max(0, off))
            else:
                t += rng.choice([0, 1, MS, rl, rl // 2, 3 * MS, 7 * MS])
            if r < 0.6:
                ops.append([t, "get", k])
                if base is None or t - base >= hard:
                    cached[k] = t + rl
            elif r < 0.7:
                ops.append([t, "put", k, nv()])
                cached[k] = t + wl
            elif r < 0.8:
                ops.append([t, "bput", k, nv()])
            elif r < 0.92:
                ops.append([t, "bdel", k])
            elif r < 0.97:
                ops.append([t, "inv", k])
                cached.pop(k, None)
            else:
                ops.append([t, "invall"])
                cached.clear()
        ops.sort(key=lambda o: o[0])
        vals = pick_vals(rng, [o[3] for o in ops if o[1] in ("put", "bput")])
        return {"family": "softttl", "soft": soft, "hard": hard, "cap": cap, "rl": rl, "wl": wl, "cl": cl, "ops": ops,
                "vals": vals}

    def gen_store(self, rng, tier, name, wt):
        nk = rng.choice([2, 3, 3, 4])
        cap = rng.choice([1, 1, 2, 2, 3])
        arg = 0
        if name == "ttl":
            arg = rng.choice([1, 3, 6, 20])     # ms
        if name == "sampled":
            arg = rng.choice([1, 2, 5])
        wl = rng.choice([5, 5, 2, 1]) * MS
        lat = {"rl": rng.choice([1, 1, 2, 5]) * MS, "wl": wl,
               "dl": wl if rng.random() < 0.7 else rng.choice([1, 3, 8]) * MS,
               "cl": rng.choice([100_000, 100_000, 0, MS])}
        n = rng.choice([3, 5, 8, 12, 16])
        style = rng.random()
        t = 0
        ops = []
        hot = rng.randrange(nk)

        def gap():
            if style < 0.25:
                return rng.choice([10, 12, 20]) * MS            # sequential: no overlaps
            if style < 0.6:
                return rng.choice([0, 0, 500_000, MS, MS, 2 * MS, 4 * MS, 5 * MS, 6 * MS])
            return rng.choice([0, 100_000, MS, lat["rl"], lat["wl"], abs(lat["wl"] - lat["rl"]), 7 * MS])   # a gap is never negative: an operation stamped before the clock would be discarded by the engine

        if rng.random() < 0.3:
            # invalidate_all() (policy.clear()) rounds: fill the cache, touch the entries, drop everything,
            # bring the SAME keys back (writes and miss fills), then other keys until the cache is full
            # and must evict, then delete / invalidate / re-read the re-inserted keys.  Whatever per-key
            # state a policy keeps besides its key collection has to be gone after the clear.
            cap = rng.choice([1, 2, 2, 3])
            nk = NKEYS if cap < 3 or rng.random() < 0.7 else nk
            hot = rng.randrange(nk)
            for _ in range(rng.choice([1, 1, 2])):
                first = rng.sample(range(nk), min(nk, rng.choice([cap, cap, cap + 1])))
                for k in first:
                    t += gap()
                    ops.append([t, "put", k, 0] if rng.random() < 0.7 else [t, "get", k])
                    if rng.random() < 0.4:
                        t += gap()
                        ops.append([t, "get", rng.choice(first)])
                t += rng.choice([gap(), 10 * MS, 10 * MS])
                ops.append([t, "invall"])
                again = list(first)
                if rng.random() < 0.4:
                    rng.shuffle(again)
                for k in again:
                    t += gap()
                    ops.append([t, "put", k, 0] if rng.random() < 0.6 else [t, "get", k])
                others = [k for k in range(nk) if k not in first] or list(range(nk))
                for _ in range(rng.choice([1, 2, 3, 4])):
                    t += gap()
                    r = rng.random()
                    k = rng.choice(others) if rng.random() < 0.7 else rng.choice(first)
                    if r < 0.55:
                        ops.append([t, "put", k, 0])
                    elif r < 0.8:
                        ops.append([t, "get", k])
                    elif r < 0.9:
                        ops.append([t, "del", rng.choice(first)])
                    else:
                        ops.append([t, "inv", rng.choice(first)])
            n = rng.choice([0, 2, 4, 8])
        if rng.random() < 0.3:
            # in-flight windows: several writes / deletes of ONE key whose backing-store applications are in
            # flight at once, the key taken out of the cache meanwhile (the delete itself, an invalidate, an
            # eviction by another key), and misses whose backing read lands before, between, exactly on and
            # after the instants the writes are applied, then a read once everything has been applied.
            # Whatever a miss reads while a newer write is still on its way must not stay in the cache.
            for _ in range(rng.choice([1, 1, 2])):
                k = rng.randrange(nk)
                other = (k + 1 + rng.randrange(max(1, nk - 1))) % nk
                rnd, applied, tt = [], [], t + gap()
                for j in range(rng.choice([2, 2, 2, 3])):
                    kind = "put" if rng.random() < 0.65 else "del"
                    L = lat["dl"] if kind == "del" else (lat["wl"] if wt else lat["cl"])
                    rnd.append([tt, kind, k, 0] if kind == "put" else [tt, kind, k])
                    applied.append(tt + L)
                    tt += max(100_000, rng.choice([L // 4, L // 2, L // 2, L - 100_000, L - lat["rl"], L]))
                applied.sort()
                reads = set()
                for a, b in zip(applied, applied[1:] + [applied[-1] + 2 * MS]):
                    for r in rng.sample([a, a + 100_000, (a + b) // 2, b - 100_000, a - 100_000], rng.choice([1, 2, 3])):
                        reads.add(r)
                first = True
                for r in sorted(reads):
                    tg = max(t, r - lat["rl"])
                    # the key is dropped from the cache before the first of these reads (so that it misses);
                    # the later ones mostly find whatever the earlier miss left behind
                    d = rng.random() if first or rng.random() < 0.25 else 1.0
                    first = False
                    if d < 0.7:
                        rnd.append([tg, "inv", k])
                    elif d < 0.9:
                        rnd.append([tg, "put", other, 0])      # at capacity 1 (or a full cache) this evicts k
                    rnd.append([tg, "get", k])
                tt = max(tt, applied[-1]) + rng.choice([100_000, MS, 5 * MS])
                rnd.append([tt, "get", k])
                rnd.sort(key=lambda o: o[0])
                ops.extend(rnd)
                t = tt
            n = rng.choice([0, 0, 2, 4])
        for j in range(n):
            t += gap()
            k = hot if rng.random() < 0.5 else rng.randrange(nk)
            r = rng.random()
            if r < 0.34:
                ops.append([t, "get", k])
            elif r < 0.68:
                ops.append([t, "put", k, 0])
            elif r < 0.80:
                ops.append([t, "del", k])
            elif r < 0.88:
                ops.append([t, "inv", k])
            elif r < 0.91:
                ops.append([t, "invall"])
            else:
                ops.append([t, "flush"])
        warm_fix = None
        if rng.random() < 0.25:
            # warm-up overlapping client traffic on the warmed keys: the keys are in the backing store but not
            # cached (written, applied, invalidated); the warmer fetches them one after the other (a fetch that
            # misses reads the backing store for rl); puts / deletes / invalidates of the key being fetched start
            # before, inside, exactly at the ends of and after that read window; then every warmed key is read.
            # What the warmer brings in must obey the same rules as any other miss fill.
            t += gap() + max(lat["wl"], lat["dl"]) + MS
            wkeys = rng.sample(range(nk), rng.choice([1, 2, min(3, nk)]))
            for k in wkeys:
                ops.append([t, "put", k, 0])
                t += rng.choice([MS, lat["wl"]])
            t += max(lat["wl"], lat["cl"]) + MS
            if rng.random() < 0.5:
                ops.append([t, "invall"])
            else:
                for k in wkeys:
                    ops.append([t, "inv", k])
            t += MS
            tw = t
            rate = rng.choice([1000, 500, 200])
            step = lat["rl"] + 10 ** 9 // rate          # fetch j starts about here when every fetch misses
            rnd = []
            for j, k in enumerate(wkeys):
                base = tw + j * step
                for _ in range(rng.choice([1, 1, 2])):
                    d = rng.choice([0, 100_000, lat["rl"] // 2, lat["rl"] - 100_000, lat["rl"], lat["rl"] + 100_000])
                    kind = rng.choice(["put", "put", "del", "inv"])
                    rnd.append([base + d, kind, k, 0] if kind == "put" else [base + d, kind, k])
            t = tw + len(wkeys) * step + max(lat["wl"], lat["dl"]) + MS
            for k in wkeys:
                rnd.append([t, "get", k])
                t += MS
            rnd.sort(key=lambda o: o[0])
            ops.extend(rnd)
            warm_fix = {"t": tw, "keys": wkeys, "rate": rate, "callable": int(rng.random() < 0.3)}
        # quiesce, flush, then read everything back through the cache
        t += 40 * MS
        ops.append([t, "flush"])
        t += 40 * MS
        for k in range(nk):
            ops.append([t, "get", k])
            t += 20 * MS
        v = 1
        for op in ops:
            if op[1] == "put":
                op[3] = v
                v += 1
        picks = [rng.sample(range(NKEYS), NKEYS) for _ in range(3)]
        vals = pick_vals(rng, range(1, v))
        case = {"family": "store", "policy": name, "arg": arg, "cap": cap, "wt": int(wt), "lat": lat,
                "picks": picks, "ops": ops, "vals": vals}
        if warm_fix is not None:
            case["warm"] = warm_fix
        elif rng.random() < 0.3:
            # a CacheWarmer runs next to the client traffic (cold start after an invalidate_all, or any time):
            # starts on / next to an operation, keys with repeats and keys the store does not have
            tw = rng.choice([0, rng.choice(ops)[0], rng.choice(ops)[0] + rng.choice([0, 100_000, MS, lat["rl"]])])
            if rng.random() < 0.4:
                inv = [o for o in ops if o[1] == "invall"]
                if inv:
                    tw = inv[0][0] + rng.choice([0, 0, 100_000, MS])
            written = sorted({o[2] for o in ops if o[1] == "put"}) or [0]
            case["warm"] = {"t": max(0, tw), "keys": [rng.choice(written) if rng.random() < 0.6 else rng.randrange(min(nk + 1, NKEYS))
                                              for _ in range(rng.choice([0, 1, 2, 3, 4, 6]))],
                            "rate": rng.choice([1000, 500, 200, 100]), "callable": int(rng.random() < 0.3)}
        return case

    def gen_policy(self, rng, tier, name):
        ln = rng.choice([3, 6, 10, 16, 24, 40, 60])
        if name in ("clock", "twoq", "slru") and rng.random() < 0.6:
            ln = rng.choice([40, 60, 100, 150])   # positional state (hand, segments, ghost queue) needs long runs
        nk = rng.choice([2, 3, 4, 4])
        arg = 0
        if name == "ttl":
            arg = rng.choice([1, 2, 3, 5])
        if name == "sampled":
            arg = rng.choice([1, 2, 3, 5])
        wf = rng.random() < 0.8          # follow the cache's protocol (insert only untracked keys)
        cap = rng.choice([1, 2, 3, 4])
        refill = rng.random() < 0.3      # clear() / re-insertion of the same keys / capacity pressure rounds
        sh = _GenShadow(name, arg)       # harness-side bookkeeping of the held keys (never trusts the policy)
        now = 0
        ops = []

        def emit(op):
            ops.append(op)
            sh.apply(op)

        def tick():
            nonlocal now
            if name == "ttl":
                now += rng.choice([0, 0, 1, 1, 2, arg, arg - 1 if arg > 1 else 1])
                if rng.random() < 0.05:
                    now = max(0, now - rng.choice([1, 2]))   # clock_func is arbitrary: may step back

        def put(k):
            """what CachedStore._cache_put does: access if held, else evict while full, then insert"""
            if k in sh.held:
                emit(["a", now, k])
                return
            if len(sh.held) >= cap:
                emit(["e", now] + rng.sample(range(NKEYS), NKEYS))
            emit(["i", now, k])

        if refill:
            # invalidate_all() is policy.clear(): whatever per-key state the policy keeps next to its
            # key collection (reference bits, frequencies, segment membership, ghost entries, insertion
            # times) must be gone too, or the keys re-inserted afterwards are mis-tracked.  Rounds of
            # fill -> touch -> clear -> re-insert the SAME keys -> insert others until the cache is full
            # and evicts -> remove / touch the re-inserted keys.
            cap = rng.choice([1, 2, 2, 3])
            nk = NKEYS
            for _ in range(rng.choice([1, 1, 2, 3])):
                first = rng.sample(range(nk), rng.choice([cap, cap, max(1, cap - 1), min(nk, cap + 1)]))
                for k in first:
                    tick()
                    put(k)
                    if rng.random() < 0.5:
                        tick()
                        emit(["a", now, rng.choice(first)])      # promote / set the reference bit / bump the count
                if rng.random() < 0.3:
                    tick()
                    emit(["e", now] + rng.sample(range(NKEYS), NKEYS))
                tick()
                emit(["c", now])
                again = list(first)
                if rng.random() < 0.4:
                    rng.shuffle(again)
                for k in again[:rng.choice([len(again), len(again), max(1, len(again) - 1)])]:
                    tick()
                    put(k)
                    if rng.random() < 0.3:
                        tick()
                        emit(["a", now, k])
                others = [k for k in range(nk) if k not in first] or [rng.randrange(nk)]
                for _ in range(rng.choice([1, 2, 3, 5])):
                    tick()
                    r = rng.random()
                    if r < 0.6:
                        put(rng.choice(others) if rng.random() < 0.7 else rng.randrange(nk))
                    elif r < 0.75:
                        emit(["r", now, rng.choice(first)])
                    elif r < 0.9:
                        emit(["a", now, rng.choice(first)])
                    else:
                        emit(["e", now] + rng.sample(range(NKEYS), NKEYS))
            ln = rng.choice([0, 3, 10, 24])
        for _ in range(ln):
            r = rng.random()
            tick()
            k = rng.randrange(nk)
            if r < 0.40:
                if wf:
                    put(k)
                else:
                    emit(["i", now, k])
            elif r < 0.65:
                emit(["a", now, k])
            elif r < 0.78:
                emit(["r", now, k])
            elif r < 0.97:
                emit(["e", now] + rng.sample(range(NKEYS), NKEYS))
            else:
                emit(["c", now])
        return {"family": "policy", "policy": name, "arg": arg, "ops": ops}

    def _held_after(self, name, arg, ops):
        """the keys a protocol-following cache would hold after `ops` (generator-side bookkeeping)"""
        sh = _GenShadow(name, arg)
        for op in ops:
            sh.apply(op)
        return set(sh.held)

    # ------------------------------------------------------------------ implementation
    def run_impl(self, case):
        fam = case["family"]
        if fam in EXT:
            return EXT[fam].run_impl(case)
        if fam == "policy":
            return self.impl_policy(case)
        if fam == "store":
            out, sched = run_store_sim(case)
            return out + ["#s " + l for l in sched]
        if fam == "softttl":
            out, sched, judge = run_soft_sim(case)
            return out + ["#s " + l for l in sched] + ["#j " + l for l in judge]
        raise ValueError(fam)

    def compare_view(self, case, impl_out):
        """lines starting with '#' carry the segment schedule of the real run (input of the model,
        GUIDE rule 8) and judge-only observations (times); they are not part of the comparison"""
        if case.get("family") in EXT and hasattr(EXT[case["family"]], "compare_view"):
            return EXT[case["family"]].compare_view(case, impl_out)
        return [l for l in impl_out if not l.startswith("#")]

    def impl_policy(self, case):
        out = self._impl_policy_run(case, case["ops"])
        # metamorphic companion run for the `clear` law (policy_clear_is_fresh): the calls after the
        # last clear(), replayed on a freshly constructed policy, must be answered identically
        cs = [j for j, op in enumerate(case["ops"]) if op[0] == "c"]
        if cs and len(out) == len(case["ops"]) and not out[-1].startswith("exc "):
            j = cs[-1]
            fresh = self._impl_policy_run(case, case["ops"][j + 1:])
            out = out + [f"#f {j + 1 + n} {l}" for n, l in enumerate(fresh)]
        return out

    def _impl_policy_run(self, case, ops):
        clock = [0]
        pol, orc = make_policy(case["policy"], case["arg"], lambda: float(clock[0]))
        det = orc is None
        out = []
        for op in ops:
            clock[0] = op[1]
            res = "-"
            try:
                if op[0] == "i":
                    pol.on_insert(K(op[2]))
                elif op[0] == "a":
                    pol.on_access(K(op[2]))
                elif op[0] == "r":
                    pol.on_remove(K(op[2]))
                elif op[0] == "e":
                    if orc is not None:
                        orc.prio = op[2:]
                    k = pol.evict()
                    res = "-" if k is None else str(int(k[1:]))
                elif op[0] == "c":
                    pol.clear()
            except Exception as e:
                # a protocol call that raises is an observation (judged as policy/call/raised after the
                # calls that did return); the object's state is undefined from here on, so the run ends
                out.append(f"exc {type(e).__name__}")
                break
            if orc is not None:
                orc.prio = []
            d = drain_copy(pol)
            line = f"r {res} T {' '.join(map(str, sorted(d)))} D {' '.join(map(str, d)) if det else '~'}"
            out.append(" ".join(line.split()))
        return out

    # ------------------------------------------------------------------ model / judge
    @staticmethod
    def _pol_lines(case):
        return [" ".join(map(str, op)) for op in case["ops"]]

    def model_block(self, case, variant):
        return self.model_block_from_impl(case, variant, None)

    def model_block_from_impl(self, case, variant, impl_out):
        fam = case["family"]
        if fam in EXT:
            if impl_out is None:
                impl_out = self.run_impl(case)
            return EXT[fam].model_block(case, variant, impl_out)
        if fam == "policy":
            return (f"policy {case['policy']} {case['arg']}", self._pol_lines(case))
        if impl_out is None:
            impl_out = self.run_impl(case)
        sched = [l[3:] for l in impl_out if l.startswith("#s ")]
        if fam == "softttl":
            body = [f"op {i} " + " ".join(map(str, op[1:])) for i, op in enumerate(case["ops"])] + sched
            return (f"softttl {variant} {case['soft']} {case['hard']} {case['cap']}", body)
        if fam == "store":
            body = self._store_head(case) + sched
            return (f"store {variant} {case['policy']} {case['arg']} {case['cap']} {case['wt']}", body)
        raise ValueError(fam)

    @staticmethod
    def _store_head(case):
        body = ["pick " + " ".join(map(str, p)) for p in case["picks"]]
        for i, op in enumerate(case["ops"]):
            body.append(f"op {i} " + " ".join(map(str, op[1:])))
        if case.get("warm"):
            for jx, k in enumerate(case["warm"]["keys"]):
                body.append(f"op {WARM0 + jx} get {k}")
            body.append(f"warm {len(case['warm']['keys'])}")
        return body

    def model_postprocess(self, case, out):
        return [" ".join(l.split()) for l in out]

    def judge_block(self, case, impl_out):
        if impl_out and impl_out[0].startswith("IMPL-"):
            return None
        fam = case["family"]
        if fam in EXT:
            return EXT[fam].judge_block(case, impl_out)
        if fam == "policy":
            lines = self._pol_lines(case)
            fresh = [l[3:] for l in impl_out if l.startswith("#f ")]
            impl_out = [l for l in impl_out if not l.startswith("#")]
            raised = bool(impl_out) and impl_out[-1].startswith("exc ")
            if len(lines) != len(impl_out) and not raised:
                return None
            body = []
            for l, o in zip(lines, impl_out):
                body.append(l)
                body.append(o if o.startswith("exc ") else "obs " + o[2:].split(" D")[0])
            for f in fresh:
                j, rest = f.split(" ", 1)
                body.append(f"after-clear {j} {impl_out[int(j)]}")
                body.append(f"fresh {j} {rest}")
            return (f"judge-policy {case['policy']} {case['arg']}", body)
        if fam == "softttl":
            return (f"judge-softttl {case['hard']} {case['cap']}", [l[3:] for l in impl_out if l.startswith("#j ")])
        if fam == "store":
            body = self._store_head(case)
            last_b = ""
            k = 0
            raised = []
            impl_out = self.compare_view(case, impl_out)
            warmobs = [l for l in impl_out if l.startswith("warm ")]
            impl_out = [l for l in impl_out if not l.startswith("warm ")]
            while k < len(impl_out):
                l = impl_out[k]
                if not l.startswith("adv "):
                    return None
                left, b = l.split(" | B")
                last_b = b.strip()
                res = "-"
                if k + 1 < len(impl_out) and impl_out[k + 1].startswith("ret "):
                    res = impl_out[k + 1].split()[2]
                    k += 1
                if res.startswith("raised:"):
                    raised.append(f"raised {l.split()[1]} {res[7:]}")
                    res = "-"
                body.append("obs" + left[3:] + " | R " + res)
                k += 1
            body += raised
            body.append("fin " + last_b)
            body += ["warmobs " + l[5:] for l in warmobs]
            return (f"judge-store {case['policy']} {case['arg']} {case['cap']} {case['wt']}", body)
        return None

    def nontrivial_key(self, case, impl_out):
        fam = case["family"]
        if fam in EXT:
            return EXT[fam].nontrivial_key(case, impl_out)
        if fam == "policy":
            ev = sum(1 for o in impl_out if o.startswith("r ") and not o.startswith("r -"))
            if ev >= 1:
                return json.dumps(case, sort_keys=True)
            return None
        if fam == "store":
            # non-trivial: at least one eviction or miss fill happened (cache content shrank or a get took two segments on the backing path)
            if len(self.compare_view(case, impl_out)) > 4:
                return json.dumps(case, sort_keys=True)
            return None
        return json.dumps(case, sort_keys=True)

    def shrink(self, case):
        if case.get("family") in EXT and hasattr(EXT[case["family"]], "shrink"):
            yield from EXT[case["family"]].shrink(case)
            return
        key = "ops"
        xs = case[key]
        n = len(xs)
        step = max(1, n // 2)
        while step >= 1:
            for i in range(0, n, step):
                cand = dict(case)
                cand[key] = xs[:i] + xs[i + step:]
                if len(cand[key]) < n:
                    yield cand
            step //= 2

    def mutate(self, case, rng):
        if case.get("family") in EXT and hasattr(EXT[case["family"]], "mutate"):
            return EXT[case["family"]].mutate(case, rng)
        xs = [list(x) for x in case["ops"]]
        if not xs:
            return case
        for _ in range(rng.randint(1, 3)):
            i = rng.randrange(len(xs))
            k = rng.random()
            if k < 0.3 and len(xs) > 1:
                del xs[i]
            elif k < 0.6:
                xs.insert(i, list(rng.choice(xs)))
            else:
                j = rng.randrange(len(xs))
                xs[i], xs[j] = xs[j], xs[i]
        c = dict(case)
        c["ops"] = xs
        if case["family"] == "policy" and case["policy"] == "ttl":
            pass
        return c


THEOREMS = [
    "HappyModel.C16.policy_keys_eq_cache_keys",
    "HappyModel.C16.policy_evict_none_iff_empty",
    "HappyModel.C16.policy_evict_returns_held_key",
    "HappyModel.C16.policy_clear_is_fresh",
    "HappyModel.C16.size_le_capacity",
    "HappyModel.C16.store_policy_keys_eq_cache_keys",
    "HappyModel.C16.evict_break_unreachable",
    "HappyModel.C16.lru_evicts_least_recent",
    "HappyModel.C16.lfu_evicts_least_frequent",
    "HappyModel.C16.fifo_evicts_oldest",
    "HappyModel.C16.ttl_evicts_expired_or_oldest",
    "HappyModel.C16.slru_evicts_probation_first",
    "HappyModel.C16.sampled_evicts_lru_of_sample",
    "HappyModel.C16.read_after_write_all_interleavings",
    "HappyModel.C16.read_after_write_overlap_witness",
    "HappyModel.C16.read_after_write_ordered_all_interleavings",
    "HappyModel.C16.read_after_write_ordered_witness",
    "HappyModel.C16.read_after_write_ordered_writeback_false",
    "HappyModel.C16.read_after_write_sequential",
    "HappyModel.C16.read_after_write_refill_witness",
    "HappyModel.C16.writeback_reaches_store",
    "HappyModel.C16.writeback_lost_current",
    "HappyModel.C16.dirty_evicted_lost_current",
    "HappyModel.C16.dirty_evicted_lost_judged",
    "HappyModel.C16.soft_ttl_age_le_hard",
    "HappyModel.C16.soft_ttl_expired_served_current",
    "HappyModel.C16.soft_ttl_age_at_return",
    "HappyModel.C16.soft_ttl_age_at_return_within",
    "HappyModel.C16.soft_ttl_size_le_capacity",
    "HappyModel.C16.soft_ttl_lru_keys_eq_cache_keys",
]
for _m in EXT.values():
    THEOREMS = THEOREMS + list(_m.THEOREMS)
    C16.rule = C16.rule + "; " + _m.RULE
    C16.trusted_base = C16.trusted_base + list(_m.TRUSTED)
    C16.assumptions = C16.assumptions + list(_m.ASSUMPTIONS)
    C16.hypotheses = C16.hypotheses + list(_m.HYPOTHESES)
    C16.partial_theorems = {**C16.partial_theorems, **_m.PARTIAL}
C16.theorems = THEOREMS
PROPERTY = C16()
