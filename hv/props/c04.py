"""C04 — observing, pausing or stepping a run does not change it.

C01/C02 programs are run on the real engine under every observation mode (plain fast loop, trace
recorder, event tracing, control attached and driven by a generated pause/step/resume/breakpoint
script, reset()+run()) and compared with the Lean models: the plain loop (`run`) for the passive
modes and for reset, the instrumented loop with the control surface (`ctlLoop`, HappyModel/C04) for
control scripts.  The Lean theorems relate `ctlLoop` to `run`.
"""
from __future__ import annotations

import random

from hv import core
from hv.engine_harness import Harness, program_lines
from hv.props.c01 import gen_program
from hv.props.c02 import gen_future_program

MODES = ["plain", "trace", "evtrace", "ctl", "ctl", "ctl", "reset", "reset-src"]


def gen_script(rng: random.Random, prog):
    cmds = [["P"], ["G"]] if rng.random() < 0.6 else []
    for _ in range(rng.randint(0, 8)):
        r = rng.random()
        if r < 0.35:
            cmds.append(["S", rng.choice([1, 1, 2, 3, 5, 20])])
        elif r < 0.5:
            cmds.append(["G"])
        elif r < 0.6:
            cmds.append(["P"])
        elif r < 0.7:
            cmds.append(["BT", rng.choice(prog["times"]), rng.choice([0, 1])])
        elif r < 0.8:
            cmds.append(["BC", rng.randint(1, 12), rng.choice([0, 1])])
        elif r < 0.88:
            cmds.append(["BK", rng.randint(1, 6), rng.choice([0, 1])])
        elif r < 0.93:
            cmds.append(["CLR"])
        else:
            cmds.append(["HP", rng.randint(1, 10)])
    if not any(c[0] == "G" for c in cmds):
        cmds.insert(0, ["G"])
    # a step before the first run() is an API error; keep scripts valid
    first_go = next(i for i, c in enumerate(cmds) if c[0] == "G")
    cmds = [c for i, c in enumerate(cmds) if not (c[0] == "S" and i < first_go)]
    cmds.append(["CLR"])
    cmds.append(["FIN"])
    return cmds


class C04(core.Property):
    id = "C04"
    driver = "drv-c04"
    lake_targets = ["HappyProofs.C04.Props", "drv-c04"]
    audit_imports = ["HappyProofs.C04.Props"]
    lean_files = ["HappyModel/C01/*.lean", "HappyModel/C04/*.lean", "HappyProofs/C04/*.lean", "HappyModel/Proto.lean", "Driver/C04.lean"]
    variants = ["contgate", "current"]
    theorems = [
        "HappyModel.C04.run_add",
        "HappyModel.C04.ctlLoop_is_run_prefix",
        "HappyModel.C04.control_prefix",
        "HappyModel.C04.control_invariance",
        "HappyModel.C04.step_exact",
        "HappyModel.C04.stepWith_processed",
    ]
    partial_theorems = {
        "breakpoint_first": "a breakpoint pauses right after the first delivery that satisfies it: true by construction of ctlLoop (the check follows every delivery); compared on every run, not stated as a separate theorem",
        "reset_replays": "reset()+run() repeating the delivery sequence is compared on every run (mode reset) against the plain model; no theorem (reset is outside the loop model)",
    }
    quick_cases = 900
    thorough_cases = 40000
    case_timeout_s = 30
    rule = ("a C01 or C02 program × an observation mode: plain / InMemoryTraceRecorder / enable_event_tracing() / control attached and "
            "driven by a generated script of pause, run, step(n), resume, time / count / event-type breakpoints (one-shot or not), "
            "clear, pausing on_event hook / reset()+run(). After every control command get_state() is compared; at the end the "
            "entity-side delivery log. Non-trivial = the run was interrupted at least once or observed by a recorder; distinct = "
            "distinct transcript")
    trusted_base = [
        "hv/engine_harness.py scripted entities",
        "control scripts never call the API in a state where it raises (step before run, resume when not paused)",
        "reset mode: pre-run events carry no completion hooks and are not pre-cancelled (reset() replays time/type/target/daemon/metadata only)",
    ]
    assumptions = [
        "observation devices (read-only hooks, trace recorder, event tracing) are not in the model: the passive modes must equal the plain model run",
    ]

    def generate(self, rng, i, tier):
        prog = gen_future_program(rng) if rng.random() < 0.4 else gen_program(rng, crash=rng.random() < 0.5)
        mode = rng.choice(MODES)
        prog["mode"] = mode
        if mode == "ctl":
            prog["script"] = gen_script(rng, prog)
        if mode == "reset-src":
            # load sources / probes are re-primed by reset(); their first ticks tie with pre-run events
            small = max(prog["times"]) < 10**6
            prog["sources"] = [{"rate": rng.choice([1e6, 5e5] if small else [1.0, 0.5]), "tgt": rng.randrange(prog["ents"]),
                                "kind": rng.randint(1, 6), "stop": (rng.choice([3000, 6000]) if small else rng.choice([3 * 10**9, 6 * 10**9])),
                                "probe": rng.random() < 0.3}
                               for _ in range(rng.randint(1, 2))]
            prog["end"] = 20000 if small else 10**10    # a source ticks forever: the run needs a horizon
        if mode in ("reset", "reset-src"):
            for p in prog["pre"]:
                p["hook"] = 0
                p["cancelled"] = False
            # state that survives reset() (futures, crash flags) is entity state: keep the model stateless
            prog["defs"] = [d for d in prog["defs"] if not any(
                a[0] in ("R", "A", "L", "N", "C", "U") for s in d["segs"] for a in s["acts"]) and not any(
                s["term"][0] == "W" for s in d["segs"])]
            # handles to events (for cancel) are entity state too, and the replayed pre-run events are
            # new objects the scripted entities hold no handle to
            prog["defs"] = [dict(d, segs=[dict(s, acts=[a for a in s["acts"] if a[0] not in ("X", "RH", "EA")]) for s in d["segs"]])
                            for d in prog["defs"]]
            prog.pop("held", None)   # pre-created events held by entities are entity state as well
        prog["family"] = f"{mode}/" + ("auto" if prog["end"] is None else "end")
        if mode == "reset-src":
            prog["family"] += " (judge only: load sources are not in the Lean model)"
        return prog

    # ------------------------------------------------------------------ implementation
    def run_impl(self, case):
        out = self._run_mode(case)
        if case["mode"] != "plain":
            out = out + ["#ref"] + self.reference(case)
        return out

    def _run_mode(self, case):
        mode = case["mode"]
        h = Harness(case)
        if mode == "trace":
            from happysimulator.instrumentation.recorder import InMemoryTraceRecorder
            sim = h.build(trace_recorder=InMemoryTraceRecorder())
            return h.run()
        if mode in ("reset-src",) or case.get("sources"):
            sim = h.build(**self._sources(h, case))
        else:
            sim = h.build()
        if mode == "plain":
            return h.run()
        if mode == "evtrace":
            from happysimulator.core import event as evmod
            evmod.enable_event_tracing()
            try:
                return h.run()
            finally:
                evmod.disable_event_tracing()
        if mode in ("reset", "reset-src"):
            h.run()
            first = list(h.log)
            sim.control.reset()
            h.log.clear()
            h.trace.clear()
            h.tagc = len(case["pre"])
            h.npid = 0
            h.last_kind.clear()
            for e in h.ents:
                e._crashed = False
            out = h.run()
            return out
        # control script
        from happysimulator.core.control.breakpoints import EventCountBreakpoint, EventTypeBreakpoint, TimeBreakpoint
        ctl = sim.control
        states = []

        def st():
            s = ctl.get_state()
            states.append(f"st {s.current_time.nanoseconds} {s.events_processed} {1 if s.is_paused else 0} {1 if s.is_running else 0}")

        def driver(sim):
            summary = None
            started = False
            for c in case["script"]:
                op = c[0]
                if op == "P":
                    ctl.pause()
                elif op == "G":
                    if not started:
                        summary = sim.run()
                        started = True
                    elif ctl.is_paused:
                        summary = ctl.resume()
                elif op == "S":
                    if started and ctl.is_running and ctl.is_paused:
                        summary = ctl.step(c[1])
                    elif started and ctl.is_running:
                        summary = ctl.step(c[1])
                elif op == "BT":
                    ctl.add_breakpoint(TimeBreakpoint(time=h.Instant(c[1]), one_shot=bool(c[2])))
                elif op == "BC":
                    ctl.add_breakpoint(EventCountBreakpoint(count=c[1], one_shot=bool(c[2])))
                elif op == "BK":
                    ctl.add_breakpoint(EventTypeBreakpoint(event_type=f"k{c[1]}", one_shot=bool(c[2])))
                elif op == "CLR":
                    ctl.clear_breakpoints()
                elif op == "HP":
                    k = c[1]
                    ctl.on_event(lambda ev, k=k: ctl.pause() if ctl.get_state().events_processed == k else None)
                elif op == "FIN":
                    n = 0
                    while ctl.is_paused and n < 200:
                        summary = ctl.resume()
                        n += 1
                st()
            if summary is None:
                summary = sim._build_summary()
            return summary

        out = h.run(driver)
        # the end line's last field: 1 = completed
        s = ctl.get_state()
        out[-1] = out[-1].rsplit(" ", 1)[0] + (" 0" if s.is_running else " 1")
        return states + out

    @staticmethod
    def _sources(h, case):
        from happysimulator.load.source import Source
        srcs, probes = [], []
        for i, sd in enumerate(case.get("sources", [])):
            src = Source.constant(rate=sd["rate"], target=h.ents[sd["tgt"]], event_type=f"k{sd['kind']}",
                                  name=f"src{i}", stop_after=h.Instant(sd["stop"]))
            (probes if sd.get("probe") else srcs).append(src)
        return dict(sources=srcs, probes=probes)

    def reference(self, case):
        """the same program, uninterrupted and unobserved, on the same implementation"""
        ref = dict(case)
        ref["mode"] = "plain"
        h = Harness(ref)
        h.build(**self._sources(h, ref))
        return h.run()

    def compare_view(self, case, impl_out):
        if case["mode"] == "reset-src":
            return ["judge-only"]
        return impl_out[:impl_out.index("#ref")] if "#ref" in impl_out else impl_out

    def model_postprocess(self, case, out):
        return ["judge-only"] if case["mode"] == "reset-src" else out

    def judge_block(self, case, impl_out):
        if (impl_out and impl_out[0].startswith("IMPL-")) or "#ref" not in impl_out:
            return None
        k = impl_out.index("#ref")
        obs, ref = impl_out[:k], impl_out[k + 1:]
        sts = [l for l in obs if l.startswith("st ")]
        log = [l for l in obs if not l.startswith("st ")]
        body = []
        if case["mode"] == "ctl":
            for c, st in zip(case["script"], sts):
                body.append("cmd " + " ".join(str(x) for x in c))
                body.append(st)
        # the completed flag of the end line is not part of the comparison
        return ("judge", body + ["#log"] + log + ["#ref"] + ref)

    # ------------------------------------------------------------------ model
    def model_block(self, case, variant):
        end = "inf" if case["end"] is None else str(case["end"])
        lines = program_lines(case)
        if case["mode"] == "ctl":
            return (f"ctl {variant} {end} 20000", lines + ["cmd " + " ".join(str(x) for x in c) for c in case["script"]])
        return (f"run {variant} {end} 20000", lines)

    def nontrivial_key(self, case, impl_out):
        if case["mode"] in ("trace", "evtrace", "reset"):
            return tuple(impl_out[:60])
        if case["mode"] == "ctl" and sum(1 for l in impl_out if l.startswith("st ") and l.split()[3] == "1") >= 1:
            return tuple(impl_out[:60])
        return None

    def shrink(self, case):
        if case.get("script"):
            sc = case["script"]
            for i in range(len(sc) - 2):
                c = dict(case)
                c["script"] = sc[:i] + sc[i + 1:]
                if any(x[0] == "G" for x in c["script"]):
                    yield c
        for key in ("pre", "defs"):
            xs = case[key]
            for i in range(len(xs)):
                c = dict(case)
                c[key] = xs[:i] + xs[i + 1:]
                yield c

    def mutate(self, case, rng):
        c = dict(case)
        c["mode"] = "ctl"
        c["script"] = gen_script(rng, case)
        return c


PROPERTY = C04()
