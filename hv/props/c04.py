"""C04 — observing, pausing or stepping a run does not change it.

C01/C02 programs are run on the real engine under every observation mode (plain fast loop, trace
recorder, event tracing, control attached and driven by a generated pause/step/resume/breakpoint
script, reset()+run()) and compared with the Lean models: the plain loop (`run`) for the passive
modes and for reset, the instrumented loop with the control surface (`ctlLoop`, HappyModel/C04) for
control scripts.  The Lean theorems relate `ctlLoop` to `run`.
"""
from __future__ import annotations

import random

from hv import core
from hv.engine_harness import METRIC_ATTRS, Harness, make_stateless, program_lines
from hv.props.c01 import gen_program, shift_start
from hv.props.c02 import gen_future_program

MODES = ["plain", "trace", "evtrace", "ctl", "ctl", "ctl", "reset", "reset-src"]


def _targets(prog):
    """(entity, kind) pairs worth sending an event to: mostly ones with a handler"""
    ts = [(d["ent"], d["kind"]) for d in prog["defs"] if d["kind"] < 20]
    ts += [(p["tgt"], p["kind"]) for p in prog["pre"] if p["kind"] < 20]
    return ts or [(0, 1)]


def _sch(rng, prog):
    """sim.schedule(Event(...)) from outside: absolute grid times (where the program's ties are) or the
    current clock plus a grid delay"""
    tgt, kind = rng.choice(_targets(prog))
    small = max(prog["times"]) < 10**6
    if rng.random() < 0.5:
        return ["SCH", tgt, kind, "A", rng.choice(prog["times"]), rng.choice([0, 0, 0, 1])]
    return ["SCH", tgt, kind, "R", rng.choice([0, 0, 0, 1, 1000, 1000, 2000] if small else [0, 0, 0, 1, 10**9, 10**9, 2 * 10**9]),
            rng.choice([0, 0, 0, 1])]


# (operator, twice the threshold) pairs around the values the watched attributes take; many of them first
# become true while the attribute is 0 / False — a value like any other, not a missing one
METRIC_CONDS = {
    0: [("le", 0), ("eq", 0), ("lt", 2), ("lt", 1), ("le", 1), ("ge", 0), ("ne", 0), ("gt", -2), ("le", -2), ("eq", 2),
        ("lt", 0), ("ge", 4), ("ne", 2), ("gt", 0)],                                                  # level
    1: [("eq", 0), ("le", 0), ("lt", 2), ("lt", 1), ("ge", 2), ("gt", 0), ("ne", 0), ("ge", 4), ("eq", 2), ("ge", 0)],  # inflight
    2: [("eq", 0), ("eq", 2), ("ne", 0), ("le", 0), ("ge", 2), ("lt", 2), ("gt", 0), ("ne", 2)],      # _crashed (a bool)
    3: [("ge", 0), ("eq", 0), ("ne", 0)],                                                             # no such attribute
}


def _bp(rng, prog):
    kinds = sorted({k for _, k in _targets(prog)})
    r = rng.random()
    if r < 0.3:
        return ["BT", rng.choice(prog["times"] + [0]), rng.choice([0, 1])]
    if r < 0.5:
        return ["BC", rng.choice([0, 1, 1, 2, 3, 5, 8, 12]), rng.choice([0, 1, 1])]
    if r < 0.62:
        return ["BK", rng.choice(kinds), rng.choice([0, 1])]
    if r < 0.7:
        # ConditionBreakpoint(lambda ctx: ctx.events_processed == n)
        return ["BX", rng.choice([1, 1, 2, 3, 5, 8]), rng.choice([0, 0, 1])]
    # MetricBreakpoint on an attribute of a scripted entity
    return _bm(rng, prog)


def add_levels(rng, prog):
    """give some entities a `level` attribute that handlers drive down to (and through) zero and back"""
    prog["levels"] = {str(e): rng.choice([3, 2, 1, 1, 0, -1]) for e in range(prog["ents"]) if rng.random() < 0.7}
    prog["lvl_float"] = rng.random() < 0.3
    for d in prog["defs"]:
        if rng.random() < 0.6:
            seg = rng.choice(d["segs"])
            x = rng.randrange(prog["ents"]) if rng.random() < 0.3 else d["ent"]
            r = rng.random()
            act = ["M", x, 0, -1] if r < 0.6 else ["M", x, 0, 1] if r < 0.8 else ["M", x, 1, rng.choice([0, 0, 2, -1])]
            seg["acts"].insert(rng.randrange(len(seg["acts"]) + 1), act)


def _bm(rng, prog):
    attr = rng.choice([0, 0, 0, 0, 1, 1, 2, 3] if prog.get("levels") else [1, 1, 1, 2, 2, 0, 3])
    op, thr2 = rng.choice(METRIC_CONDS[attr])
    ents = [int(e) for e in (prog.get("levels") or {})] if attr == 0 and prog.get("levels") and rng.random() < 0.8 else list(range(prog["ents"]))
    return ["BM", rng.choice(ents), attr, op, thr2, rng.choice([0, 0, 1])]


def gen_script(rng: random.Random, prog):
    shape = rng.random()
    cmds = []
    if rng.random() < (0.45 if prog.get("levels") else 0.12):
        # attribute watches: one to three MetricBreakpoints, then the run is driven on through every pause
        cmds += [_bm(rng, prog) for _ in range(rng.randint(1, 3))]
        if rng.random() < 0.3:
            cmds.insert(rng.randrange(len(cmds) + 1), _bp(rng, prog))
        cmds.append(["G"])
        for _ in range(rng.randint(2, 8)):
            r = rng.random()
            cmds.append(["G"] if r < 0.7 else ["S", rng.choice([1, 2, 3])] if r < 0.9 else _bm(rng, prog))
    elif shape < 0.12:
        # breakpoints registered by on_event hooks while the loop is running: nothing (or little) is registered
        # when run() / resume() / step() enters the loop, the hook adds the breakpoint after the k-th event
        if rng.random() < 0.25:
            cmds.append(_bp(rng, prog))
        for _ in range(rng.randint(1, 3)):
            cmds.append(["HB", rng.choice([1, 1, 2, 3, 4, 6])] + _bp(rng, prog))
        if rng.random() < 0.3:
            cmds += [["P"], ["G"], ["S", rng.choice([1, 2])]]
        for _ in range(rng.randint(2, 6)):
            r = rng.random()
            cmds.append(["G"] if r < 0.7 else ["S", rng.choice([1, 2, 3, 5])] if r < 0.9 else ["CLR"])
    elif shape < 0.2:
        # several breakpoints armed at once, then run / resume / step until they have all had their chance
        if rng.random() < 0.4:
            cmds += [["P"], ["G"]]
        cmds += [_bp(rng, prog) for _ in range(rng.randint(2, 4))]
        if rng.random() < 0.5:
            # the same predicate registered a second time, one-shot: both are first satisfied by the same delivery
            twin = list(rng.choice([c for c in cmds if c[0] in ("BT", "BC", "BK", "BX")] or [["BC", 2, 1]]))
            twin[2] = 1
            cmds.append(twin)
        for _ in range(rng.randint(3, 8)):
            r = rng.random()
            cmds.append(["G"] if r < 0.6 else ["S", rng.choice([1, 2, 3, 5])] if r < 0.85 else _bp(rng, prog))
    elif shape < 0.4:
        # a run driven for a while, reset(), and driven again (the budget / request / breakpoints of the
        # first round must not leak into the second)
        cmds += rng.choice([[["P"], ["G"]], [["P"], ["G"]], [["BC", rng.randint(1, 6), 1], ["G"]], [["HP", rng.randint(1, 5)], ["G"]], [["G"]]])
        for _ in range(rng.randint(0, 3)):
            r = rng.random()
            cmds.append(["S", rng.choice([1, 2, 3, 5, 20])] if r < 0.6 else ["G"] if r < 0.75 else ["P"] if r < 0.85 else _sch(rng, prog))
        cmds.append(["RST"])
        if rng.random() < 0.25:
            cmds.append(_sch(rng, prog))
        if rng.random() < 0.3:
            cmds.append(rng.choice([["P"], _bp(rng, prog)]))
        cmds.append(["G"])
        for _ in range(rng.randint(0, 3)):
            r = rng.random()
            cmds.append(["S", rng.choice([1, 2, 3])] if r < 0.4 else ["G"] if r < 0.7 else ["RST"] if r < 0.8 else ["P"])
        if cmds[-1][0] == "RST":
            cmds.append(["G"])
    elif shape < 0.6:
        # events scheduled from outside while the run is paused (and before it starts)
        if rng.random() < 0.3:
            cmds.append(_sch(rng, prog))
        cmds += [["P"], ["G"]]
        for _ in range(rng.randint(2, 7)):
            r = rng.random()
            cmds.append(["S", rng.choice([1, 1, 2, 3, 5])] if r < 0.5 else _sch(rng, prog) if r < 0.9 else ["G"])
    else:
        cmds = [["P"], ["G"]] if rng.random() < 0.6 else []
        for _ in range(rng.randint(0, 8)):
            r = rng.random()
            if r < 0.33:
                cmds.append(["S", rng.choice([1, 1, 2, 3, 5, 20])])
            elif r < 0.47:
                cmds.append(["G"])
            elif r < 0.56:
                cmds.append(["P"])
            elif r < 0.78:
                cmds.append(_bp(rng, prog))
            elif r < 0.83:
                cmds.append(["CLR"])
            elif r < 0.87:
                cmds.append(["HP", rng.randint(1, 10)])
            elif r < 0.9:
                cmds.append(["HB", rng.randint(1, 8)] + _bp(rng, prog))
            elif r < 0.95:
                cmds.append(_sch(rng, prog))
            else:
                cmds.append(["RST"])
    if not any(c[0] == "G" for c in cmds):
        cmds.insert(0, ["G"])
    # a step before run() is an API error; keep scripts valid (the driver skips a step when no run is in progress)
    if rng.random() < 0.85:
        cmds.append(["CLR"])
    cmds.append(["FIN"])
    return cmds


def pre_run_injections(script, start=0):
    """the SCH commands that take effect before a run() (they join the pre-run schedule that reset() replays),
    as (tgt, kind, time, daemon); the clock is start_time whenever no run has started"""
    started, out = False, []
    for c in script:
        if c[0] == "G":
            started = True
        elif c[0] == "RST":
            started = False
        elif c[0] == "SCH" and not started:
            out.append((c[1], c[2], c[4] + (start if c[3] == "R" else 0), c[5]))
    return out


class C04(core.Property):
    id = "C04"
    driver = "drv-c04"
    lake_targets = ["HappyProofs.C04.Props", "drv-c04"]
    audit_imports = ["HappyProofs.C04.Props"]
    lean_files = ["HappyModel/C01/*.lean", "HappyModel/C04/*.lean", "HappyProofs/C04/*.lean", "HappyProofs/C01/*.lean",
                  "HappyProofs/C03/Rename.lean", "HappyProofs/C03/Props.lean", "HappyModel/C03/*.lean",
                  "HappyModel/Proto.lean", "Driver/C04.lean"]
    variants = ["contgate", "current"]
    theorems = [
        "HappyModel.C04.run_add",
        "HappyModel.C04.ctlLoop_is_run_prefix",
        "HappyModel.C04.control_prefix",
        "HappyModel.C04.control_invariance",
        "HappyModel.C04.step_exact",
        "HappyModel.C04.stepWith_processed",
        "HappyModel.C04.breakpoint_first",
        "HappyModel.C04.breakpoint_pause_cause",
        "HappyModel.C04.oneshot_removed_only_if_fired",
        "HappyModel.C04.no_cause_no_pause",
        "HappyModel.C04.reset_clears_control",
        "HappyModel.C04.reset_state_is_init",
        "HappyModel.C04.reset_replays",
        "HappyModel.C04.inject_inv",
        "HappyModel.C04.injected_is_youngest",
        "HappyModel.C04.session_inv",
        "HappyModel.C04.session_fifo",
        "HappyModel.C04.metric_hit_iff",
        "HappyModel.C04.metric_zero_is_a_value",
        "HappyModel.C04.metric_missing_never_fires",
        "HappyModel.C04.metric_breakpoint_first",
        "HappyModel.C04.breakpoint_first_registered",
        "HappyModel.C04.hook_added_breakpoint_first",
    ]
    partial_theorems = {}
    quick_cases = 900
    thorough_cases = 30000
    case_timeout_s = 30
    rule = ("a C01 or C02 program × an observation mode: plain / InMemoryTraceRecorder / enable_event_tracing() / control attached and "
            "driven by a generated script of pause, run, step(n), resume, time / count / event-type / metric (entity attribute level, "
            "inflight, _crashed or a missing one, all six operators, thresholds at and around 0 so that conditions first hold at a falsy "
            "value) / condition (events_processed == n) breakpoints (one-shot or not, one of several armed predicates registered twice in half of those scripts, registered from the script or by an on_event "
            "hook while the loop is running, "
            "several armed at once), clear, pausing on_event hook, reset() between rounds (after pause / step / breakpoint rounds, "
            "with and without stateless entities), sim.schedule() of an event from outside before a run and while it is paused "
            "(timestamps on the program's tie grid or at the current clock) / reset()+run(). After every control command get_state() "
            "and the (ordinal, time, type) of every processed event seen by an on_event observer are compared; at the end the "
            "entity-side delivery log. The Lean Spec replays the user's commands over the implementation's own stream (breakpoint "
            "pauses right after the first satisfying delivery, step exact, pause request honoured, no pause without a cause, reset "
            "repeats the original run) and runs the C01 trace Spec on every round. Non-trivial = the run was interrupted at least "
            "once or observed by a recorder; distinct = distinct transcript")
    trusted_base = [
        "hv/engine_harness.py scripted entities",
        "control scripts never call the API in a state where it raises (step before run, resume when not paused); run() is not called again on a completed run; schedule() from outside only before a run or while paused",
        "reset mode: pre-run events carry no completion hooks and are not pre-cancelled (reset() replays time/type/target/daemon/metadata only; "
        "the metadata — creation tag, hop count — is the one the event was scheduled with, whatever handlers stamped on the delivered event)",
        "programs that are reset do not wait on futures (a process parked by the abandoned run would make the code refuse its successor)",
        "end line after a run with no new summary (reset as last command) is read from Simulation._build_summary()",
    ]
    assumptions = [
        "observation devices (read-only hooks, trace recorder, event tracing) are not in the model: the passive modes must equal the plain model run",
        "auto-termination grades of the C01 trace Spec (engine/autoterm/*) are left to C01; C04 judges order, uniqueness, liveness of the trace",
    ]

    def generate(self, rng, i, tier):
        prog = gen_future_program(rng) if rng.random() < 0.4 else gen_program(rng, crash=rng.random() < 0.5)
        mode = rng.choice(MODES)
        prog["mode"] = mode
        if mode != "reset-src" and rng.random() < 0.25:
            # the run starts at a start_time other than the epoch (reset() must go back to it), horizon as end_time= or duration=
            shift_start(rng, prog, huge=False)   # see DESIGN 13.6: the 2**53+ start palette is not enabled here
        if mode == "ctl":
            if rng.random() < 0.5:
                add_levels(rng, prog)
            prog["script"] = gen_script(rng, prog)
            if any(c[0] == "RST" for c in prog["script"]):
                # a process left parked on a future by the abandoned run would meet its successor there (the
                # code refuses a second waiter): no waiting on futures in programs that are reset
                prog["defs"] = [d for d in prog["defs"] if not any(s["term"][0] == "W" for s in d["segs"])]
                if rng.random() < 0.6:
                    make_stateless(prog)
                    prog["stateless"] = True
        if mode == "reset-src":
            # load sources / probes are re-primed by reset(); their first ticks tie with pre-run events
            small = max(prog["times"]) < 10**6
            prog["sources"] = [{"rate": rng.choice([1e6, 5e5] if small else [1.0, 0.5]), "tgt": rng.randrange(prog["ents"]),
                                "kind": rng.randint(1, 6), "stop": (rng.choice([3000, 6000]) if small else rng.choice([3 * 10**9, 6 * 10**9])),
                                "probe": rng.random() < 0.3}
                               for _ in range(rng.randint(1, 2))]
            prog["end"] = 20000 if small else 10**10    # a source ticks forever: the run needs a horizon
        if mode in ("reset", "reset-src"):
            make_stateless(prog)
        prog["family"] = f"{mode}/" + ("auto" if prog["end"] is None else "end")
        if mode == "reset-src":
            prog["family"] += " (judge only: load sources are not in the Lean model)"
        return prog

    # ------------------------------------------------------------------ implementation
    def run_impl(self, case):
        out = self._run_mode(case)
        if case["mode"] != "plain":
            out = out + ["#ref"] + self.reference(case)
        return out

    def _run_mode(self, case):
        mode = case["mode"]
        h = Harness(case)
        if mode == "trace":
            from happysimulator.instrumentation.recorder import InMemoryTraceRecorder
            sim = h.build(trace_recorder=InMemoryTraceRecorder())
            return h.run()
        if mode in ("reset-src",) or case.get("sources"):
            sim = h.build(**self._sources(h, case))
        else:
            sim = h.build()
        if mode == "plain":
            return h.run()
        if mode == "evtrace":
            from happysimulator.core import event as evmod
            evmod.enable_event_tracing()
            try:
                return h.run()
            finally:
                evmod.disable_event_tracing()
        if mode in ("reset", "reset-src"):
            h.run()
            first = list(h.log)
            sim.control.reset()
            h.log.clear()
            h.trace.clear()
            h.tagc = len(case["pre"])
            h.npid = 0
            h.ndeliv = 0
            h.last_kind.clear()
            for e in h.ents:
                e._crashed = False
            out = h.run()
            return out
        # control script
        from happysimulator.core.control.breakpoints import (ConditionBreakpoint, EventCountBreakpoint, EventTypeBreakpoint,
                                                             MetricBreakpoint, TimeBreakpoint)
        ctl = sim.control
        stream = []     # d / fr / st lines in order of occurrence

        def st(hd="st"):
            s = ctl.get_state()
            stream.append(f"{hd} {s.current_time.nanoseconds} {s.events_processed} {1 if s.is_paused else 0} {1 if s.is_running else 0}")

        # a read-only observer: ordinal, time and type of every processed event
        def observe(ev):
            n = ctl.get_state().events_processed
            stream.append(f"d {n} {ev.time.nanoseconds} {ev.event_type[1:]}")
            # the attributes a MetricBreakpoint may watch, as a user's own hook reads them (judge input only)
            vals = []
            for e in h.ents:
                vals += ["-" if e.level is None else str(int(e.level)), str(e.inflight), str(int(e._crashed))]
            stream.append(f"dm {n} " + " ".join(vals))

        ctl.on_event(observe)

        def make_bp(c):
            op = c[0]
            if op == "BT":
                return TimeBreakpoint(time=h.Instant(c[1]), one_shot=bool(c[2]))
            if op == "BC":
                return EventCountBreakpoint(count=c[1], one_shot=bool(c[2]))
            if op == "BK":
                return EventTypeBreakpoint(event_type=f"k{c[1]}", one_shot=bool(c[2]))
            if op == "BM":
                thr = c[4] // 2 if c[4] % 4 == 0 else c[4] / 2      # ints and floats as thresholds
                return MetricBreakpoint(entity_name=f"e{c[1]}", attribute=METRIC_ATTRS[c[2]], operator=c[3],
                                        threshold=thr, one_shot=bool(c[5]))
            return ConditionBreakpoint(fn=lambda ctx, n=c[1]: ctx.events_processed == n,
                                       description=f"processed == {c[1]}", one_shot=bool(c[2]))

        def driver(sim):
            summary = None
            started = False
            for c in case["script"]:
                op = c[0]
                if op == "P":
                    ctl.pause()
                elif op == "G":
                    if not started:
                        summary = sim.run()
                        started = True
                    elif ctl.is_paused:
                        summary = ctl.resume()
                elif op == "S":
                    if started and ctl.is_running:
                        summary = ctl.step(c[1])
                elif op in ("BT", "BC", "BK", "BM", "BX"):
                    ctl.add_breakpoint(make_bp(c))
                elif op == "HB":
                    # a hook that registers a breakpoint while the loop is running (no pause in between)
                    ctl.on_event(lambda ev, k=c[1], bc=c[2:]: ctl.add_breakpoint(make_bp(bc))
                                 if ctl.get_state().events_processed == k else None)
                elif op == "CLR":
                    ctl.clear_breakpoints()
                elif op == "HP":
                    k = c[1]
                    ctl.on_event(lambda ev, k=k: ctl.pause() if ctl.get_state().events_processed == k else None)
                elif op == "RST":
                    h.reset()
                    started = False
                    summary = None
                elif op == "SCH":
                    if not started or ctl.is_paused:
                        t = c[4] + (h.clock_ns() if c[3] == "R" else 0)
                        h.inject(t, c[1], c[2], c[5], pre_run=not started)
                elif op == "FIN":
                    n = 0
                    while ctl.is_paused and n < 200:
                        summary = ctl.resume()
                        st("fr")
                        n += 1
                st()
            if summary is None:
                summary = sim._build_summary()
            return summary

        out = h.run(driver)
        # the end line's last field: 1 = completed
        s = ctl.get_state()
        out[-1] = out[-1].rsplit(" ", 1)[0] + (" 0" if s.is_running else " 1")
        return stream + out + ["#trace"] + h.trace

    @staticmethod
    def _sources(h, case):
        from happysimulator.load.source import Source
        srcs, probes = [], []
        for i, sd in enumerate(case.get("sources", [])):
            src = Source.constant(rate=sd["rate"], target=h.ents[sd["tgt"]], event_type=f"k{sd['kind']}",
                                  name=f"src{i}", stop_after=h.Instant(sd["stop"]))
            (probes if sd.get("probe") else srcs).append(src)
        return dict(sources=srcs, probes=probes)

    def reference(self, case):
        """the same program, uninterrupted and unobserved, on the same implementation"""
        ref = dict(case)
        ref["mode"] = "plain"
        if case["mode"] == "ctl":
            # events scheduled from outside before a run() are part of the pre-run schedule
            ref["pre"] = list(case["pre"]) + [dict(tgt=tgt, kind=kind, time=t, daemon=bool(dm), hook=0, cancelled=False)
                                              for tgt, kind, t, dm in pre_run_injections(case["script"], case.get("start", 0))]
        h = Harness(ref)
        h.build(**self._sources(h, ref))
        return h.run()

    @staticmethod
    def _parts(impl_out):
        """observed transcript / recorded trace / reference log"""
        marks = {m: impl_out.index(m) for m in ("#trace", "#ref") if m in impl_out}
        cut = min(marks.values()) if marks else len(impl_out)
        obs = impl_out[:cut]
        trace = impl_out[marks["#trace"] + 1:marks.get("#ref", len(impl_out))] if "#trace" in marks else []
        ref = impl_out[marks["#ref"] + 1:] if "#ref" in marks else None
        return obs, trace, ref

    def compare_view(self, case, impl_out):
        if case["mode"] == "reset-src":
            return ["judge-only"]
        return [l for l in self._parts(impl_out)[0] if not l.startswith("dm ")]

    def model_postprocess(self, case, out):
        return ["judge-only"] if case["mode"] == "reset-src" else out

    def judge_block(self, case, impl_out):
        if (impl_out and impl_out[0].startswith("IMPL-")) or "#ref" not in impl_out:
            return None
        obs, trace, ref = self._parts(impl_out)
        ctl = case["mode"] == "ctl"
        stream = [l for l in obs if l.split(" ", 1)[0] in ("d", "dm", "st", "fr")]
        log = obs[len(stream):]
        body = [f"mode {case['mode']}", f"stateless {1 if case.get('stateless') else 0}", f"start {case.get('start', 0)}"]
        if ctl:
            # every command is followed by exactly one `st` line: put the command in front of its lines
            it = iter(case["script"])
            cur = next(it, None)
            if cur is not None:
                body.append("cmd " + " ".join(str(x) for x in cur))
            for l in stream:
                body.append(l)
                if l.startswith("st "):
                    cur = next(it, None)
                    if cur is not None:
                        body.append("cmd " + " ".join(str(x) for x in cur))
        # the completed flag of the end line is not part of the comparison
        return ("judge", body + ["#log"] + log + ["#ref"] + ref + (["#trace"] + trace if ctl else []))

    # ------------------------------------------------------------------ model
    def model_block(self, case, variant):
        end = "inf" if case["end"] is None else str(case["end"])
        lines = program_lines(case)
        if case["mode"] == "ctl":
            return (f"ctl {variant} {end} 20000", lines + ["cmd " + " ".join(str(x) for x in c) for c in case["script"]])
        return (f"run {variant} {end} 20000", lines)

    def nontrivial_key(self, case, impl_out):
        if case["mode"] in ("trace", "evtrace", "reset"):
            return tuple(impl_out[:60])
        if case["mode"] == "ctl" and sum(1 for l in impl_out if l.startswith("st ") and l.split()[3] == "1") >= 1:
            return tuple(impl_out[:60])
        return None

    def shrink(self, case):
        if case.get("script"):
            sc = case["script"]
            for i in range(len(sc) - 1):
                c = dict(case)
                c["script"] = sc[:i] + sc[i + 1:]
                if any(x[0] == "G" for x in c["script"]):
                    yield c
        for key in ("pre", "defs"):
            xs = case[key]
            for i in range(len(xs)):
                c = dict(case)
                c[key] = xs[:i] + xs[i + 1:]
                yield c

    def mutate(self, case, rng):
        c = dict(case)
        c["mode"] = "ctl"
        c["script"] = gen_script(rng, case)
        return c


PROPERTY = C04()
