"""C16 extension family `wpol` — the write-policy objects of write_policies.py.

WriteThrough / WriteBack / WriteAround are driven by direct calls (they are plain bookkeeping
objects a cache consults); the same calls go to the Lean model `HappyModel/C16/WPol.lean`,
transcripts are diffed, and the Lean Spec `judgeWPol` judges the implementation's own answers:
write-back lists exactly the keys written and not yet named by an on_flush (a forgotten key is
write-back data discarded before it reached the store), should_flush ⇔ that many keys ≥ max_dirty,
write-around hands every written key to the next invalidation round.
"""
from __future__ import annotations

import json

FAMILY = "wpol"
SLOTS = 1
NK = 5

THEOREMS = ["HappyModel.C16.write_policy_never_forgets"]
RULE = ("family wpol: one of WriteThrough / WriteBack(max_dirty 1–4, flush_interval 0.5–2 s) / WriteAround, 3–40 direct calls "
        "(on_write over ≤5 keys with repeats and truthy / falsy / None values, should_write_through, should_flush, get_keys_to_flush, on_flush with all / some / none / foreign keys, "
        "dirty_count, get_keys_to_invalidate), flush rounds placed right at / one write before the max_dirty threshold")
TRUSTED = ["hv/props/c16_wpol.py adapter (direct calls on the real policy objects; get_keys_to_flush() is a set and is compared sorted)"]
ASSUMPTIONS = ["write_policies.py: the policy classes are not wired into CachedStore in this tree (it takes a bare write_through flag); they are checked as the "
               "bookkeeping objects they are. WriteBack.flush_interval is stored but never consulted by the code (should_flush looks at the dirty count only) and is not judged"]
HYPOTHESES = []
PARTIAL = {}


def K(k):
    return f"k{k}"


def make(case):
    from happysimulator.components.datastore.write_policies import WriteAround, WriteBack, WriteThrough

    if case["kind"] == "through":
        return WriteThrough()
    if case["kind"] == "back":
        return WriteBack(flush_interval=case["interval"], max_dirty=case["max_dirty"])
    return WriteAround()


def generate(rng, tier):
    kind = rng.choice(["back", "back", "back", "around", "around", "through"])
    md = rng.choice([1, 2, 2, 3, 4])
    n = rng.choice([3, 6, 10, 16, 24, 40])
    ops = []
    dirty = set()
    for _ in range(n):
        r = rng.random()
        if r < 0.45:
            k = rng.randrange(NK)
            ops.append(["w", k])
            dirty.add(k)
            if kind == "back" and len(dirty) in (md - 1, md) and rng.random() < 0.5:
                ops.append(["sf"])
        elif r < 0.55:
            ops.append(["sf"])
        elif r < 0.67:
            ops.append(["gk"])
        elif r < 0.80:
            mode = rng.random()
            if mode < 0.4:
                ks = sorted(dirty)                      # the flush round a cache would do
            elif mode < 0.7:
                ks = [k for k in sorted(dirty) if rng.random() < 0.5]
            elif mode < 0.85:
                ks = [rng.randrange(NK + 2) for _ in range(rng.choice([1, 2, 3]))]   # foreign / repeated keys
            else:
                ks = []
            if rng.random() < 0.5:
                ops.append(["gk"])
            ops.append(["of"] + ks)
            dirty -= set(ks)
            if rng.random() < 0.5:
                ops.append(["gk"])
        elif r < 0.86:
            ops.append(["dc"])
        elif r < 0.95:
            ops.append(["gi"])
        else:
            ops.append(["wt"])
    ops += [["gk"], ["dc"], ["gi"], ["sf"]]
    return {"family": FAMILY, "kind": kind, "max_dirty": md, "interval": rng.choice([0.5, 1.0, 2.0]), "ops": ops}


def fmt(v):
    if v is None:
        return "-"
    if v is True:
        return "True"
    if v is False:
        return "False"
    if isinstance(v, list):
        return " ".join(["keys"] + [str(x) for x in v])
    return f"n {v}"


# written values are irrelevant to a write policy; falsy ones and None are passed on purpose
WVALS = [0, "", None, 1, "v", [], 0.0, False]


def run_impl(case):
    pol = make(case)
    out = []
    for i, op in enumerate(case["ops"]):
        o = op[0]
        if o == "w":
            r = pol.on_write(K(op[1]), WVALS[(i + op[1]) % len(WVALS)])
        elif o == "wt":
            r = pol.should_write_through()
        elif o == "sf":
            r = pol.should_flush()
        elif o == "gk":
            r = sorted(int(k[1:]) for k in pol.get_keys_to_flush())
        elif o == "of":
            r = pol.on_flush([K(k) for k in op[1:]])
        elif o == "dc":
            r = pol.dirty_count if hasattr(pol, "dirty_count") else "noattr"
        elif o == "gi":
            r = [int(k[1:]) for k in pol.get_keys_to_invalidate()] if hasattr(pol, "get_keys_to_invalidate") else "noattr"
        else:
            raise ValueError(o)
        out.append("noattr" if r == "noattr" else fmt(r))
    return out


def _lines(case):
    return [" ".join(map(str, op)) for op in case["ops"]]


def model_block(case, variant, impl_out):
    return (f"wpol {case['kind']} {case['max_dirty']}", _lines(case))


def judge_block(case, impl_out):
    lines = _lines(case)
    if len(lines) != len(impl_out) or (impl_out and impl_out[0].startswith("IMPL-")):
        return None
    body = []
    for l, o in zip(lines, impl_out):
        body += [l, "obs " + o]
    return (f"judge-wpol {case['kind']} {case['max_dirty']}", body)


def nontrivial_key(case, impl_out):
    if sum(1 for op in case["ops"] if op[0] == "w") >= 2:
        return json.dumps(case, sort_keys=True)
    return None
