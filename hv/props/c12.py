"""C12 — Paxos family, leader election, distributed lock.

Correspondence (DESIGN §4 message-passing style): real `PaxosNode` / `MultiPaxosNode` /
`FlexiblePaxosNode` / `LeaderElection` entities run inside the real `Simulation` with the real
`Network`; the harness chooses every message's latency (a `LatencyDistribution` that looks the
current message up in the case) and the retry jitter (`paxos.random` is replaced by a stub that
replays the case's draws).  Every event delivered to a node is recorded together with the node's
state afterwards and the messages its handler returned; the recorded *schedule* (which message
was delivered, which timer fired, which client call happened) is replayed through the Lean model
(`HappyModel/C12`), and both transcripts are diffed line by line.  The Lean Spec predicates
(`HappyModel/C12/Spec.lean`) judge the implementation's own transcript.

`DistributedLock` is driven by direct calls (operation lists).
"""
from __future__ import annotations

import json
import os
import random

from hv import core

# the model replays the schedule recorded from the implementation run of the same case (GUIDE rule 8);
# `core.evaluate` hands `model_block` only the case, so implementation runs are memoised in this
# process instead of being farmed out to the fork pool (5 ms per case)
os.environ["HV_SERIAL"] = "1"

END_NS = 60_000_000_000
MAX_STEPS = 500


def _ns(x):
    return int(x)


# ------------------------------------------------------------------------------------ engine glue


def _mk_network(case, names, msg_key):
    """real Network, full mesh of real NetworkLinks whose latency is chosen per message by the case"""
    from happysimulator.components.network.link import NetworkLink
    from happysimulator.components.network.network import Network
    from happysimulator.core.temporal import Duration
    from happysimulator.distributions.latency_distribution import LatencyDistribution

    ctx = {"cur": None, "k": 0}
    lat = case.get("lat") or [1_000_000]
    latmap = case.get("latmap") or {}
    linklat = case.get("linklat") or {}      # "src>dst" (node indices) -> ns: a slow / fast directed link

    class Chosen(LatencyDistribution):
        def __init__(self):
            super().__init__(0.001)

        def get_latency(self, current_time):
            ev = ctx["cur"]
            k = ctx["k"]
            ctx["k"] = k + 1
            ns = lat[k % len(lat)]
            if ev is not None:
                if linklat:
                    m = ev.context.get("metadata", {})
                    lk = f"{str(m.get('source', '?'))[1:]}>{str(m.get('destination', '?'))[1:]}"
                    if lk in linklat:
                        ns = linklat[lk]
                key = msg_key(ev)
                if key in latmap:
                    ns = latmap[key]
            return Duration(int(ns))

    net = Network(name="net")
    orig = net.handle_event

    def routed(event):
        ctx["cur"] = event
        return orig(event)

    net.handle_event = routed
    return net, Chosen, NetworkLink, ctx


def _mesh(net, Chosen, NetworkLink, nodes):
    for a in nodes:
        for b in nodes:
            if a is not b:
                net.add_link(a, b, NetworkLink(name=f"l_{a.name}_{b.name}", latency=Chosen()))


def _instant(ns):
    from happysimulator.core.temporal import Instant
    return Instant(int(ns))


class _Jitter:
    """stand-in for the `random` module inside paxos.py / election_strategies.py: replays draws"""

    def __init__(self, draws, ints=None):
        self.draws = list(draws) or [0.0]
        self.ints = list(ints or [1])
        self.k = 0
        self.j = 0

    def random(self):
        d = self.draws[self.k % len(self.draws)]
        self.k += 1
        return d

    def randint(self, a, b):
        d = self.ints[self.j % len(self.ints)]
        self.j += 1
        return max(a, min(b, d))


def _inst_body(case, impl_out):
    """observables of one consensus instance for the Lean judge"""
    body = []
    for l in impl_out:
        t = l.split()
        if t[0] == "step" and t[2] == "propose":
            body.append(f"proposed {t[4]}")
        elif t[0] == "node":
            body.append(f"rep {t[1]} {t[9]}")
        elif t[0] == "final":
            body.append(f"rep {t[1]} {t[2]}")
        elif t[0] == "fut":
            body.append(f"fut {t[1]} {t[2]}")
    return body


def _v(x):
    """values cross as naturals; None (never a proposed value) is 0"""
    return 0 if x is None else int(x)


# ------------------------------------------------------------------------------------ the property


class C12(core.Property):
    id = "C12"
    driver = "drv-c12"
    lake_targets = ["HappyProofs.C12.Props", "drv-c12"]
    audit_imports = ["HappyProofs.C12.Props"]
    lean_files = ["HappyModel/C12/*.lean", "HappyProofs/C12/*.lean", "HappyModel/Proto.lean", "Driver/C12.lean"]
    theorems = []
    variants = ["repaired", "current"]   # single-decree Paxos only; the other families have one model
    quick_cases = 3000
    thorough_cases = 40000
    case_timeout_s = 30
    rule = ("families: paxos (3-5 real PaxosNodes in the real engine + Network, 1-4 proposals incl. several on one node, "
            "per-message latencies from small pools with late/never-delivered outliers, optional partition window, retry delay and "
            "jitter draws generated; non-trivial = some Accept was sent); mpaxos / fpaxos (MultiPaxosNode / FlexiblePaxosNode, 2-8 "
            "start/submit calls on random nodes; fpaxos: (q1,q2) with q1+q2>n, mostly asymmetric in both directions and tight (q1+q2=n+1), n 3-5, "
            "half of the cases the take-over scenario: a leader cut off with exactly q1 (or q1+-1, q2-1, q2) nodes on its side runs phase 1 and proposes "
            "inside the partition, heal, a node of the other side takes over with another command for the same slot); slow-prepare take-over (mpaxos 70% / fpaxos: "
            "the new leader's link to the old leader is 4-45x slower than the others, commands submitted to the old leader from 2 ms before to `slow` ms after the instant it "
            "promises and to the new leader around the instant it leads, optional later start() rounds); election (LeaderElection x Bully/Ring/Randomized, "
            "uniform member views; join scenario: a node unknown to the group (mostly the highest id) knows everybody, runs its first election late, add_member around that "
            "instant, one directed link out of the old leader 60-350 ms slow against heartbeats every 10-60 ms); lock (4-60 acquire/try/release/expire calls on 1-3 locks, "
            "tokens at/around the live token, max_waiters 0-2; non-trivial = >= 2 grants). distinct = distinct case content")
    trusted_base = [
        "hv/props/c12.py adapters: per-node handle_event wrappers that record delivered events, returned messages and node state",
        "private attributes read for the lock-step comparison only: PaxosNode._promised_ballot/_accepted_ballot/_accepted_value/_current_ballot, "
        "MultiPaxosNode._current_ballot/_last_applied, LeaderElection._election_in_progress/_members/_last_leader_heartbeat (the judge reads public API only)",
        "node names n0..n4 (string order = index order); Python tuple order on Ballot = order of number*n+index",
        "retry jitter / RandomizedStrategy draws replaced by case-provided draws (module attribute `random` of paxos.py / election_strategies.py)",
        "the real Network delivers payloads unchanged (payloads are compared when sent; Multi-Paxos and election replays take the payload of a delivered event from the implementation's schedule)",
        "history variables votes/proms/proposedVals are fields of the executable Paxos state (O(1) conses) instead of an erasable wrapper",
    ]
    assumptions = [
        "'a proposer's future resolves with the decided value' is judged as safety: a resolved future carries the decided value (a future that never resolves, e.g. when the node learns the decision through PaxosDecided, is not judged)",
        "None as a decided value is printed as 0; generated values are >= 1",
        "Multi-Paxos 'reported decision' of a node for a slot = its committed log entry (public node.log), after every delivered event",
        "message loss / partitions are schedules in which a sent message is never delivered",
        "commit rule (mpaxos|fpaxos/commit/without-phase2-quorum): judged in the acknowledgement form — when an Accepted delivery raises the receiver's "
        "public commit_index, 1 (own entry) + the number of Accepted messages for that slot delivered to it so far is >= q2. The distinct-acceptor form "
        "(>= q2 different nodes accepted (ballot, slot, value)) is FALSE of the pinned tree (acks are counted per slot: duplicates, other ballots) — "
        "theorem MP.commit_distinct_quorum_current_false; it is measured per run (coverage.commit_rule_measured_not_judged) and judged only with "
        "C12.strict_commit_quorum = True (signature */commit/fewer-distinct-acceptors-than-phase2-quorum). Slots committed as the prefix of the "
        "acknowledged slot are not judged by this clause",
        "phase-1 rule (mpaxos|fpaxos/leader/without-phase1-quorum): when start() or a delivered Promise turns the public is_leader of a node from false "
        "to true, 1 (its own start) + the number of Promise messages for that ballot number delivered to it so far is >= q1 (responses counted as the "
        "implementation counts them: per message, not per distinct sender)",
        "deposed-leader rule (mpaxos|fpaxos/leader/still-leader-after-promising-higher-ballot, …/deposed-leader-assigns-slot): a node that answers a Prepare "
        "with a Promise (recorded message) has public is_leader false afterwards; from that promise until a phase-1 response leaves it leader again "
        "(is_leader false -> true, or >= q1 responses for that ballot number) it neither makes its public log grow inside submit() nor sends an Accept. "
        "Leadership kept across a delivered Accept / regained through promises for an older ballot number (both true of the pinned tree) is not judged by this rule",
        "agreement trigger (mpaxos|fpaxos/agreement/two-values/<trigger>): the two-values signature is suffixed with how the second command reached the slot, read from "
        "the recorded Accept and Promise messages: value-never-proposed-for-slot | one-ballot-two-proposers | after-leader-change-ignoring-promise-logs | "
        "after-leader-change; no suffix = one node proposed both commands for the slot under one ballot (none of the pinned tree's mechanisms)",
        "election per-node rules: (current_term, current_leader) of a node is read before and after every handler invocation; a delivered LeaderHeartbeat whose "
        "term is below the receiver's current_term must change neither (election/leader/changed-within-term-by-stale-heartbeat); the leader may change inside an "
        "unchanged term only on a heartbeat stamped with at least that term (election/leader/changed-within-term-without-heartbeat). Two nodes claiming one term number "
        "(per-node term counters) stays with election/one-leader-per-term/two-leaders when member views differ or change (add_member) during the run; with one member set "
        "given to every node and no add_member the signature is election/one-leader-per-term/two-leaders-with-identical-static-views (not a known finding: every strategy of "
        "the pinned tree then only ever announces max(members); 0 occurrences in 20 000 generated uniform schedules; not machine-proved)",
    ]
    hypotheses = ["flexible_quorums_intersect: n < q1 + q2, quorums are duplicate-free lists of node indices < n",
                  "flexible_paxos_agreement: n < q1 + q2 and 0 < q2 (FlexiblePaxosNode enforces q1 + q2 > n; q2 = 0 would make every decision vacuous)",
                  "paxos_validity: 0 < q2",
                  "MP.deposed_leader_never_assigns / MP.deposed_judge_silent: every action's node index is < n (the harness has nodes 0..n-1 only)"]
    partial_theorems = {
        "slot_agreement": "Multi-Paxos / Flexible-Paxos slot agreement is REFUTED for the pinned tree (slot_agreement_current_false, "
                          "flexible_slot_agreement_current_false, slot_agreement_full_current_false); no repaired Multi-Paxos variant is modelled: "
                          "`slot_agreement_full` is stated, not proved (the repair is a redesign; per slot it is single-decree Paxos, for which flexible_paxos_agreement is proved)",
        "commit_needs_phase2_quorum (distinct-acceptor form)": "the distinct-acceptor reading (>= q2 different nodes accepted (ballot, slot, value) at a leader commit) is "
                                                               "REFUTED for the pinned tree (commit_distinct_quorum_current_false: duplicate Accepted messages of one acceptor are "
                                                               "counted); proved and judged is the acknowledgement form (commit_needs_phase2_quorum), which the distinct form implies",
        "election_one_leader_per_term": "REFUTED in general (election_two_leaders_one_term: a joining node reuses a term); for identical static member views "
                                        "the clause held on every generated schedule but is not machine-proved (needs a message-soup model of the three strategies)",
        "single_proposer_decides (liveness)": "not stated: bounded-progress form needs an engine-time model; the fault-free single-proposer schedules in the paxos family all decide (checked by the judge only for safety)",
        "paxos current variant": "stepCur is exact on the two corpus witnesses but approximates duplicate Accept/Accepted messages of the pinned tree (at-most-once slots)",
    }

    # ------------------------------------------------------------------ dispatch
    def generate(self, rng, i, tier):
        k = i % 10
        if k in (0, 5):
            return self.gen_lock(rng, tier)
        if i % 20 == 18:
            return self.gen_election_join(rng, tier)
        if k == 6:
            return self.gen_takeover_slow_prepare(rng, tier)
        if k == 1:
            return self.gen_mpaxos(rng, tier)
        if k == 3:
            return self.gen_fpaxos(rng, tier)
        if k == 8:
            return self.gen_election(rng, tier, uniform=True)
        return self.gen_paxos(rng, tier)

    def run_impl(self, case):
        key = json.dumps(case, sort_keys=True)
        if key in self._memo:
            return self._memo[key]
        out = getattr(self, "impl_" + case["family"])(case)
        if len(self._memo) > 20000:
            self._memo.clear()
        self._memo[key] = out
        return out

    _memo: dict = {}

    def schedule(self, case):
        """the delivered-event schedule of the implementation run (GUIDE rule 8): the `step k …`
        lines of the implementation transcript without the counter"""
        try:
            out = self.run_impl(case)
        except Exception:
            return []
        return [" ".join(l.split()[2:]) for l in out if l.startswith("step ")]

    def model_block(self, case, variant):
        return getattr(self, "model_" + case["family"])(case, variant)

    def judge_block(self, case, impl_out):
        if not impl_out or impl_out[0].startswith("IMPL-"):
            return None
        return getattr(self, "judge_" + case["family"])(case, impl_out)

    # ------------------------------------------------------------------ single-decree Paxos
    def gen_paxos(self, rng, tier):
        n = rng.choice([3, 3, 4, 5, 5])
        nprop = rng.choice([1, 2, 2, 3, 3, 4])
        ops = []
        t = 0
        for k in range(nprop):
            t += rng.choice([0, 0, 1, 2, 5, 20, 400]) * 1_000_000
            ops.append({"t": t, "op": "propose", "node": rng.randrange(n), "val": 70 + k})
        if rng.random() < 0.3:
            # a partition window: minority / majority split, healed later
            side = rng.sample(range(n), rng.randint(1, n - 1))
            t0 = rng.choice([0, 1, 2, 3, 6]) * 1_000_000
            ops.append({"t": t0, "op": "partition", "a": side})
            ops.append({"t": t0 + rng.choice([2, 5, 50, 800]) * 1_000_000, "op": "heal"})
        ops.sort(key=lambda o: o["t"])
        pool = rng.choice([[1], [1, 2], [1, 2, 3, 5, 8], [1, 1, 1, 40], [1, 2, 3, 900, 2000], [2, 2, 2, 2, 7, 100000]])
        lat = [rng.choice(pool) * 1_000_000 for _ in range(rng.choice([7, 13, 31, 64]))]
        jit = [rng.choice([0.0, 0.25, 0.5, 0.999]) for _ in range(5)]
        return {"family": "paxos", "n": n, "ops": ops, "lat": lat, "jit": jit,
                "retry_ms": rng.choice([1, 3, 10, 500])}

    def impl_paxos(self, case):
        import happysimulator.components.consensus.paxos as px
        from happysimulator.core.event import Event
        from happysimulator.core.simulation import Simulation

        n = case["n"]
        names = [f"n{i}" for i in range(n)]
        idx = {nm: i for i, nm in enumerate(names)}

        def key(ev):
            m = ev.context.get("metadata", {})
            k = f"{ev.event_type[5:]}:{m.get('source', '?')[1:]}:{m.get('destination', '?')[1:]}:{m.get('ballot_number', '-')}"
            return k + (f":{_v(m['value'])}" if "value" in m else "")

        net, Chosen, NetworkLink, _ = _mk_network(case, names, key)
        saved_random = px.random
        px.random = _Jitter(case.get("jit", []))
        try:
            nodes = [px.PaxosNode(nm, net, retry_delay=case.get("retry_ms", 500) / 1000.0) for nm in names]
            for nd in nodes:
                nd.set_peers(nodes)
            _mesh(net, Chosen, NetworkLink, nodes)
            out = []
            futs = []  # (owner index, SimFuture, reported?)
            step = [0]

            def enc(num, node):
                return f"{num}.{idx[node]}"

            def bal(b):
                return "-" if b is None else enc(b.number, b.node_id)

            def state_line(i):
                nd = nodes[i]
                acc = "-" if nd._accepted_ballot is None else f"{bal(nd._accepted_ballot)}:{_v(nd._accepted_value)}"
                dec = _v(nd.decided_value) if nd.is_decided else "-"
                return f"  node {i} cur {nd._current_ballot.number} prom {bal(nd._promised_ballot)} acc {acc} dec {dec}"

            def emit_lines(evs):
                res = []
                for e in evs or []:
                    m = e.context.get("metadata", {})
                    t = e.event_type
                    if t == "PaxosRetry":
                        res.append(f"  timer Retry {m['original_ballot']}")
                        continue
                    d = idx[m["destination"]]
                    if t == "PaxosPrepare":
                        res.append(f"  send Prepare {d} {enc(m['ballot_number'], m['ballot_node'])}")
                    elif t == "PaxosPromise":
                        ab = "-" if m["accepted_ballot_number"] is None else f"{enc(m['accepted_ballot_number'], m['accepted_ballot_node'])}:{_v(m['accepted_value'])}"
                        res.append(f"  send Promise {d} {enc(m['ballot_number'], m['ballot_node'])} {ab}")
                    elif t == "PaxosNack":
                        res.append(f"  send Nack {d} {enc(m['ballot_number'], m['ballot_node'])} {m['highest_ballot_number']}")
                    elif t == "PaxosAccept":
                        res.append(f"  send Accept {d} {enc(m['ballot_number'], m['ballot_node'])} {_v(m['value'])}")
                    elif t == "PaxosAccepted":
                        res.append(f"  send Accepted {d} {enc(m['ballot_number'], m['ballot_node'])}")
                    elif t == "PaxosDecided":
                        res.append(f"  send Decided {d} {_v(m['value'])}")
                    else:
                        res.append(f"  send ? {t}")
                return res

            def fut_lines():
                res = []
                for k, f in enumerate(futs):
                    if not f[2] and f[1].is_resolved:
                        f[2] = True
                        res.append(f"  fut {k} {_v(f[1].value)}")
                return res

            def record(i, action, evs):
                out.append(f"step {step[0]} {action}")
                step[0] += 1
                out.append(state_line(i))
                out.extend(emit_lines(evs))
                out.extend(fut_lines())

            def wrap(i):
                nd = nodes[i]
                orig = nd.handle_event

                def handler(event):
                    m = event.context.get("metadata", {})
                    t = event.event_type
                    if step[0] >= MAX_STEPS:      # delivery-count watchdog (retry storms): the cluster freezes
                        return None
                    res = orig(event)
                    evs = res if isinstance(res, list) else ([] if res is None else [res])
                    if t == "PaxosPrepare":
                        a = f"prepare {enc(m['ballot_number'], m['ballot_node'])} {i}"
                    elif t == "PaxosPromise":
                        a = f"promise {enc(m['ballot_number'], m['ballot_node'])} {idx[m['source']]}"
                    elif t == "PaxosNack":
                        a = f"nack {enc(m['ballot_number'], m['ballot_node'])} {m['highest_ballot_number']}"
                    elif t == "PaxosAccept":
                        a = f"accept {enc(m['ballot_number'], m['ballot_node'])} {i}"
                    elif t == "PaxosAccepted":
                        a = f"accepted {enc(m['ballot_number'], m['ballot_node'])} {idx[m['source']]}"
                    elif t == "PaxosDecided":
                        a = f"decided {idx[m['source']]} {i}"
                    elif t == "PaxosRetry":
                        a = f"retry {i} {m['original_ballot']}"
                    else:
                        a = f"other {t}"
                    record(i, a, evs)
                    return res

                nd.handle_event = handler

            for i in range(n):
                wrap(i)
            sim = Simulation(end_time=_instant(END_NS), entities=[net, *nodes])

            def mk(op):
                def fn(event):
                    if step[0] >= MAX_STEPS:
                        return None
                    if op["op"] == "propose":
                        nd = nodes[op["node"]]
                        f = nd.propose(op["val"])
                        futs.append([op["node"], f, False])
                        evs = [] if f.is_resolved else nd.start_phase1()
                        record(op["node"], f"propose {op['node']} {op['val']}", evs)
                        return evs
                    if op["op"] == "partition":
                        a = [nodes[i] for i in op["a"]]
                        b = [nodes[i] for i in range(n) if i not in op["a"]]
                        if a and b:
                            net.partition(a, b)
                        return None
                    if op["op"] == "heal":
                        net.heal_partition()
                    return None
                return fn

            for k, op in enumerate(case["ops"]):
                sim.schedule(Event.once(time=_instant(op["t"]), event_type=f"Op{k}", fn=mk(op)))
            sim.run()
            for i in range(n):
                nd = nodes[i]
                out.append(f"final {i} {_v(nd.decided_value) if nd.is_decided else '-'}")
            for k, f in enumerate(futs):
                out.append(f"finalfut {k} {f[0]} {_v(f[1].value) if f[1].is_resolved else '-'}")
            return out
        finally:
            px.random = saved_random

    def model_paxos(self, case, variant):
        n = case["n"]
        q = n // 2 + 1
        return (f"paxos {variant} {n} {q} {q}", self.schedule(case))

    def judge_paxos(self, case, impl_out):
        return ("judge-inst paxos", _inst_body(case, impl_out))


    # ------------------------------------------------------------------ Multi-Paxos / Flexible Paxos
    def gen_mpaxos(self, rng, tier, flex=False):
        n = rng.choice([3, 3, 4, 5])
        ops, t, c = [], 0, 1
        for _ in range(rng.choice([2, 3, 4, 6, 8])):
            t += rng.choice([0, 1, 2, 5, 30, 200]) * 1_000_000
            if rng.random() < 0.45:
                ops.append({"t": t, "op": "start", "node": rng.randrange(n)})
            else:
                ops.append({"t": t, "op": "submit", "node": rng.randrange(n), "cmd": c})
                c += 1
        if not any(o["op"] == "start" for o in ops):
            ops.append({"t": t + 1_000_000, "op": "start", "node": rng.randrange(n)})
        if rng.random() < 0.25:
            side = rng.sample(range(n), rng.randint(1, n - 1))
            t0 = rng.choice([0, 1, 2, 3, 6]) * 1_000_000
            ops.append({"t": t0, "op": "partition", "a": side})
            ops.append({"t": t0 + rng.choice([2, 5, 50, 800]) * 1_000_000, "op": "heal"})
        ops.sort(key=lambda o: o["t"])
        pool = rng.choice([[1], [1, 2], [1, 2, 3, 5, 8], [1, 1, 1, 40], [1, 2, 3, 300, 900]])
        lat = [rng.choice(pool) * 1_000_000 for _ in range(rng.choice([7, 13, 31]))]
        case = {"family": "fpaxos" if flex else "mpaxos", "n": n, "ops": ops, "lat": lat,
                "hb_ms": rng.choice([3, 50, 1000])}
        if flex:
            q1 = rng.randint(1, n)
            q2 = rng.randint(max(1, n - q1 + 1), n)
            case["q1"], case["q2"] = q1, q2
        return case

    @staticmethod
    def _fp_quorums(rng, n):
        """(q1, q2) with q1 + q2 > n: mostly asymmetric, in both directions (q1 < q2 and q1 > q2), the
        tight boundary q1 + q2 = n + 1 favoured"""
        pairs = [(a, b) for a in range(1, n + 1) for b in range(1, n + 1) if a + b > n]
        r = rng.random()
        if r < 0.45:
            pool = [p for p in pairs if p[0] < p[1]]
        elif r < 0.75:
            pool = [p for p in pairs if p[0] > p[1]]
        else:
            pool = pairs
        tight = [p for p in pool if p[0] + p[1] == n + 1]
        if tight and rng.random() < 0.6:
            pool = tight
        return rng.choice(pool)

    def gen_fpaxos(self, rng, tier):
        if rng.random() < 0.5:
            return self.gen_fpaxos_takeover(rng, tier)
        case = self.gen_mpaxos(rng, tier, flex=True)
        if rng.random() < 0.7:
            case["q1"], case["q2"] = self._fp_quorums(rng, case["n"])
            starts = [o for o in case["ops"] if o["op"] == "start"]
            if starts and rng.random() < 0.5:
                # a partition sized around the quorums with a starting node inside
                case["ops"] = [o for o in case["ops"] if o["op"] not in ("partition", "heal")]
                st = rng.choice(starts)
                side = self._side_around(rng, case["n"], st["node"], case["q1"], case["q2"])
                t0 = max(0, st["t"] - rng.choice([0, 1, 2]) * 1_000_000)
                case["ops"].append({"t": t0, "op": "partition", "a": side})
                case["ops"].append({"t": t0 + rng.choice([5, 20, 50, 300]) * 1_000_000, "op": "heal"})
                # partition first, heal last among simultaneous ops
                case["ops"].sort(key=lambda o: (o["t"], {"partition": 0, "heal": 2}.get(o["op"], 1)))
        return case

    @staticmethod
    def _side_around(rng, n, leader, q1, q2):
        """the leader's side of a partition: exactly q1 nodes (itself included, as the implementation
        counts it), or a size next to q1 / q2"""
        size = rng.choice([q1, q1, q1, q2 - 1, q2, min(q1, q2), q1 - 1, q1 + 1])
        size = max(1, min(n - 1, size))
        others = [i for i in range(n) if i != leader]
        rng.shuffle(others)
        return sorted([leader] + others[:size - 1])

    def gen_fpaxos_takeover(self, rng, tier):
        """Flexible Paxos, asymmetric quorums: a leader is cut off together with exactly q1 - 1 (or a
        neighbouring number of) acceptors, runs phase 1 and proposes a slot inside the partition (it
        can gather q1 acknowledgements there, itself included); the partition heals and a node of the
        other side takes over with a different command for the same slot."""
        ms = 1_000_000
        n = rng.choice([3, 4, 4, 5, 5])
        q1, q2 = self._fp_quorums(rng, n)
        ldr = rng.randrange(n)
        side = self._side_around(rng, n, ldr, q1, q2)
        rest = [i for i in range(n) if i not in side]
        other = rng.choice(rest)
        ops, t, c = [], 0, 1
        if rng.random() < 0.5:
            # the leader is established on the healthy network first: every node has seen its ballot
            ops.append({"t": t, "op": "start", "node": ldr})
            t += rng.choice([5, 10, 30]) * ms
        ops.append({"t": t, "op": "partition", "a": side})
        t += rng.choice([1, 2, 5]) * ms
        for _ in range(rng.choice([1, 1, 1, 2])):
            ops.append({"t": t, "op": "submit", "node": ldr, "cmd": c})
            c += 1
            t += rng.choice([0, 1, 3]) * ms
            ops.append({"t": t, "op": "start", "node": ldr})     # phase 1 + re-proposal inside the partition
            t += rng.choice([10, 20, 60]) * ms
        ops.append({"t": t, "op": "heal"})
        t += rng.choice([1, 5, 20]) * ms
        ops.append({"t": t, "op": "submit", "node": other, "cmd": c})
        c += 1
        t += rng.choice([0, 1, 5]) * ms
        ops.append({"t": t, "op": "start", "node": other})
        if rng.random() < 0.4:
            # a second round: its ballot number is above the old leader's whatever the node order
            t += rng.choice([10, 30]) * ms
            ops.append({"t": t, "op": "start", "node": other})
        if rng.random() < 0.3:
            t += rng.choice([10, 40, 200]) * ms
            nd = rng.randrange(n)
            if rng.random() < 0.5:
                ops.append({"t": t, "op": "submit", "node": nd, "cmd": c})
                t += ms
            ops.append({"t": t, "op": "start", "node": nd})
        pool = rng.choice([[1], [1], [1, 2], [1, 2, 3], [1, 1, 1, 8]])
        lat = [rng.choice(pool) * ms for _ in range(rng.choice([1, 7, 13]))]
        # the run ends some time after the last call (the heartbeat chatter of an idle leader adds nothing)
        return {"family": "fpaxos", "n": n, "ops": ops, "lat": lat, "hb_ms": rng.choice([50, 1000, 1000]),
                "q1": q1, "q2": q2, "end_ms": t // ms + rng.choice([60, 300, 2500])}

    def gen_takeover_slow_prepare(self, rng, tier):
        """Multi-Paxos / Flexible Paxos take-over over one slow directed link: node `old` leads; node `new`
        starts phase 1 while its link to `old` is slower than its links to the other acceptors, so (whenever
        q1 allows) `new` reaches its promise quorum without `old`, and its Prepare reaches `old` later than
        its heartbeat would on a fast link.  Commands are submitted to `old` around the instant it promises
        (before, at, inside and after the window that ends with the new leader's heartbeat) and to `new`
        around the instant it becomes leader."""
        ms = 1_000_000
        n = rng.choice([3, 3, 4, 5])
        flex = rng.random() < 0.3
        old = rng.randrange(n)
        new = rng.choice([i for i in range(n) if i != old])
        slow = rng.choice([4, 6, 10, 20, 45])
        linklat = {f"{new}>{old}": slow * ms}
        if rng.random() < 0.3:
            a, b = rng.sample(range(n), 2)
            linklat.setdefault(f"{a}>{b}", rng.choice([2, 3, 8, 30]) * ms)
        ops, c, t = [], 1, 0
        if rng.random() < 0.7:
            ops.append({"t": t, "op": "submit", "node": old, "cmd": c}); c += 1
        t += rng.choice([0, 1]) * ms
        ops.append({"t": t, "op": "start", "node": old})
        t1 = t + 2 * slow * ms + rng.choice([10, 20, 60]) * ms        # `old` is established, its first slots are committed
        ops.append({"t": t1, "op": "start", "node": new})
        t_prom = t1 + slow * ms                                       # the Prepare of `new` reaches `old`
        for _ in range(rng.choice([1, 1, 2, 3])):
            dt = rng.choice([-2 * ms, -ms, -1, 0, 1, ms // 2, ms, ms + ms // 2, 2 * ms - 1, 2 * ms, 3 * ms, slow * ms])
            ops.append({"t": max(t1, t_prom + dt), "op": "submit", "node": old, "cmd": c}); c += 1
        for _ in range(rng.choice([0, 1, 1, 2])):
            dt = rng.choice([0, ms, 2 * ms, 2 * ms + 1, 3 * ms, slow * ms + ms])
            ops.append({"t": t1 + dt, "op": "submit", "node": new, "cmd": c}); c += 1
        t_end = t_prom + 2 * slow * ms + 5 * ms
        if rng.random() < 0.6:
            # later phase-1 rounds: pending and uncommitted commands get (re)proposed
            for _ in range(rng.choice([1, 2])):
                t_end += rng.choice([5, 20, 50]) * ms
                ops.append({"t": t_end, "op": "start", "node": rng.choice([old, new, rng.randrange(n)])})
            t_end += 2 * slow * ms + 10 * ms
        ops.sort(key=lambda o: o["t"])
        case = {"family": "fpaxos" if flex else "mpaxos", "n": n, "ops": ops, "lat": [ms], "linklat": linklat,
                "hb_ms": rng.choice([1000, 1000, 1000, 50]), "end_ms": t_end // ms + rng.choice([5, 40])}
        if flex:
            case["q1"], case["q2"] = self._fp_quorums(rng, n)
        return case

    def impl_fpaxos(self, case):
        return self.impl_mpaxos(case)

    def impl_mpaxos(self, case):
        from happysimulator.components.consensus.flexible_paxos import FlexiblePaxosNode
        from happysimulator.components.consensus.multi_paxos import MultiPaxosNode
        from happysimulator.core.event import Event
        from happysimulator.core.simulation import Simulation

        flex = case["family"] == "fpaxos"
        pre = "FlexPaxos" if flex else "MultiPaxos"
        n = case["n"]
        names = [f"n{i}" for i in range(n)]
        idx = {nm: i for i, nm in enumerate(names)}

        def key(ev):
            m = ev.context.get("metadata", {})
            return f"{ev.event_type[len(pre):]}:{m.get('source', '?')[1:]}:{m.get('destination', '?')[1:]}:{m.get('ballot_number', '-')}:{m.get('slot', '-')}"

        net, Chosen, NetworkLink, _ = _mk_network(case, names, key)
        hb = case.get("hb_ms", 1000) / 1000.0
        if flex:
            nodes = [FlexiblePaxosNode(nm, net, phase1_quorum=case["q1"], phase2_quorum=case["q2"],
                                       heartbeat_interval=hb) for nm in names]
            # the constructor checks q1 + q2 > N against the peer list it is given (none yet)
        else:
            nodes = [MultiPaxosNode(nm, net, heartbeat_interval=hb) for nm in names]
        for nd in nodes:
            nd.set_peers(nodes)
        _mesh(net, Chosen, NetworkLink, nodes)
        out, futs, step = [], [], [0]

        def enc(num, node):
            return f"{num}.{idx.get(node, 0)}"

        def cmdv(c):
            return int(c["value"]) if isinstance(c, dict) else _v(c)

        def logs(entries):
            return ",".join(f"{e['term']}:{cmdv(e['command'])}" for e in entries) or "-"

        def state_line(i):
            nd = nodes[i]
            b = nd._current_ballot
            es = nd.log.entries_after(0)
            lg = ",".join(f"{e.term}:{cmdv(e.command)}" for e in es) or "-"
            ldr = "-" if nd.leader is None else idx[nd.leader]
            return (f"  node {i} b {enc(b.number, b.node_id)} L {1 if nd.is_leader else 0} ldr {ldr} "
                    f"ci {nd.log.commit_index} ap {nd._last_applied} log {lg}")

        def emit_lines(evs):
            res = []
            for e in evs or []:
                m = e.context.get("metadata", {})
                t = e.event_type[len(pre):]
                if m.get("self_heartbeat"):
                    res.append(f"  timer Heartbeat {enc(m['ballot_number'], m['ballot_node'])} {m['commit_index']}")
                    continue
                d = idx[m["destination"]]
                b = enc(m["ballot_number"], m["ballot_node"]) if "ballot_node" in m else str(m.get("ballot_number"))
                if t == "Prepare":
                    res.append(f"  send Prepare {d} {b}")
                elif t == "Promise":
                    res.append(f"  send Promise {d} {b} {logs(m['log_entries'])} {m['commit_index']}")
                elif t == "Nack":
                    res.append(f"  send Nack {d} {b}")
                elif t == "Accept":
                    res.append(f"  send Accept {d} {b} {m['slot']} {cmdv(m['command'])} {m['commit_index']}")
                elif t == "Accepted":
                    res.append(f"  send Accepted {d} {m['ballot_number']} {m['slot']}")
                elif t == "Heartbeat":
                    res.append(f"  send Heartbeat {d} {b} {m['commit_index']}")
                else:
                    res.append(f"  send ? {t}")
            return res

        def fut_lines():
            res = []
            for k, f in enumerate(futs):
                if not f[2] and f[1].is_resolved:
                    f[2] = True
                    v = f[1].value
                    res.append(f"  fut {k} {v[0]} {_v(v[1])}")
            return res

        def record(i, action, evs):
            out.append(f"step {step[0]} {action}")
            step[0] += 1
            out.append(state_line(i))
            out.extend(emit_lines(evs))
            out.extend(fut_lines())

        def wrap(i):
            nd = nodes[i]
            orig = nd.handle_event

            def handler(event):
                m = event.context.get("metadata", {})
                t = event.event_type[len(pre):]
                if step[0] >= MAX_STEPS:
                    return None
                res = orig(event)
                evs = res if isinstance(res, list) else ([] if res is None else [res])
                if t == "Prepare":
                    a = f"prepare {i} {enc(m['ballot_number'], m['ballot_node'])}"
                elif t == "Promise":
                    a = f"promise {i} {m['ballot_number']}"
                elif t == "Nack":
                    a = f"nack {i} {enc(m['ballot_number'], m['ballot_node'])}"
                elif t == "Accept":
                    a = f"accept {i} {idx[m['source']]} {enc(m['ballot_number'], m['ballot_node'])} {m['slot']} {cmdv(m['command'])} {m['commit_index']}"
                elif t == "Accepted":
                    a = f"accepted {i} {m['slot']}"
                elif t == "Heartbeat":
                    kind = "selfhb" if m.get("self_heartbeat") else "hb"
                    a = f"{kind} {i} {enc(m['ballot_number'], m['ballot_node'])} {m['commit_index']}"
                else:
                    a = f"other {t}"
                record(i, a, evs)
                return res

            nd.handle_event = handler

        for i in range(n):
            wrap(i)
        end_ns = case["end_ms"] * 1_000_000 if "end_ms" in case else END_NS
        sim = Simulation(end_time=_instant(end_ns), entities=[net, *nodes])

        def mk(op):
            def fn(event):
                if step[0] >= MAX_STEPS:
                    return None
                if op["op"] == "start":
                    evs = nodes[op["node"]].start()
                    record(op["node"], f"start {op['node']}", evs)
                    return evs
                if op["op"] == "submit":
                    f = nodes[op["node"]].submit({"op": "set", "key": "k", "value": op["cmd"]})
                    futs.append([op["node"], f, False, op["cmd"]])
                    record(op["node"], f"submit {op['node']} {op['cmd']}", [])
                    return None
                if op["op"] == "partition":
                    a = [nodes[i] for i in op["a"]]
                    b = [nodes[i] for i in range(n) if i not in op["a"]]
                    if a and b:
                        net.partition(a, b)
                    return None
                if op["op"] == "heal":
                    net.heal_partition()
                return None
            return fn

        for k, op in enumerate(case["ops"]):
            sim.schedule(Event.once(time=_instant(op["t"]), event_type=f"Op{k}", fn=mk(op)))
        sim.run()
        return out

    def model_mpaxos(self, case, variant):
        n = case["n"]
        flex = case["family"] == "fpaxos"
        q1 = case.get("q1", n // 2 + 1)
        q2 = case.get("q2", n // 2 + 1)
        return (f"mpaxos {1 if flex else 0} {n} {q1} {q2}", self.schedule(case))

    def model_fpaxos(self, case, variant):
        return self.model_mpaxos(case, variant)

    strict_commit_quorum = False   # judge the distinct-acceptor form too (false of the pinned tree: duplicate acks are counted)
    _commit_stats = {"leader_commits_observed": 0, "leader_commits_with_fewer_distinct_acceptors_than_q2": 0,
                     "leader_commits_covering_several_slots": 0}

    def extra_checks(self, ctx):
        ctx.stats["commit_rule_measured_not_judged"] = dict(self._commit_stats)
        return []

    def judge_mpaxos(self, case, impl_out):
        """observables: submitted commands, every node's committed prefix after every step (public
        `node.log`), resolved futures, and for the commit rule: Accept messages sent (`prop`), Accepts
        answered with Accepted (`acc`), Accepted messages delivered together with the receiver's public
        commit index before and after (`ack`), for phase 1: start() calls and delivered Promises with the
        receiver's public is_leader before and after (`prom`), and for the deposed-leader rule: Prepares
        answered with a Promise together with the public is_leader afterwards (`pled`), the log entries such a
        promise carries (`pcar`), and submit() calls that made the node's public log grow (`asg`)"""
        n = case["n"]
        flex = case["family"] == "fpaxos"
        q1 = case.get("q1", n // 2 + 1) if flex else n // 2 + 1
        q2 = case.get("q2", n // 2 + 1) if flex else n // 2 + 1
        body = []
        fid = 0
        ci_of = [0] * n                # last observed log.commit_index per node
        ldr_of = ["0"] * n             # last observed is_leader per node
        len_of = [0] * n               # last observed length of the public log per node
        accepted = {}                  # (ballot, slot, cmd) -> nodes that hold / accepted it
        k, N = 0, len(impl_out)
        while k < N:
            t = impl_out[k].split()
            k += 1
            if t[0] != "step":
                continue
            act = t[2:]
            st = impl_out[k].split()   # "node i b B L x ldr y ci c ap a log LG"
            k += 1
            node, bal, ldr, ci = int(st[1]), st[3], st[5], int(st[9])
            ents = [] if st[13] == "-" else [e.split(":")[1] for e in st[13].split(",")]
            sent, futs = [], []
            while k < N and not impl_out[k].startswith("step "):
                e = impl_out[k].split()
                k += 1
                if e[0] == "send":
                    sent.append(e)
                elif e[0] == "fut":
                    futs.append(e)
            if act[0] == "submit":
                body.append(f"sub {fid} {act[2]}")
                fid += 1
                if len(ents) > len_of[node]:
                    body.append(f"asg {node} {len(ents)}")      # the node assigned a slot to the command itself
            elif act[0] == "prepare":
                for e in sent:
                    if e[1] == "Promise":
                        body.append(f"pled {node} {e[3]} {ldr}")   # promised another node's ballot; is_leader afterwards
                        if e[4] != "-":
                            for sl, ent in enumerate(e[4].split(","), 1):
                                body.append(f"pcar {e[2]} {e[3]} {sl} {ent.split(':')[1]}")
            elif act[0] == "start":
                body.append(f"prom {node} {bal.split('.')[0]} {ldr_of[node]} {ldr}")     # its own promise
            elif act[0] == "promise":
                body.append(f"prom {node} {act[2]} {ldr_of[node]} {ldr}")
            ldr_of[node] = ldr
            len_of[node] = len(ents)
            seen = set()
            for e in sent:
                if e[1] == "Accept" and (e[3], e[4], e[5]) not in seen:
                    seen.add((e[3], e[4], e[5]))
                    body.append(f"prop {node} {e[3]} {e[4]} {e[5]}")
                    accepted.setdefault((e[3], e[4], e[5]), set()).add(node)
            if act[0] == "accept" and any(e[1] == "Accepted" for e in sent):
                body.append(f"acc {node} {act[3]} {act[4]} {act[5]}")
                accepted.setdefault((act[3], act[4], act[5]), set()).add(node)
            if act[0] == "accepted":
                slot = int(act[2])
                cmd = ents[slot - 1] if 1 <= slot <= len(ents) else 0
                body.append(f"ack {node} {slot} {ci_of[node]} {ci} {bal} {cmd}")
                if ci > ci_of[node]:
                    # measured, not judged (see `assumptions`): commits reached on duplicate acknowledgements
                    st_ = self._commit_stats
                    st_["leader_commits_observed"] += 1
                    if len(accepted.get((bal, str(slot), str(cmd)), ())) < q2:
                        st_["leader_commits_with_fewer_distinct_acceptors_than_q2"] += 1
                    if ci - ci_of[node] > 1:
                        st_["leader_commits_covering_several_slots"] += 1
            ci_of[node] = ci
            body.append(f"com {node} " + " ".join(ents[:ci]))
            for e in futs:
                body.append(f"fut {e[1]} {e[2]} {e[3]}")
        mode = "strict" if self.strict_commit_quorum else "acks"
        return (f"judge-log {case['family']} {n} {q1} {q2} {mode}", body)

    def judge_fpaxos(self, case, impl_out):
        return self.judge_mpaxos(case, impl_out)

    # ------------------------------------------------------------------ leader election
    def gen_election(self, rng, tier, uniform=None):
        n = rng.choice([3, 3, 4, 5])
        strat = rng.choice(["bully", "bully", "ring", "ring", "rand"])
        if uniform is None:
            uniform = rng.random() < 0.8
        full = list(range(n))
        members, ops = [], []
        for i in range(n):
            m = full[:]
            rng.shuffle(m)
            if not uniform and rng.random() < 0.6:
                m = [x for x in m if x == i or rng.random() < 0.6]
                if i not in m:
                    m.append(i)
            members.append(m)
        if not uniform:
            for _ in range(rng.randint(0, 3)):
                ops.append({"t": rng.choice([1, 50, 120, 300, 700]) * 1_000_000, "op": "add",
                            "node": rng.randrange(n), "m": rng.randrange(n)})
        if rng.random() < 0.25:
            side = rng.sample(range(n), rng.randint(1, n - 1))
            t0 = rng.choice([0, 40, 100, 250]) * 1_000_000
            ops.append({"t": t0, "op": "partition", "a": side})
            ops.append({"t": t0 + rng.choice([30, 100, 400]) * 1_000_000, "op": "heal"})
        ops.sort(key=lambda o: o["t"])
        pool = rng.choice([[1], [1, 2, 3], [1, 5, 20], [1, 2, 60, 200]])
        return {"family": "election", "n": n, "strategy": strat, "members": members, "ops": ops,
                "timeout_ms": [rng.choice([40, 50, 80, 100, 150]) for _ in range(n)],
                "hb_ms": rng.choice([10, 30, 60]),
                "lat": [rng.choice(pool) * 1_000_000 for _ in range(rng.choice([5, 11, 23]))],
                "draws": [rng.randint(1, 1000) for _ in range(7)], "end_ms": rng.choice([300, 600, 1000])}

    def gen_election_join(self, rng, tier):
        """a leader change by `add_member` while the old leader's heartbeats are still in flight: the nodes
        of a group know each other, a node with a higher (sometimes lower) id knows everybody but is unknown
        to (some of) them, runs its first election late and announces itself; one directed link out of the old
        leader is much slower than the heartbeat interval, so heartbeats stamped with the old term arrive
        after the receiver has moved on."""
        ms = 1_000_000
        n = rng.choice([3, 3, 4, 5])
        strat = rng.choice(["bully", "bully", "bully", "ring", "rand"])
        joiner = n - 1 if rng.random() < 0.8 else rng.randrange(n)
        group = [i for i in range(n) if i != joiner]
        members = []
        for i in range(n):
            m = (list(range(n)) if rng.random() < 0.7 else [joiner]) if i == joiner else group[:]
            rng.shuffle(m)
            members.append(m)
        old = max(group)                                  # Bully / Ring elect the highest id of the group
        slow_to = rng.choice([i for i in group if i != old] or [old])
        slow = rng.choice([60, 120, 200, 350])
        linklat = {f"{old}>{slow_to}": slow * ms}
        if rng.random() < 0.3:
            a, b = rng.sample(range(n), 2)
            linklat.setdefault(f"{a}>{b}", rng.choice([20, 80, 150]) * ms)
        timeout = [rng.choice([40, 50, 80]) for _ in range(n)]
        timeout[slow_to] = rng.choice([80, 150, slow + 200, slow + 400])
        t_join = rng.choice([slow + 120, slow + 200, 2 * slow + 100, 300])
        timeout[joiner] = t_join
        ops = []
        for i in group:
            if rng.random() < 0.5:
                ops.append({"t": rng.choice([1, t_join - 20, t_join - 1, t_join + 5, t_join + slow // 2]) * ms,
                            "op": "add", "node": i, "m": joiner})
        if len(members[joiner]) == 1:
            for i in group:
                ops.append({"t": (t_join - rng.choice([1, 30, 100])) * ms, "op": "add", "node": joiner, "m": i})
        ops.sort(key=lambda o: o["t"])
        return {"family": "election", "n": n, "strategy": strat, "members": members, "ops": ops,
                "timeout_ms": timeout, "hb_ms": rng.choice([10, 30, 60]), "lat": [ms], "linklat": linklat,
                "draws": [rng.randint(1, 1000) for _ in range(7)],
                "end_ms": t_join + 2 * slow + rng.choice([100, 300])}

    def impl_election(self, case):
        import happysimulator.components.consensus.election_strategies as es
        from happysimulator.components.consensus.leader_election import LeaderElection
        from happysimulator.core.event import Event
        from happysimulator.core.simulation import Simulation

        n = case["n"]
        names = [f"n{i}" for i in range(n)]
        idx = {nm: i for i, nm in enumerate(names)}

        def key(ev):
            m = ev.context.get("metadata", {})
            return f"{ev.event_type}:{m.get('source', '?')[1:]}:{m.get('destination', '?')[1:]}"

        net, Chosen, NetworkLink, _ = _mk_network(case, names, key)
        saved = es.random
        es.random = _Jitter([], case.get("draws") or [1])
        try:
            mk_strat = {"bully": es.BullyStrategy, "ring": es.RingStrategy,
                        "rand": lambda: es.RandomizedStrategy(ballot_range=1000)}[case["strategy"]]
            nodes = [LeaderElection(nm, net, strategy=mk_strat(), election_timeout=case["timeout_ms"][i] / 1000.0,
                                    heartbeat_interval=case["hb_ms"] / 1000.0) for i, nm in enumerate(names)]
            for i, nd in enumerate(nodes):
                for m in case["members"][i]:
                    nd.add_member(nodes[m])
            _mesh(net, Chosen, NetworkLink, nodes)
            out, step = [], [0]

            def nl(xs):
                return ",".join(str(x) for x in xs) or "-"

            def state_line(i):
                nd = nodes[i]
                ldr = "-" if nd.current_leader is None else idx[nd.current_leader]
                return (f"  node {i} ldr {ldr} term {nd.current_term} prog {1 if nd._election_in_progress else 0} "
                        f"mem {nl(idx[k] for k in nd._members)}")

            def emit_lines(evs):
                res = []
                for e in evs or []:
                    m = e.context.get("metadata", {})
                    t = e.event_type
                    if t == "ElectionTimeoutCheck":
                        res.append("  timer")
                        continue
                    d = idx[m["destination"]]
                    if t == "ElectionChallenge":
                        res.append(f"  send Challenge {d} {idx[m['challenger']]} {m['term']}")
                    elif t == "ElectionSuppress":
                        res.append(f"  send Suppress {d} {idx[m['from']]}")
                    elif t == "ElectionVictory":
                        res.append(f"  send Victory {d} {idx[m['leader']]} {m['term']}")
                    elif t == "ElectionToken":
                        res.append(f"  send Token {d} {idx[m['initiator']]} {m['term']} {nl(idx[c] for c in m['candidates'])}")
                    elif t == "ElectionBallot":
                        res.append(f"  send Ballot {d} {idx[m['from']]} {m['ballot']} {m['term']}")
                    elif t == "ElectionBallotResponse":
                        res.append(f"  send BallotResp {d} {idx[m['from']]} {m['ballot']} {m['term']}")
                    elif t == "LeaderHeartbeat":
                        res.append(f"  send LHB {d} {idx[m['leader']]} {m['term']}")
                    else:
                        res.append(f"  send ? {t}")
                return res

            def record(i, action, evs):
                out.append(f"step {step[0]} {action}")
                step[0] += 1
                out.append(state_line(i))
                out.extend(emit_lines(evs))

            def wrap(i):
                nd = nodes[i]
                orig = nd.handle_event

                def handler(event):
                    m = event.context.get("metadata", {})
                    t = event.event_type
                    if step[0] >= MAX_STEPS:
                        return None
                    if t == "ElectionTimeoutCheck":
                        exp = nd.now.to_seconds() - nd._last_leader_heartbeat > nd._election_timeout
                        a = f"timeout {i} {1 if exp else 0}"
                    elif t == "ElectionChallenge":
                        a = f"challenge {i} {idx[m['challenger']]}"
                    elif t == "ElectionSuppress":
                        a = f"suppress {i}"
                    elif t == "ElectionVictory":
                        a = f"victory {i} {idx[m['leader']]}"
                    elif t == "ElectionToken":
                        a = f"token {i} {idx[m['initiator']]} {m['term']} {nl(idx[c] for c in m['candidates'])}"
                    elif t == "ElectionBallot":
                        a = f"ballot {i} {idx[m['from']]} {m['term']}"
                    elif t == "ElectionBallotResponse":
                        a = f"ballotresp {i}"
                    elif t == "LeaderHeartbeat":
                        a = f"lhb {i} {idx[m['leader']]} {m['term']}"
                    else:
                        a = f"other {t}"
                    res = orig(event)
                    evs = res if isinstance(res, list) else ([] if res is None else [res])
                    record(i, a, evs)
                    return res

                nd.handle_event = handler

            for i in range(n):
                wrap(i)
            sim = Simulation(end_time=_instant(case.get("end_ms", 600) * 1_000_000), entities=[net, *nodes])

            def starter(event):
                evs = []
                for nd in nodes:
                    evs.extend(nd.start())
                return evs

            sim.schedule(Event.once(time=_instant(0), event_type="StartAll", fn=starter))

            def mk(op):
                def fn(event):
                    if op["op"] == "add":
                        nodes[op["node"]].add_member(nodes[op["m"]])
                        record(op["node"], f"add {op['node']} {op['m']}", [])
                    elif op["op"] == "partition":
                        a = [nodes[i] for i in op["a"]]
                        b = [nodes[i] for i in range(n) if i not in op["a"]]
                        if a and b:
                            net.partition(a, b)
                    elif op["op"] == "heal":
                        net.heal_partition()
                    return None
                return fn

            for k, op in enumerate(case["ops"]):
                sim.schedule(Event.once(time=_instant(op["t"]), event_type=f"Op{k}", fn=mk(op)))
            sim.run()
            return out
        finally:
            es.random = saved

    def model_election(self, case, variant):
        body = [f"members {i} " + (",".join(map(str, m)) or "-") for i, m in enumerate(case["members"])]
        body.append("draws " + ",".join(map(str, case.get("draws") or [1])))
        return (f"election {case['strategy']}", body + self.schedule(case))

    def judge_election(self, case, impl_out):
        """observables: `rep node term leader` = the public (current_term, current_leader) of a node after a
        handler ran on it; `st node lhb|other hterm t0 l0 t1 l1` = the same pair before and after one handler
        invocation, and the term a delivered LeaderHeartbeat was stamped with"""
        body = []
        last = {}                       # node -> (term, leader) last reported (initially term 0, no leader)
        act = None
        for l in impl_out:
            t = l.split()
            if t[0] == "step":
                act = t[2:]
            elif t[0] == "node":
                t0, l0 = last.get(t[1], ("0", "-"))
                if act is not None:
                    hb = act[0] == "lhb"
                    body.append(f"st {t[1]} {'lhb' if hb else 'other'} {act[3] if hb else 0} {t0} {l0} {t[5]} {t[3]}")
                    act = None
                last[t[1]] = (t[5], t[3])
                if t[3] != "-":
                    body.append(f"rep {t[1]} {t[5]} {t[3]}")
        views = [sorted(set(m)) for m in case["members"]]
        static = all(v == views[0] for v in views) and not any(o["op"] == "add" for o in case["ops"])
        return ("judge-election " + ("identical-static" if static else "mixed"), body)

    # ------------------------------------------------------------------ distributed lock
    def gen_lock(self, rng, tier):
        nl = rng.choice([1, 1, 2, 3])
        nr = rng.choice([2, 3, 4])
        ln = rng.choice([4, 8, 16, 30, 60])
        maxw = rng.choice([0, 0, 1, 2])
        ops = []
        tokens = [0]          # tokens that may have been granted so far (upper bound: one per op)
        for k in range(ln):
            l, r = rng.randrange(nl), rng.randrange(nr)
            x = rng.random()
            hi = max(tokens)
            if x < 0.4:
                ops.append(["acquire", l, r]); tokens.append(hi + 1)
            elif x < 0.5:
                ops.append(["try", l, r]); tokens.append(hi + 1)
            elif x < 0.8:
                ops.append(["release", l, rng.choice([rng.randint(0, hi + 1), hi, max(0, hi - 1)])]); tokens.append(hi + 1)
            else:
                ops.append(["expire", l, rng.choice([rng.randint(0, hi + 1), hi, max(0, hi - 1)])]); tokens.append(hi + 1)
        return {"family": "lock", "max_waiters": maxw, "ops": ops}

    def impl_lock(self, case):
        from happysimulator.components.consensus.distributed_lock import DistributedLock
        from happysimulator.core.event import Event

        lk = DistributedLock("lock", lease_duration=10.0, max_waiters=case["max_waiters"])
        out = []
        waiting = []  # (lock, requester, future)
        for k, op in enumerate(case["ops"]):
            kind, l, x = op
            name = f"L{l}"
            if kind == "acquire":
                f = lk.acquire(name, f"r{x}")
                if f.is_resolved:
                    res = "rejected" if f.value is None else f"grant {f.value.fencing_token}"
                else:
                    res = "queued"
                    waiting.append((l, x, f))
            elif kind == "try":
                g = lk.try_acquire(name, f"r{x}")
                res = "none" if g is None else f"grant {g.fencing_token}"
            elif kind == "release":
                res = "true" if lk.release(name, x) else "false"
            else:
                lk.handle_event(Event(time=_instant(0), event_type="LockLeaseExpiry", target=lk,
                                      context={"metadata": {"lock_name": name, "fencing_token": x}}))
                res = "-"
            wake = ""
            for w in list(waiting):
                if w[2].is_resolved:
                    waiting.remove(w)
                    g = w[2].value
                    wake += f" wake {w[1]} {g.fencing_token}"
                    if g.holder != f"r{w[1]}" or g.lock_name != f"L{w[0]}":
                        wake += " WRONG-HOLDER"
            h = lk.get_holder(name)
            hold = "- -" if h is None else f"{h[1:]} {lk.get_fencing_token(name)}"
            nw = sum(1 for w in waiting if w[0] == l)
            out.append(f"op {k} {kind} {l} {x} -> {res}{wake} | holder {hold} waiters {nw}")
        return out

    def model_lock(self, case, variant):
        return (f"lock {case['max_waiters']}", [" ".join(map(str, op)) for op in case["ops"]])

    def judge_lock(self, case, impl_out):
        body = []
        for op, line in zip(case["ops"], impl_out):
            t = line.split(" | ")[0].split(" -> ")[1].split()
            if t[0] == "grant":
                body.append(f"grant {op[1]} {op[2]} {t[1]}")
                t = t[2:]
            else:
                t = t[1:]
            while len(t) >= 3 and t[0] == "wake":
                body.append(f"grant {op[1]} {t[1]} {t[2]}")
                t = t[3:]
        return ("judge-lock", body)

    # ------------------------------------------------------------------ search helpers
    def nontrivial_key(self, case, impl_out):
        fam = case["family"]
        if fam == "lock":
            return json.dumps(case, sort_keys=True) if sum(1 for l in impl_out if "grant" in l or "wake" in l) >= 2 else None
        if fam == "paxos":
            # at least one value accepted somewhere (phase 2 reached)
            return json.dumps(case, sort_keys=True) if any(l.startswith("  send Accept ") for l in impl_out) else None
        return json.dumps(case, sort_keys=True)

    def shrink(self, case):
        key = "ops"
        xs = case[key]
        n = len(xs)
        step = max(1, n // 2)
        while step >= 1:
            for i in range(0, n, step):
                cand = dict(case)
                cand[key] = xs[:i] + xs[i + step:]
                if len(cand[key]) < n:
                    yield cand
            step //= 2
        if case["family"] in ("paxos", "mpaxos", "fpaxos", "election"):
            lat = case.get("lat") or []
            if len(lat) > 1:
                for cut in (len(lat) // 2, len(lat) - 1):
                    c = dict(case); c["lat"] = lat[:cut]; yield c
            if len(set(lat)) > 1:
                c = dict(case); c["lat"] = [min(lat)] * len(lat); yield c
            if case.get("n", 3) > 3:
                c = dict(case); c["n"] = case["n"] - 1
                c["ops"] = [o for o in xs if o.get("node", 0) < c["n"] and all(a < c["n"] for a in o.get("a", []))]
                yield c

    def mutate(self, case, rng):
        c = json.loads(json.dumps(case))
        fam = c["family"]
        if fam == "lock":
            xs = c["ops"]
            if xs:
                i = rng.randrange(len(xs))
                r = rng.random()
                if r < 0.3 and len(xs) > 1:
                    del xs[i]
                elif r < 0.6:
                    xs.insert(i, list(rng.choice(xs)))
                else:
                    xs[i][2] = max(0, xs[i][2] + rng.choice([-1, 1]))
            return c
        lat = c.get("lat") or [1_000_000]
        for _ in range(rng.randint(1, 3)):
            i = rng.randrange(len(lat))
            lat[i] = rng.choice([1, 2, 5, 40, 900]) * 1_000_000
        c["lat"] = lat
        if c.get("ops") and rng.random() < 0.5:
            o = rng.choice(c["ops"])
            o["t"] = max(0, o["t"] + rng.choice([-1, 1, 5]) * 1_000_000)
            c["ops"].sort(key=lambda o: o["t"])
        if fam in ("mpaxos", "fpaxos"):
            self._mutate_log_case(c, rng)
        return c

    def _mutate_log_case(self, c, rng):
        """quorum asymmetry (Flexible Paxos), partition sizes around q1 / q2, a take-over tail"""
        ms = 1_000_000
        n = c["n"]
        if c["family"] == "fpaxos" and rng.random() < 0.6:
            q1, q2 = c.get("q1", n // 2 + 1), c.get("q2", n // 2 + 1)
            cands = [(q2, q1), (q1 - 1, q2), (q1 + 1, q2), (q1, q2 - 1), (q1, q2 + 1), (q1, n - q1 + 1),
                     (n - q2 + 1, q2), (1, n), (n, 1), self._fp_quorums(rng, n)]
            cands = [(a, b) for a, b in cands if 1 <= a <= n and 1 <= b <= n and a + b > n and (a, b) != (q1, q2)]
            if cands:
                c["q1"], c["q2"] = rng.choice(cands)
        q1 = c.get("q1", n // 2 + 1)
        q2 = c.get("q2", n // 2 + 1)
        ops = c["ops"]
        starts = [o for o in ops if o["op"] == "start"]
        parts = [o for o in ops if o["op"] == "partition"]
        r = rng.random()
        if r < 0.25 and parts:
            # grow / shrink the cut-off side by one node
            o = rng.choice(parts)
            a = list(o["a"])
            out = [i for i in range(n) if i not in a]
            if rng.random() < 0.5 and len(a) > 1:
                a.remove(rng.choice(a))
            elif len(out) > 1:
                a.append(rng.choice(out))
            o["a"] = sorted(a)
        elif r < 0.5 and starts:
            # (re)place the partition: a starting node with exactly q1 / about q2 nodes on its side
            st = rng.choice(starts)
            ops[:] = [o for o in ops if o["op"] not in ("partition", "heal")]
            t0 = max(0, st["t"] - rng.choice([0, 1, 2]) * ms)
            ops.append({"t": t0, "op": "partition", "a": self._side_around(rng, n, st["node"], q1, q2)})
            ops.append({"t": t0 + rng.choice([5, 20, 50, 300]) * ms, "op": "heal"})
        elif r < 0.7 and ops:
            # another node takes over at the end with a fresh command
            t = max(o["t"] for o in ops) + rng.choice([1, 10, 50]) * ms
            nd = rng.randrange(n)
            cmd = 1 + max([o.get("cmd", 0) for o in ops])
            ops.append({"t": t, "op": "submit", "node": nd, "cmd": cmd})
            ops.append({"t": t + ms, "op": "start", "node": nd})
        ops.sort(key=lambda o: (o["t"], {"partition": 0, "heal": 2}.get(o["op"], 1)))


THEOREMS = [
    "HappyModel.C12.flexible_paxos_agreement",
    "HappyModel.C12.paxos_agreement",
    "HappyModel.C12.paxos_agreement_spec",
    "HappyModel.C12.paxos_validity",
    "HappyModel.C12.decision_stable",
    "HappyModel.C12.future_resolves_decided",
    "HappyModel.C12.paxos_agreement_current_false",
    "HappyModel.C12.retry_decides_none",
    "HappyModel.C12.fencing_strictly_increasing",
    "HappyModel.C12.MP.slot_agreement_current_false",
    "HappyModel.C12.MP.flexible_slot_agreement_current_false",
    "HappyModel.C12.MP.slot_agreement_full_current_false",
    "HappyModel.C12.flexible_quorums_intersect",
    "HappyModel.C12.paxos_decision_has_phase2_quorum",
    "HappyModel.C12.MP.commit_needs_phase2_quorum",
    "HappyModel.C12.MP.commit_judge_silent",
    "HappyModel.C12.MP.commit_on_phase1_quorum_violates_spec",
    "HappyModel.C12.MP.commit_distinct_quorum_current_false",
    "HappyModel.C12.MP.leader_needs_phase1_quorum",
    "HappyModel.C12.MP.leader_judge_silent",
    "HappyModel.C12.MP.leader_on_phase2_quorum_violates_spec",
    "HappyModel.C12.MP.promise_clears_leadership",
    "HappyModel.C12.MP.deposed_leader_never_assigns",
    "HappyModel.C12.MP.deposed_judge_silent",
    "HappyModel.C12.MP.deposed_leader_violates_spec",
    "HappyModel.C12.El.stale_heartbeat_does_not_change_leader",
    "HappyModel.C12.El.election_steps_judge_silent",
    "HappyModel.C12.El.stale_heartbeat_adopted_violates_spec",
    "HappyModel.C12.El.election_two_leaders_one_term",
    "HappyModel.C12.El.election_one_leader_per_term_current_false",
]
C12.theorems = THEOREMS
PROPERTY = C12()
